"""C17 - queries are pure and repeatable (PARTIAL: footprints are measured, not proved)."""
import json
import os

from harness import core
from harness.core import cN, clist, ctuple, cbool

HEADER = ('From Coq Require Import List ZArith NArith Bool.\n'
          'From PC Require Import Base.Outcome Model.IndexedList Model.PurityQueries Model.Purity Check.C17.\n'
          'Import ListNotations.\n')
CASE_TYPE = 'C17.case'

# location classes and query kinds are interned as the atoms Model/Purity.v declares
CLASS_ATOM = {'field': 1, 'array_data': 2, 'array_meta': 3, 'xml': 4, 'errors': 5, 'components': 6, 'alias': 7,
              'structure': 8, 'tricache': 20, 'imgcache': 21, 'fresh': 22, 'newprivate': 23}
KIND_ATOM = {'scene_objects': 1, 'node_objects': 2, 'shapes': 3, 'polygon_triangles': 4, 'bound_triangleset': 5,
             'bound_item': 6, 'triangleset': 7, 'unbound_item': 8, 'input_list': 9, 'prim_props': 10, 'index_lib': 11,
             'print': 12, 'image_data': 13, 'source_item': 14, 'effect_eq': 15, 'partial_iter': 16, 'save': 30, 'own': 31, 'edit': 32}

FILES = ['cube_tristrips.dae', 'duck_polylist.dae', 'duck_triangles.dae', 'duck.zip', 'empty_triangles.dae',
         'empty_triangles_with_multiple_ns.dae', 'trifans.dae', 'tristrips.dae', 'wam.dae', 'wam.zae']
LIBS = ['geometries', 'controllers', 'animations', 'lights', 'cameras', 'images', 'effects', 'materials', 'nodes', 'scenes']
TIPOS = ['geometry', 'light', 'camera', 'controller']


# ------------------------------------------------------------------ document generator

def gen_transform(rng):
    k = rng.choice(['translate', 'scale', 'rotate', 'matrix', 'lookat'])
    if k == 'translate':
        return [k] + [rng.randint(-4, 4) for _ in range(3)]
    if k == 'scale':
        return [k] + [rng.choice([1, 2, -1, 0.5, 3, 0.25]) for _ in range(3)]
    if k == 'rotate':
        ax = rng.choice([[1, 0, 0], [0, 1, 0], [0, 0, 1]])
        return [k] + ax + [rng.choice([0, 90, 180, 30])]
    if k == 'matrix':
        m = [1, 0, 0, rng.randint(-3, 3), 0, 1, 0, rng.randint(-3, 3), 0, 0, 1, rng.randint(-3, 3), 0, 0, 0, 1]
        if rng.random() < 0.3:
            m[0], m[5] = 2, -1
        return [k, m]
    return [k, [rng.randint(1, 4), 0, rng.randint(1, 4)], [0, 0, 0], [0, 1, 0]]


def gen_node(rng, depth, counter, allow_inst):
    counter[0] += 1
    n = {'id': 'node%d' % counter[0], 'transforms': [gen_transform(rng) for _ in range(rng.choice([0, 1, 1, 2, 3]))],
         'children': []}
    if depth == 0 and rng.random() < 0.5:
        # a top-level node (visited with matrix=None: its own Node.matrix object is handed down, not a
        # product) that scales non-uniformly and instantiates a camera, a light and geometry directly
        if rng.random() < 0.7:
            n['transforms'].insert(rng.randint(0, len(n['transforms'])),
                                   rng.choice([['scale', 1, rng.choice([2, 3, 0.5]), 1], ['scale', 2, 0.25, 3],
                                               ['matrix', [1, 0, 0, 0, 0, rng.choice([2, 4]), 0, 1, 0, 0, 0.5, 0, 0, 0, 0, 1]]]))
        n['children'] += [['cam', rng.randint(0, 3)], ['light', rng.randint(0, 3)], ['geom', rng.randint(0, 3)]]
        rng.shuffle(n['children'])
    for _ in range(rng.choice([1, 1, 2, 3])):
        r = rng.random()
        if r < 0.5:
            n['children'].append(['geom', rng.randint(0, 3)])
        elif r < 0.6:
            n['children'].append(['cam', rng.randint(0, 3)])
        elif r < 0.75:
            n['children'].append(['light', rng.randint(0, 3)])
        elif r < 0.92 and depth < 2:
            n['children'].append(['node', gen_node(rng, depth + 1, counter, allow_inst)])
        elif allow_inst:
            n['children'].append(['inst', rng.randint(0, 3)])
    return n


def gen_prim(rng, nv, nn, ntex, ntexv, ntan=0):
    """one primitive.  The inputs get every kind of offset layout: ascending, all shared, descending,
    a random permutation, partly shared; several sets of one semantic (the same source may serve
    two sets) are declared in an order that need not follow their offsets."""
    t = rng.choice(['triangles', 'triangles', 'polylist', 'polylist', 'polygons', 'lines'])
    decl = [['VERTEX', 'pos', None, nv]]
    if nn > 0 and rng.random() < 0.7:
        decl.append(['NORMAL', 'nrm', None, nn])
    if ntex:
        sets = [rng.randrange(ntex) for _ in range(rng.choice([0, 1, 2, 2, 3]))]
        for si, ti in enumerate(sets):
            decl.append(['TEXCOORD', 'uv%d' % ti, str(si), ntexv])
    if ntan and rng.random() < 0.6:
        # tangents/binormals: only TriangleSet's constructor looks at them
        for sem, src in (('TEXTANGENT', 'tan'), ('TEXBINORMAL', 'bin')):
            if rng.random() < 0.7:
                decl.append([sem, src, '0', ntan])
    if rng.random() < 0.5:
        rng.shuffle(decl)
    n = len(decl)
    layout = rng.choice(['ascending', 'ascending', 'shared', 'descending', 'permuted', 'permuted', 'partly_shared'])
    if layout == 'ascending':
        offs = list(range(n))
    elif layout == 'shared':
        offs = [0] * n
    elif layout == 'descending':
        offs = list(range(n - 1, -1, -1))
    elif layout == 'permuted':
        offs = list(range(n))
        rng.shuffle(offs)
    else:
        offs = [rng.randrange(max(1, n - 1)) for _ in range(n)]
    stride = max(offs) + 1
    lim = [None] * stride
    for o, d in zip(offs, decl):
        lim[o] = d[3] if lim[o] is None else min(lim[o], d[3])
    lim = [1 if x is None else x for x in lim]
    inputs = [[o, d[0], d[1], d[2]] for o, d in zip(offs, decl)]
    nfaces = rng.choice([0, 1, 1, 2, 3, 5])
    per = {'triangles': 3, 'lines': 2}.get(t)
    vcounts = []
    index = []
    for _ in range(nfaces):
        vc = per or rng.choice([3, 3, 4, 5, 6])
        vcounts.append(vc)
        for _ in range(vc):
            for o in range(stride):
                index.append(rng.randrange(lim[o]))
    p = {'type': t, 'inputs': inputs, 'index': index, 'material': rng.choice([None, 'sym0', 'sym1'])}
    if t in ('polylist', 'polygons'):
        p['vcounts'] = vcounts
        p['stride'] = stride
    return p


def gen_geom(rng):
    nv = rng.randint(3, 8)
    verts = [rng.randint(-5, 5) for _ in range(3 * nv)]
    # values that 7 significant digits do not reproduce as float32 (what a save writes is '%.7g')
    ODD = [0.123456789, 1.00000012, 1234.56789, -0.333333343, 1.0 / 3.0, 0.1, 16777215.0, -2.7182817459106445]
    if rng.random() < 0.6:
        for _ in range(rng.randint(1, 4)):
            verts[rng.randrange(len(verts))] = rng.choice(ODD)
    nn = rng.choice([0, 2, 4])
    normals = []
    for _ in range(nn):
        normals += rng.choice([[1, 0, 0], [0, 1, 0], [0, 0, 1], [0, 0, -1], [2, 0, 0], [0, 3, 4], [0, 0, 0]])
    ntex = rng.choice([0, 0, 1, 2])
    ntexv = rng.randint(2, 5)
    tex = [[rng.choice([rng.randint(0, 4) / 4.0, rng.randint(0, 4) / 4.0, 0.123456789, 1.0 / 3.0]) for _ in range(2 * ntexv)]
           for _ in range(ntex)]
    if nn and rng.random() < 0.4:
        normals[rng.randrange(len(normals))] = rng.choice([0.577350259, -0.333333343, 0.123456789])
    ntan = rng.choice([0, 0, 2, 3])
    g = {'verts': verts, 'normals': normals, 'tex': tex, 'double_sided': rng.random() < 0.2,
         'normal_names': rng.choice([['X', 'Y', 'Z'], ['X', 'Y', 'Z'], ['A', 'B', 'C']]),
         'prims': [gen_prim(rng, nv, nn, ntex, ntexv, ntan) for _ in range(rng.choice([1, 1, 2, 3]))]}
    if ntan:
        g['tan'] = [rng.choice([1, 0, 0, -1]) for _ in range(3 * ntan)]
        g['bin'] = [rng.choice([1, 0, 0, -1]) for _ in range(3 * ntan)]
        g['tan_names'] = rng.choice([['X', 'Y', 'Z'], ['A', 'B', 'C'], ['R', 'G', 'B']])
    return g


def gen_light(rng):
    """every light kind; point and spot lights also with any subset of their optional parameters
    left unspecified (None), as a file without those elements gives"""
    k = rng.choice(['dir', 'amb', 'point', 'spot', 'point?', 'spot?', 'point?', 'spot?'])
    if not k.endswith('?'):
        return k
    opt = lambda v: rng.choice([None, None, v])
    if k == 'point?':
        return ['point', opt(1.0), opt(0.5), opt(0.25)]
    return ['spot', opt(1.0), opt(0.5), opt(0.25), opt(30.0), opt(2.0)]


def gen_doc(rng):
    r = rng.random()
    if r < 0.3:
        f = rng.choice(FILES)
        return {'kind': 'file', 'file': f, 'ignore': f.startswith('cube') or rng.random() < 0.3}
    counter = [0]
    spec = {'kind': 'ctor' if r < 0.7 else 'reload', 'image': rng.random() < 0.5,
            'geoms': [gen_geom(rng) for _ in range(rng.choice([1, 1, 2, 3]))],
            'cameras': [rng.choice(['persp', 'ortho']) for _ in range(rng.choice([0, 1, 1, 2, 2]))],
            'lights': [gen_light(rng) for _ in range(rng.choice([0, 1, 2, 3]))]}
    spec['libnodes'] = [gen_node(rng, 1, counter, False) for _ in range(rng.choice([0, 0, 1]))]
    spec['nodes'] = [gen_node(rng, 0, counter, bool(spec['libnodes'])) for _ in range(rng.choice([1, 1, 2]))]
    return spec


def skin_doc(rng):
    return {'kind': 'xml', 'xml': rng.choice([SKIN_XML, BIND_XML, BIND_XML]), 'ignore': rng.random() < 0.5}


def gen_query(rng):
    k = rng.choice(['scene_objects', 'scene_objects', 'node_objects', 'shapes', 'shapes', 'polygon_triangles', 'partial_iter',
                    'bound_triangleset', 'bound_item', 'triangleset', 'triangleset', 'unbound_item', 'input_list',
                    'prim_props', 'index_lib', 'print', 'image_data', 'source_item', 'effect_eq'])
    a, b, c = rng.randint(0, 5), rng.randint(0, 5), rng.randint(0, 7)
    if k == 'scene_objects':
        return [k, rng.choice(TIPOS), rng.choice([-1, 0, 1])]
    if k == 'node_objects':
        m = None
        if rng.random() < 0.5:
            m = [1, 0, 0, rng.randint(-2, 2), 0, 1, 0, 0, 0, 0, 1, 0, 0, 0, 0, 1]
        return [k, rng.choice(TIPOS), a, m]
    if k in ('shapes', 'bound_triangleset', 'triangleset'):
        return [k, a, b, rng.choice([1, 3, 50])]
    if k == 'partial_iter':
        return [k, rng.choice(TIPOS), a, b]
    if k in ('polygon_triangles', 'bound_item', 'unbound_item', 'source_item'):
        return [k, a, b, c]
    if k in ('input_list', 'prim_props'):
        return [k, a, b]
    if k == 'index_lib':
        ids = ['geom0', 'geom1', 'effect0', 'material0', 'scene0', 'node1', 'cam0', 'light0', 'img0', 'renamed-0', 'renamed-1',
               'no-such-id', 'absent', 'VisualSceneNode', 'LOD3spShape-lib', 'mesh0', 'skin0']
        keys = [[rng.choice(['get', 'in', 'item']), rng.choice(ids)] for _ in range(rng.choice([0, 2, 4, 6]))]
        return [k, rng.choice(LIBS), a, keys]
    if k == 'image_data':
        return [k, a]
    if k == 'effect_eq':
        return [k, a, b]
    return [k]


def gen_ops(rng, n):
    ops = []
    pool = [gen_query(rng) for _ in range(max(2, n // 3))]
    for _ in range(n):
        r = rng.random()
        if r < 0.12:
            ops.append(['save'])
        elif r < 0.18:
            ops.append(['edit', 'rename', rng.choice(LIBS[:1] + LIBS), rng.randint(0, 3), 'renamed-%d' % rng.randint(0, 1)])
        elif r < 0.27:
            ops.append(['own', rng.randint(0, 5), rng.randint(0, 5)])
        elif r < 0.55:
            ops.append(rng.choice(pool))          # multiplicity: the same query again, later
        else:
            q = gen_query(rng)
            pool.append(q)
            ops.append(q)
    return ops


def gen_case(rng, nops):
    doc = skin_doc(rng) if rng.random() < 0.14 else gen_doc(rng)
    return {'doc': doc, 'ops': gen_ops(rng, nops)}


SKIN_XML = '''<?xml version="1.0" encoding="utf-8"?>
<COLLADA xmlns="http://www.collada.org/2005/11/COLLADASchema" version="1.4.1">
 <asset><created>2020-01-02T03:04:05</created><modified>2020-01-02T03:04:05</modified><up_axis>Y_UP</up_axis></asset>
 <library_geometries>
  <geometry id="mesh0" name="mesh0"><mesh>
   <source id="mesh0-pos"><float_array id="mesh0-pos-array" count="12">0 0 0 1 0 0 0 1 0 0 0 1</float_array>
    <technique_common><accessor source="#mesh0-pos-array" count="4" stride="3"><param name="X" type="float"/><param name="Y" type="float"/><param name="Z" type="float"/></accessor></technique_common></source>
   <source id="mesh0-nrm"><float_array id="mesh0-nrm-array" count="6">0 0 1 0 1 0</float_array>
    <technique_common><accessor source="#mesh0-nrm-array" count="2" stride="3"><param name="X" type="float"/><param name="Y" type="float"/><param name="Z" type="float"/></accessor></technique_common></source>
   <vertices id="mesh0-vtx"><input semantic="POSITION" source="#mesh0-pos"/></vertices>
   <polylist count="2" material="sym0"><input semantic="VERTEX" source="#mesh0-vtx" offset="0"/><input semantic="NORMAL" source="#mesh0-nrm" offset="1"/>
    <vcount>3 4</vcount><p>0 0 1 0 2 1 0 1 1 1 2 0 3 0</p></polylist>
   <triangles count="1"><input semantic="VERTEX" source="#mesh0-vtx" offset="0"/><p>1 2 3</p></triangles>
  </mesh></geometry>
 </library_geometries>
 <library_controllers>
  <controller id="skin0"><skin source="#mesh0">
   <bind_shape_matrix>1 0 0 1 0 1 0 0 0 0 1 0 0 0 0 1</bind_shape_matrix>
   <source id="skin0-joints"><Name_array id="skin0-joints-array" count="2">j0 j1</Name_array>
    <technique_common><accessor source="#skin0-joints-array" count="2" stride="1"><param name="JOINT" type="Name"/></accessor></technique_common></source>
   <source id="skin0-bind"><float_array id="skin0-bind-array" count="32">1 0 0 0 0 1 0 0 0 0 1 0 0 0 0 1 1 0 0 2 0 1 0 0 0 0 1 0 0 0 0 1</float_array>
    <technique_common><accessor source="#skin0-bind-array" count="2" stride="16"><param name="TRANSFORM" type="float4x4"/></accessor></technique_common></source>
   <source id="skin0-weights"><float_array id="skin0-weights-array" count="3">1 0.5 0.25</float_array>
    <technique_common><accessor source="#skin0-weights-array" count="3" stride="1"><param name="WEIGHT" type="float"/></accessor></technique_common></source>
   <joints><input semantic="JOINT" source="#skin0-joints"/><input semantic="INV_BIND_MATRIX" source="#skin0-bind"/></joints>
   <vertex_weights count="4"><input semantic="JOINT" source="#skin0-joints" offset="0"/><input semantic="WEIGHT" source="#skin0-weights" offset="1"/>
    <vcount>1 2 1 2</vcount><v>0 0 0 1 1 1 1 0 0 2 1 2</v></vertex_weights>
  </skin></controller>
 </library_controllers>
 <library_visual_scenes><visual_scene id="vs">
  <node id="joint0" type="JOINT"><translate>1 2 3</translate></node>
  <node id="n0"><rotate>0 0 1 90</rotate>
   <instance_controller url="#skin0"><skeleton>#joint0</skeleton></instance_controller>
   <instance_geometry url="#mesh0"/></node>
 </visual_scene></library_visual_scenes>
 <scene><instance_visual_scene url="#vs"/></scene>
</COLLADA>
'''


BIND_XML = '''<?xml version="1.0" encoding="utf-8"?>
<COLLADA xmlns="http://www.collada.org/2005/11/COLLADASchema" version="1.4.1">
 <asset><created>2020-01-02T03:04:05</created><modified>2020-01-02T03:04:05</modified><up_axis>Y_UP</up_axis></asset>
 <library_lights>
  <light id="pl0"><technique_common><point><color>1 1 1</color></point></technique_common></light>
  <light id="pl1"><technique_common><point><color>1 0 1</color><linear_attenuation>0.5</linear_attenuation></point></technique_common></light>
  <light id="sl0"><technique_common><spot><color>1 1 0</color><falloff_angle>30</falloff_angle></spot></technique_common></light>
 </library_lights>
 <library_effects><effect id="fx0"><profile_COMMON><technique sid="common"><phong><diffuse><color>1 0.5 0.25 1</color></diffuse></phong></technique></profile_COMMON></effect>
  <effect id="fx1"><profile_COMMON><technique sid="common"><lambert><diffuse><color>0 0.5 0.25 1</color></diffuse></lambert></technique></profile_COMMON></effect></library_effects>
 <library_materials><material id="mat0" name="m0"><instance_effect url="#fx0"/></material><material id="mat1" name="m1"><instance_effect url="#fx1"/></material></library_materials>
 <library_geometries>
  <geometry id="mesh0" name="mesh0"><mesh>
   <source id="mesh0-pos"><float_array id="mesh0-pos-array" count="12">0 0 0 2 0 0 0 3 0 0 0 1</float_array>
    <technique_common><accessor source="#mesh0-pos-array" count="4" stride="3"><param name="X" type="float"/><param name="Y" type="float"/><param name="Z" type="float"/></accessor></technique_common></source>
   <source id="mesh0-uv"><float_array id="mesh0-uv-array" count="6">0 0 1 0 0 1</float_array>
    <technique_common><accessor source="#mesh0-uv-array" count="3" stride="2"><param name="S" type="float"/><param name="T" type="float"/></accessor></technique_common></source>
   <vertices id="mesh0-vtx"><input semantic="POSITION" source="#mesh0-pos"/></vertices>
   <triangles count="2" material="symA"><input semantic="VERTEX" source="#mesh0-vtx" offset="0"/><input semantic="TEXCOORD" source="#mesh0-uv" offset="1" set="0"/><p>0 0 1 1 2 2 1 0 2 1 3 2</p></triangles>
   <polylist count="1" material="symB"><input semantic="VERTEX" source="#mesh0-vtx" offset="0"/><vcount>4</vcount><p>0 1 2 3</p></polylist>
  </mesh></geometry>
 </library_geometries>
 <library_visual_scenes><visual_scene id="vs">
  <node id="n0"><rotate>0 0 1 90</rotate><translate>1 2 3</translate><scale>2 1 1</scale>
   <instance_geometry url="#mesh0"><bind_material><technique_common>
     <instance_material symbol="symA" target="#mat0"><bind_vertex_input semantic="TEX0" input_semantic="TEXCOORD"/></instance_material>
     <instance_material symbol="symB" target="#mat1"><bind_vertex_input semantic="TEX1" input_semantic="TEXCOORD" input_set="1"/><bind_vertex_input semantic="TEX2" input_semantic="TEXCOORD"/></instance_material>
   </technique_common></bind_material></instance_geometry>
   <node id="n1"><translate>0 1 0</translate><rotate>1 0 0 90</rotate><instance_geometry url="#mesh0"/>
    <instance_light url="#pl0"/><instance_light url="#sl0"/></node><instance_light url="#pl1"/></node>
 </visual_scene></library_visual_scenes>
 <scene><instance_visual_scene url="#vs"/></scene>
</COLLADA>
'''


# ------------------------------------------------------------------ encoding

class Atoms(object):
    def __init__(self):
        self.t = {}

    def __call__(self, x):
        if x not in self.t:
            self.t[x] = 1000 + len(self.t)
        return self.t[x]


def c_rows(rows):
    return clist([clist([cN(int(v)) for v in r]) for r in rows])


def c_tris(t):
    if t is None:
        return 'None'
    return '(Some %s)' % clist([ctuple(*[clist([cN(int(v)) for v in corner]) for corner in tri]) for tri in t])


def c_conc(c):
    if not c:
        return 'CNone'
    I = Atoms()
    if c['kind'] == 'tri':
        return '(CTri %s %s %s %s)' % (clist([core.cnat(v) for v in c['vcounts']]), c_rows(c['rows']), c_tris(c['r1']), c_tris(c['r2']))

    def inp(t):
        return ctuple(cN(int(t[0])), cN(I(t[1])), cN(I(t[2])), 'None' if t[3] is None else '(Some %s)' % cN(I(str(t[3]))))
    if c['kind'] == 'inputs':
        return '(CInputs %s %s)' % (clist([ctuple(cN(I(sem)), clist([inp(t) for t in tupes])) for sem, tupes in c['sources']]),
                                   clist([inp(t) for t in c['seen']]))
    lk = {'get': 'LGet %s', 'in': 'LIn %s', 'item': 'LItem (KId %s)'}
    seen = []
    for kind, key, status, val in c['seen']:
        obs = 'None' if status != 'ok' else '(Some %s)' % ('None' if val is None else '(Some %s)' % cN(val))
        seen.append(ctuple('(' + lk[kind] % cN(I(key)) + ')', obs))
    return '(CLookups %s %s %s)' % (clist([ctuple(cN(u), cN(I(i))) for u, i in c['items']]),
                                   clist([ctuple(cN(I(q)), cN(u)) for q, u in c['index']]), clist(seen))


def c_step(s):
    return ctuple(cN(KIND_ATOM[s['op']]),
                  clist([cN(CLASS_ATOM[c]) for c in s['changed']]),
                  clist([cN(CLASS_ATOM[c]) for c in s['changed2']]),
                  cbool(s['repeat_equal']), cbool(s['same_as_twin']), c_conc(s.get('conc')))


def c_case(res):
    return ctuple(clist([c_step(s) for s in res['steps']]), cbool(bool(res.get('twin_equal'))))


# ------------------------------------------------------------------ running

def crashed(case, reason):
    return {'built': True, 'steps': [], 'twin_equal': False, 'crashed': True,
            'fails': [{'clause': 'crash-or-hang', 'site': 'worker', 'step': 0,
                       'what': 'the worker crashed or hung on this history: ' + reason[-300:]}]}


def run_impl_cases(cases, per=25, timeout=600):
    from concurrent.futures import ThreadPoolExecutor
    chunks = [cases[i:i + per] for i in range(0, len(cases), per)]
    with ThreadPoolExecutor(max_workers=core.NCPU) as ex:
        outs = list(ex.map(lambda ch: core.run_cases_bisect('c17', ch, lambda cs: {'cases': cs}, crashed, timeout),
                           chunks))
    return [r for out in outs for r in out]


def failures_of(cases, results, limit=4, do_shrink=True):
    out, seen = [], set()
    for c, r in zip(cases, results):
        for f in r['fails']:
            sig = 'C17:%s:%s' % (f['clause'], f['site'])
            if sig in seen:
                continue
            seen.add(sig)
            inp = c
            if do_shrink and not r.get('crashed'):
                try:
                    inp = core.run_impl('c17', {'shrink': c, 'clause': f['clause'], 'site': f['site'], 'step': f.get('step')}, timeout=120)
                except Exception:  # noqa
                    inp = c
            out.append({'signature': sig, 'clause': f['clause'], 'what': f['what'], 'input': inp, 'detail': f})
            if len(out) >= limit:
                return out
    return out


def corpus_cases():
    d = os.path.join(core.VERIF, 'corpus', 'C17')
    out = []
    if os.path.isdir(d):
        for fn in sorted(os.listdir(d)):
            if fn.endswith('.json'):
                out.append(json.load(open(os.path.join(d, fn))))
    return out


def fixed_cases():
    """every shipped file with one history that uses every query kind, every tipo and every library"""
    ops = []
    for t in TIPOS:
        ops.append(['scene_objects', t, -1])
    ops += [['shapes', 0, 0, 50], ['triangleset', 0, 0, 3], ['bound_triangleset', 0, 0, 3], ['save'],
            ['polygon_triangles', 0, 0, 1], ['bound_item', 0, 0, 2], ['unbound_item', 0, 0, 2], ['input_list', 0, 0],
            ['prim_props', 0, 0], ['print'], ['own', 0, 0], ['partial_iter', 'geometry', 0, 0], ['image_data', 0], ['source_item', 0, 0, 1],
            ['triangleset', 0, 0, 3], ['effect_eq', 0, 1], ['node_objects', 'geometry', 0, None], ['save'],
            ['shapes', 0, 0, 50], ['print']]
    ops += [['index_lib', l, 0] for l in LIBS]
    ops += [['edit', 'rename', 'geometries', 0, 'renamed-0'], ['index_lib', 'geometries', 0, [['get', 'renamed-0'], ['in', 'renamed-0']]],
            ['index_lib', 'geometries', 0, [['get', 'absent'], ['item', 'absent']]],
            ['index_lib', 'geometries', 0, [['get', 'renamed-0'], ['in', 'renamed-0']]], ['save'],
            ['index_lib', 'geometries', 0, [['get', 'renamed-0'], ['item', 'mesh0'], ['in', 'absent']]]]
    cases = [{'doc': {'kind': 'file', 'file': f, 'ignore': True}, 'ops': ops} for f in FILES]
    cases.append({'doc': {'kind': 'xml', 'xml': SKIN_XML, 'ignore': False}, 'ops': ops})
    cases.append({'doc': {'kind': 'xml', 'xml': BIND_XML, 'ignore': False}, 'ops': ops})
    return cases


TRANSIENT = ('inconsistent assumptions', 'bad version number', 'Cannot find a physical path', 'No such file', 'is corrupted',
             'was not produced by this build')


def _transient(texts):
    return any(t in x for x in texts for t in TRANSIENT)


def setup_with_retry(ctx):
    """build + obligations; the shared generated fragments (Gen/*.v) may be rebuilt by another check
    at the same moment - that shows as inconsistent compiled libraries and is retried, not reported"""
    import time
    for attempt in range(3):
        build_ok, obl, regen = core.std_setup(ctx)
        if build_ok and not _transient([str(p) for p in obl['problems']]):
            break
        if not _transient([str(p) for p in obl['problems']]) and attempt >= 1:
            break
        ctx.log('compiled libraries changed under the build (another check rebuilt shared files?): once more')
        time.sleep(5 + 10 * attempt)
    return build_ok, obl, regen


def eval_with_retry(ctx, header, case_type, terms, fn, chunk):
    import time
    for attempt in range(3):
        bad, errors = core.coq_eval_cases(ctx, header, case_type, terms, fn, chunk=chunk, label='cases%d' % attempt)
        if not errors or not _transient([e.get('error', '') for e in errors]):
            break
        ctx.log('compiled libraries changed under the evaluation (another check rebuilt shared files?): rebuilding')
        time.sleep(5 + 10 * attempt)
        core.std_setup(ctx)
    return bad, errors


def run(ctx):
    build_ok, obl, regen = setup_with_retry(ctx)
    quick = ctx.quick()
    cases = corpus_cases() + fixed_cases()
    nfixed = len(cases)
    nrand = 300 if quick else 3000
    for _ in range(nrand):
        cases.append(gen_case(ctx.rng, 20 if ctx.rng.random() < 0.85 else 40))
    ctx.log('running %d histories (documents x query batches) on the implementation' % len(cases))
    results = run_impl_cases(cases)
    built = [(c, r) for c, r in zip(cases, results) if r['built']]
    terms = [c_case(r) for _, r in built]
    ctx.log('comparing measured write sets with the declared ones inside Coq (%d cases)' % len(terms))
    bad, errors = eval_with_retry(ctx, HEADER, CASE_TYPE, terms, 'C17.mismatches', 100)
    failures = failures_of([c for c, _ in built], [r for _, r in built])
    mismatches = []
    for i in bad[:20]:
        c, r = built[i]
        off = [s for s in r['steps'] if s['changed'] or s['changed2'] or not s['repeat_equal'] or not s['same_as_twin']]
        mismatches.append({'case_index': i, 'input': c, 'steps_with_writes': off[:6], 'twin_equal': r.get('twin_equal'),
                           'explained_by_known': False})
    # evidence
    seen = set()
    opcount, chcount, dockinds, conc_count = {}, {}, {}, {}
    nsteps = nsaves = nraised = 0
    for c, r in built:
        kinds = {s['op'] for s in r['steps']}
        if len(r['steps']) >= 5 and len(kinds) >= 3:
            seen.add(core.canon_hash(c))
        dk = c['doc']['kind'] + (':' + c['doc']['file'] if c['doc']['kind'] == 'file' else '')
        dockinds[dk] = dockinds.get(dk, 0) + 1
        for s in r['steps']:
            nsteps += 1
            opcount[s['op']] = opcount.get(s['op'], 0) + 1
            nsaves += s['op'] == 'save'
            nraised += bool(s.get('raised'))
            if s.get('conc'):
                conc_count[s['conc']['kind']] = conc_count.get(s['conc']['kind'], 0) + 1
            for cl in set(s['changed']) | set(s['changed2']):
                chcount[cl] = chcount.get(cl, 0) + 1
    unbuilt = [r['why'] for r in results if not r['built']]
    corr = {
        'evaluations': len(built),
        'distinct_nontrivial': len(seen),
        'rule': 'a case = one document (shipped file, constructor-built, written-and-reloaded, or skin XML) with a history of '
                'queries, saves and bound-array writes; every query is run twice with a deep hash of every reachable '
                'location before/between/after; non-trivial = at least 5 steps of at least 3 different kinds; '
                'distinct = different (document, history)',
        'samples': [{'doc': (c['doc'] if c['doc']['kind'] != 'xml' else {'kind': 'xml'}), 'ops': c['ops'][:6],
                     'measured': r['steps'][:6]} for c, r in built[nfixed:nfixed + 2]],
        'distribution': {'steps': nsteps, 'steps_by_kind': opcount, 'saves': nsaves, 'queries_that_raised': nraised,
                         'changed_location_classes_seen': chcount,
                         'concrete_model_comparisons': conc_count, 'documents_by_kind': dockinds,
                         'documents_that_could_not_be_built': len(unbuilt), 'fixed_cases': nfixed},
        'mismatches': mismatches,
        'errors': errors,
    }

    def search(mm):
        extra = [gen_case(ctx.rng, 30) for _ in range(120)]
        res = run_impl_cases(extra)
        ok = [(c, r) for c, r in zip(extra, res) if r['built']]
        return failures_of([c for c, _ in ok], [r for _, r in ok])

    return core.finish(
        ctx, obligations=obl, regen=regen, build_ok=build_ok, corr=corr, failures=failures, search=search,
        trusted_base=core.BASE_TRUST + [
            'PARTIAL: Model/Purity.v is a footprint model (abstract heap, declared write sets per query kind); that the '
            'implementation stays inside those write sets is MEASURED on every run by deep-hashing every reachable '
            'attribute, array buffer and XML node around each query - numpy aliasing is observed, not modelled',
            'the walker harness/impl/c17_walk.py reaches state through instance __dict__, containers, arrays and XML only',
        ],
        assumptions=['generateNormals/generateTexTangentsAndBinormals are not read-only and are excluded',
                     'CImage.data on an unreadable file (records an error, then returns an empty string) is treated as '
                     'lazy loading, outside the listed read-only operations; image data is queried only where a loader exists',
                     'exceptions raised by a query are results (they must repeat); C17 does not require queries to succeed'],
        extra={'level_honest': 'partial: theorem over an abstract footprint model; footprints measured on every run'})


def replay(ctx, body):
    case = body.get('input') or (body.get('mismatching_cases') or [{}])[0].get('input')
    r = run_impl_cases([case])[0]
    print(json.dumps(r['fails'], indent=1)[:3000])
    if r['fails']:
        print('VIOLATION property=C17 replay=%s' % body.get('replay_cmd', '').split()[-1])
        return 1
    print('replay: the property clauses hold on this history now')
    return 0
