"""C07 - references resolve to the right object, on load and on save.

Reference-graph generator (forward, repeated, cyclic, self, dangling and '#'-less references; nested
nodes; names that are a permutation of the ids; libraries split in two), every graph loaded under
four ignore masks; exhaustive permutation slices (all 720 orders of six top-level libraries, all
120 orders of five library nodes, all 24 orders of four scene nodes); id renames before save."""
import itertools
import json
import random

from harness import core
from harness.gen import refdocs as R

HEADER = ('From Coq Require Import List Bool ZArith NArith.\n'
          'From PC Require Import Base.Outcome Base.Libs Gen.Params Model.IndexedList Model.Errors Model.Refs Check.C07.\n'
          'Import ListNotations.\n')
CASE_TYPE = 'C07.case'
MASKS = [None, ['DaeBrokenRefError'], ['DaeError'], ['DaeMalformedError']]
DAE = ['DaeError', 'DaeIncompleteError', 'DaeBrokenRefError', 'DaeMalformedError', 'DaeUnsupportedError',
       'DaeSaveValidationError']
RENAMABLE = ['images', 'effects', 'materials', 'lights', 'cameras', 'nodes', 'scenes', 'geometries']


def c_mask(names):
    return '[' + '; '.join('(MCls K_%s)' % n for n in (names or [])) + ']'


def c_bnd(b):
    if b[0] == 'n':
        return '(BNode %d%%N)' % b[1]
    return '(BInst %d%%N %s)' % (b[1], R.c_list(['%d%%N' % m for m in b[2]]))


def c_lnode(I, n):
    return '(%d%%N, %d%%N, %s)' % (n[0], I(n[1]), R.c_list([c_bnd(b) for b in n[2]]))


def c_obs(I, o):
    items = R.c_list(['(%s, (%d%%N, %d%%N, %s))' % (it[0], it[1], I(it[2]), R.c_list(['%d%%N' % u for u in it[3]]))
                      for it in o['items']])
    nodes = R.c_list([c_lnode(I, n) for n in o['nodes']])
    scenes = R.c_list(['(%d%%N, %d%%N, %s)' % (s[0], I(s[1]), R.c_list([c_lnode(I, n) for n in s[2]])) for s in o['scenes']])
    default = 'None' if o['default'] is None else '(Some %d%%N)' % o['default']
    return '(Obs %s %d%%nat %s %s %s %s %s)' % (c_mask(o['mask']), o['esc'], R.c_list(['%d%%nat' % e for e in o['errs']]),
                                               items, nodes, scenes, default)


def c_case(case, res):
    if 'scope' in case:
        return '([], [])'
    I = R.Interner()
    doc = R.c_doc(case['spec'], case['uids'], I)
    return '(%s, %s)' % (doc, R.c_list([c_obs(I, o) for o in res['obs']]))


# ------------------------------------------------------------------ generation

def make_case(spec, masks, clean, renames=None, family='random'):
    data, uids = R.build(spec)
    return {'spec': spec, 'uids': uids, 'xml': data.decode('utf-8'), 'masks': masks, 'clean': clean,
            'renames': renames, 'family': family}


def gen_renames(rng, spec):
    ctrl_geo = set()
    for t in spec['top']:
        if t['kind'] == 'controllers':
            for x in t['items']:
                ctrl_geo.add(x['source'].lstrip('#'))
                ctrl_geo.update(x.get('targets', []))
    counts = {}
    order = {}
    for t in spec['top']:
        if t['kind'] != 'default':
            for x in t['items']:
                order.setdefault(t['kind'], []).append(x['id'])
    out = []
    for k in RENAMABLE:
        for i, oid in enumerate(order.get(k, [])):
            if k == 'geometries' and oid in ctrl_geo:
                continue
            if rng.random() < 0.4:
                out.append([k, i, 'renamed-%s-%d' % (k[:3], i)])
    # effect-internal links: rename the sampler and/or surface parameters of textured effects,
    # on loaded effects and on an effect constructed through the API, before or after a first save
    for i, oid in enumerate(order.get('effects', [])):
        if rng.random() < 0.6:
            out.append(['fxparams', i, [rng.choice(['sampler', 'surface', 'both']), '-r%d' % i]])
    if rng.random() < 0.5:
        out.append(['construct', 0])
        out.append(['fxparams', len(order.get('effects', [])), [rng.choice(['sampler', 'surface', 'both']), '-rc']])
    # sub-objects REPLACED before the first save: bump map, Map in a shader slot, material.effect, instance targets
    for i, oid in enumerate(order.get('effects', [])):
        r = rng.random()
        if r < 0.25:
            out.append(['replace-bump', i])
        elif r < 0.4:
            out.append(['replace-map', i])
    for i, oid in enumerate(order.get('materials', [])):
        if rng.random() < 0.2:
            out.append(['replace-effect', i])
    if rng.random() < 0.3:
        out.append(['replace-target'])
    if rng.random() < 0.5:
        out.append(['save-first'])
    if rng.random() < 0.6:
        # save -> rename again -> save (geometries a controller refers to keep their id: controllers have no writer)
        out.append(['second-round', sorted(ctrl_geo)])
    return out


def fixed_specs(rng):
    """bases for the exhaustive permutation slices: clean graphs with forward references"""
    def node(i, ch, name=None):
        return {'id': i, 'name': name or i, 'children': ch}
    g = lambda u, m=(): {'t': 'geom', 'url': u, 'mats': list(m)}
    inn = lambda u: {'t': 'inode', 'url': u}
    lib6 = {'top': [
        {'kind': 'effects', 'items': [{'id': 'fx0', 'image': None}, {'id': 'fx1', 'image': None}]},
        {'kind': 'materials', 'items': [{'id': 'mat0', 'effect': '#fx1'}, {'id': 'mat1', 'effect': '#fx0'}]},
        {'kind': 'geometries', 'items': [{'id': 'geo0'}, {'id': 'geo1'}]},
        {'kind': 'controllers', 'items': [{'id': 'con0', 'kind': 'skin', 'source': '#geo1'}]},
        {'kind': 'nodes', 'items': [node('ln0', [inn('#ln1'), g('#geo0', ['#mat0'])], 'ln1'),
                                    node('ln1', [{'t': 'ctrl', 'url': '#con0', 'mats': ['#mat1']}], 'ln0')]},
        {'kind': 'scenes', 'items': [{'id': 'vs0', 'nodes': [node('r0', [inn('#ln0'), g('#geo1', ['#mat1', '#mat0'])])]}]},
        {'kind': 'default', 'url': '#vs0'}]}
    lib5a = {'top': [
        {'kind': 'images', 'items': [{'id': 'img0'}]},
        {'kind': 'effects', 'items': [{'id': 'fx0', 'image': 'img0'}]},
        {'kind': 'materials', 'items': [{'id': 'mat0', 'effect': '#fx0'}]},
        {'kind': 'lights', 'items': [{'id': 'lig0'}]},
        {'kind': 'scenes', 'items': [{'id': 'vs0', 'nodes': [node('r0', [{'t': 'light', 'url': '#lig0'}])]}]}]}
    lib5b = {'top': [
        {'kind': 'geometries', 'items': [{'id': 'geo0'}, {'id': 'geo1'}]},
        {'kind': 'controllers', 'items': [{'id': 'con0', 'kind': 'morph', 'source': '#geo0', 'targets': ['geo1', 'geo0']}]},
        {'kind': 'cameras', 'items': [{'id': 'cam0'}]},
        {'kind': 'nodes', 'items': [node('ln0', [{'t': 'cam', 'url': '#cam0'}, {'t': 'ctrl', 'url': '#con0', 'mats': []}])]},
        {'kind': 'scenes', 'items': [{'id': 'vs0', 'nodes': [node('r0', [inn('#ln0')])]}, {'id': 'vs1', 'nodes': [node('q0', [g('#geo1')])]}]}]}
    # five library nodes: chain, fan-in and nested forward references
    geo = {'kind': 'geometries', 'items': [{'id': 'geo0'}]}
    chain = {'top': [geo, {'kind': 'nodes', 'items': [
        node('a', [inn('#b')], 'e'), node('b', [inn('#c'), g('#geo0')], 'a'), node('c', [inn('#d')], 'b'),
        node('d', [inn('#e')], 'c'), node('e', [g('#geo0')], 'd')]}]}
    fan = {'top': [geo, {'kind': 'nodes', 'items': [
        node('a', [inn('#c'), inn('#d')], 'b'), node('b', [inn('#a'), inn('#e')], 'c'),
        node('c', [{'t': 'node', 'id': 'c-sub', 'children': [inn('#e'), g('#geo0')]}], 'd'),
        node('d', [inn('#e'), inn('#c')], 'e'), node('e', [], 'a')]}]}
    cyc = {'top': [geo, {'kind': 'nodes', 'items': [
        node('a', [inn('#b')]), node('b', [inn('#a')]), node('c', [inn('#c')]), node('d', [g('#geo0'), inn('#e')]),
        node('e', [g('#geo0')])]}]}
    # two <library_nodes> elements: the second has forward references among its own nodes and instantiates nodes of the first
    two = {'top': [geo,
                   {'kind': 'nodes', 'items': [node('x', [g('#geo0')], 'y'), node('y', [inn('#x')], 'x')]},
                   {'kind': 'nodes', 'items': [node('a', [inn('#b'), inn('#x')], 'd'), node('b', [inn('#c')], 'a'),
                                               node('c', [inn('#y'), g('#geo0')], 'b'), node('d', [inn('#a')], 'c')]},
                   {'kind': 'scenes', 'items': [{'id': 'vs0', 'nodes': [node('r0', [inn('#x'), inn('#y'), inn('#d')]),
                                                                         node('r1', [inn('#a'), inn('#c')])]}]}]}
    # every library kind twice; every instance refers to an object of the SECOND element of its kind
    multi = {'top': [
        {'kind': 'images', 'items': [{'id': 'img0'}]}, {'kind': 'images', 'items': [{'id': 'img1'}]},
        {'kind': 'effects', 'items': [{'id': 'fx0', 'image': None}]}, {'kind': 'effects', 'items': [{'id': 'fx1', 'image': 'img1'}]},
        {'kind': 'materials', 'items': [{'id': 'mat0', 'effect': '#fx1'}]}, {'kind': 'materials', 'items': [{'id': 'mat1', 'effect': '#fx1'}]},
        {'kind': 'geometries', 'items': [{'id': 'geo0'}]}, {'kind': 'geometries', 'items': [{'id': 'geo1'}]},
        {'kind': 'controllers', 'items': [{'id': 'con0', 'kind': 'skin', 'source': '#geo1'}]},
        {'kind': 'controllers', 'items': [{'id': 'con1', 'kind': 'morph', 'source': '#geo1', 'targets': ['geo1']}]},
        {'kind': 'lights', 'items': [{'id': 'lig0'}]}, {'kind': 'lights', 'items': [{'id': 'lig1'}]}, {'kind': 'lights', 'items': [{'id': 'lig2'}]},
        {'kind': 'cameras', 'items': [{'id': 'cam0'}]}, {'kind': 'cameras', 'items': [{'id': 'cam1'}]},
        {'kind': 'nodes', 'items': [node('ln0', [g('#geo0')])]},
        {'kind': 'nodes', 'items': [node('ln1', [g('#geo1', ['#mat1']), {'t': 'light', 'url': '#lig2'}, {'t': 'cam', 'url': '#cam1'},
                                                 {'t': 'ctrl', 'url': '#con1', 'mats': ['#mat1']}])]},
        {'kind': 'scenes', 'items': [{'id': 'vs0', 'nodes': [node('r0', [inn('#ln1'), {'t': 'light', 'url': '#lig1'}])]}]},
        {'kind': 'scenes', 'items': [{'id': 'vs1', 'nodes': [node('q0', [inn('#ln1'), g('#geo1', ['#mat1']), {'t': 'cam', 'url': '#cam1'}])]}]},
        {'kind': 'default', 'url': '#vs1'}]}
    sc4 = {'top': [geo, {'kind': 'nodes', 'items': [node('ln0', [g('#geo0')])]},
                   {'kind': 'scenes', 'items': [{'id': 'vs0', 'nodes': [
                       node('p', [inn('#q')], 'q'), node('q', [inn('#r'), inn('#ln0')], 'r'), node('r', [inn('#s')], 's'),
                       node('s', [g('#geo0')], 'p')]}]}]}
    return {'lib6': lib6, 'lib5a': lib5a, 'lib5b': lib5b, 'chain': chain, 'fan': fan, 'cyc': cyc, 'sc4': sc4, 'two': two, 'multi': multi}


def copy_swap_node_libs(spec):
    import copy
    s = copy.deepcopy(spec)
    ks = [i for i, t in enumerate(s['top']) if t['kind'] == 'nodes']
    s['top'][ks[0]], s['top'][ks[1]] = s['top'][ks[1]], s['top'][ks[0]]
    return s


def expected_counts(spec, uids):
    """number of bindings every node must have when everything resolves"""
    out = {}
    for t in spec['top']:
        if t['kind'] == 'nodes':
            for x in t['items']:
                out[uids[id(x)]] = len(R.flat_children(x['children']))
        elif t['kind'] == 'scenes':
            for s in t['items']:
                for x in s['nodes']:
                    out[uids[id(x)]] = len(R.flat_children(x['children']))
    return out


def build_cases(ctx):
    rng = ctx.rng
    quick = ctx.quick()
    cases = []
    nrand = 300 if quick else 5000
    for i in range(nrand):
        clean = rng.random() < 0.45
        spec = R.gen_spec(rng, clean=clean)
        ren = gen_renames(rng, spec) if rng.random() < 0.5 else None
        cases.append(make_case(spec, MASKS, clean, ren))
    fx = fixed_specs(rng)
    stats = {'random': nrand}
    # six libraries + the <scene> element: the 720 orders of the libraries (x <scene> last / first)
    base = fx['lib6']
    k = 0
    for perm in itertools.permutations(range(6)):
        for pos in ((6,) if quick and k % 6 else (6, 0)):
            p = list(perm)
            p.insert(pos, 6)
            cases.append(make_case(R.permuted(base, p), [None], True, family='libperm:lib6'))
        k += 1
    stats['libperm:lib6'] = sum(1 for c in cases if c['family'] == 'libperm:lib6')
    for name in ('lib5a', 'lib5b'):
        for perm in itertools.permutations(range(5)):
            cases.append(make_case(R.permuted(fx[name], perm), [None], True, family='libperm:' + name))
        stats['libperm:' + name] = 120
    for name in ('chain', 'fan', 'cyc'):
        for perm in itertools.permutations(range(5)):
            cases.append(make_case(R.with_node_order(fx[name], perm), [None, ['DaeError']] if name == 'cyc' else [None],
                                   name != 'cyc', family='nodeperm:' + name))
        stats['nodeperm:' + name] = 120
    for perm in itertools.permutations(range(4)):
        cases.append(make_case(R.with_scene_node_order(fx['sc4'], perm), [None], True, family='scenenodeperm:sc4'))
    stats['scenenodeperm:sc4'] = 24
    # every library kind occurring twice (lights three times), instances pointing into the later elements: as written,
    # reversed, and 40 random orders of the root's children
    base_m = fx['multi']
    nm = len(base_m['top'])
    orders = [list(range(nm)), list(reversed(range(nm)))]
    for _ in range(40):
        o_ = list(range(nm))
        rng.shuffle(o_)
        orders.append(o_)
    for o_ in orders:
        cases.append(make_case(R.permuted(base_m, o_), [None, ['DaeError']], True, family='multi-library'))
    stats['multi-library'] = len(orders)
    # the two elements in the other document order (the first one instantiates nodes of the later one)
    swapped = copy_swap_node_libs(fx['two'])
    for p2 in itertools.permutations(range(4)):
        cases.append(make_case(R.with_node_order(swapped, p2, 0), [None], True, family='nodeperm:two-library_nodes-swapped'))
    stats['nodeperm:two-library_nodes-swapped'] = 24
    # two <library_nodes> elements: all 24 orders of the second element's nodes x both orders of the first
    for p1 in itertools.permutations(range(2)):
        for p2 in itertools.permutations(range(4)):
            cases.append(make_case(R.with_node_order(R.with_node_order(fx['two'], p1, 0), p2, 1), [None], True,
                                   family='nodeperm:two-library_nodes'))
    stats['nodeperm:two-library_nodes'] = 48
    # scoped references re-pointed at a name defined only in ANOTHER scope (effect sids, geometry and
    # controller sources, top-level nodes of another scene): dangling, never bound across scopes
    from harness.gen import c08docs, faults as F
    stats['scope-crossing'] = 0
    for name, text in sorted(c08docs.base_documents().items()):
        root = F.parse(text)
        big = name in ('full', 'scopes')
        ext = [f for f in F.extref_sites(root, rng, 1 if (big and quick) else None) if not f.get('empty')]
        if name == 'full' and quick:
            ext = []
        wk = F.wrongkind_sites(root)
        if quick and len(wk) > 40:
            wk = rng.sample(wk, 40)
        for f in F.crossref_sites(root) + wk + ext:
            cases.append({'scope': {'base': text, 'fault': f}, 'family': 'scope:' + name, 'clean': False, 'masks': [],
                          'spec': {'top': []}, 'uids': {}, 'scope_name': name})
            stats['scope-crossing' if f['kind'] == 'crossref' else 'foreign-reference'] = \
                stats.get('scope-crossing' if f['kind'] == 'crossref' else 'foreign-reference', 0) + 1
    return cases, stats


# ------------------------------------------------------------------ running

def crashed(case, reason):
    return {'obs': [], 'fails': [{'signature': 'C07:crash-or-hang', 'clause': 'crash-or-hang', 'kind': 'crash-or-hang',
                                  'what': 'loading this reference graph crashes or hangs (a cyclic instance_node must end in '
                                          'an error): %s' % reason}]}


def run_impl_cases(cases, chunk=80):
    from concurrent.futures import ThreadPoolExecutor
    chunks = [cases[i:i + chunk] for i in range(0, len(cases), chunk)]

    def payload(cs):
        return {'cases': [{'scope': c['scope']} if 'scope' in c else
                          {'xml': c['xml'], 'masks': c['masks'], 'renames': c.get('renames')} for c in cs]}

    def one(ch):
        return core.run_cases_bisect('c07', ch, payload, crashed, timeout=240)
    with ThreadPoolExecutor(max_workers=core.NCPU) as ex:
        outs = list(ex.map(one, chunks))
    return [r for o in outs for r in o]


DANGLING_PREFIXES = ('#nosuch', '#no%such')


def has_certain_dangling(spec):
    """a dangling ('#nosuch...') reference that is certainly evaluated: the url of an instance in a
    library or scene node, a material's effect, the default scene, an instance_node"""
    for t in spec['top']:
        if t['kind'] == 'default':
            if t['url'].startswith(DANGLING_PREFIXES):
                return True
        elif t['kind'] == 'materials':
            if any(x['effect'].startswith(DANGLING_PREFIXES) for x in t['items']):
                return True
        elif t['kind'] in ('nodes', 'scenes'):
            tops = t['items'] if t['kind'] == 'nodes' else [n for s in t['items'] for n in s['nodes']]
            for x in tops:
                for c in R.flat_children(x['children']):
                    # (children behind an unresolvable instance_node are never reached, but then the
                    # node itself is reported as a broken reference)
                    if c['url'].startswith(DANGLING_PREFIXES):
                        return True
    return False


def _unused():
    pass


def oracle(case, res):
    """clauses evaluated on the implementation's observations against the spec (not the model)"""
    fails = list(res.get('fails', []))
    if not res.get('obs') or 'scope' in case:
        return fails
    spec, uids = case['spec'], case['uids']

    def fail(clause, what):
        sig = 'C07:%s' % clause
        if not any(f['signature'] == sig for f in fails):
            fails.append({'signature': sig, 'clause': clause.split(':')[0], 'what': what})
    by_mask = {json.dumps(o['mask']): o for o in res['obs']}
    strict = by_mask.get('[]')
    full = by_mask.get(json.dumps(['DaeError']))
    if case['clean'] and strict is not None:
        # acyclic, everything defined: every object loads with every binding, whatever the order
        if strict['esc'] or strict['errs']:
            fail('order-dependence', 'a document whose references are all defined and acyclic fails to load in this '
                                     'order of libraries / nodes: %s %s' % (strict['esc_name'], strict['errs']))
        else:
            want = expected_counts(spec, uids)
            got = {n[0]: len(n[2]) for n in strict['nodes']}
            for s in strict['scenes']:
                for n in s[2]:
                    got[n[0]] = len(n[2])
            if got != want:
                fail('order-dependence', 'not every node loaded with all its instances bound (element index -> bindings): '
                                         'expected %s, loaded %s' % (sorted(want.items()), sorted(got.items())))
            nitems = sum(len(t['items']) for t in spec['top'] if t['kind'] not in ('default', 'nodes', 'scenes'))
            if len(strict['items']) != nitems:
                fail('order-dependence', '%d of %d library objects loaded' % (len(strict['items']), nitems))
            dflt = [t for t in spec['top'] if t['kind'] == 'default']
            if dflt and strict['default'] is None:
                fail('order-dependence', 'the default scene reference %s was not resolved' % dflt[0]['url'])
    if case['clean'] and full is not None and full is not strict:
        # a tolerant load of a clean document keeps every instance as well
        want = expected_counts(spec, uids)
        got = {n[0]: len(n[2]) for n in full['nodes']}
        for s_ in full['scenes']:
            for n in s_[2]:
                got[n[0]] = len(n[2])
        if full['esc'] or full['errs'] or got != want:
            fail('order-dependence', 'with ignore=[DaeError] a document whose references are all defined and acyclic records errors '
                                     'or drops instances: errors %s, bindings %s instead of %s'
                 % (full['errs'], sorted(got.items()), sorted(want.items())))
    if not case['clean'] and has_certain_dangling(spec):
        if strict is not None and not strict['esc']:
            fail('dangling-not-reported', 'a document with a dangling reference loads without raising')
        if full is not None and 2 not in full['errs']:
            fail('dangling-not-reported', 'no DaeBrokenRefError is recorded for a dangling reference (errors: %s)' % full['errs'])
    for o in res['obs']:
        if o['esc'] > 6:
            fail('raw-exception:' + str(o['esc_name']), 'raw %s escapes' % o['esc_name'])
    return fails


def run(ctx):
    build_ok, obl, regen = core.std_setup(ctx)
    cases, stats = build_cases(ctx)
    ctx.log('loading %d reference graphs on the implementation' % len(cases))
    results = run_impl_cases(cases)
    failures = []
    seen_sig = set()
    per_case_fails = []
    for c, r in zip(cases, results):
        fs = oracle(c, r)
        per_case_fails.append(fs)
        for f in fs:
            if f['signature'] not in seen_sig:
                seen_sig.add(f['signature'])
                g = dict(f)
                g['input'] = ({'scope_base': c['scope_name'], 'fault': c['scope']['fault']} if 'scope' in c else
                              {'spec': c['spec'], 'masks': c['masks'], 'clean': c['clean'], 'renames': c.get('renames')})
                failures.append(g)
    terms = [c_case(c, r) for c, r in zip(cases, results)]
    ctx.log('evaluating the model on the same graphs inside Coq')
    bad, errors = core.coq_eval_cases(ctx, HEADER, CASE_TYPE, terms, 'C07.mismatches', chunk=200)
    if any('inconsistent assumptions' in str(e.get('error')) for e in errors):
        # another check rebuilt the shared .vo files (Gen/Params.v is regenerated per VERIF_REPO) while the
        # case files were being compiled: rebuild under the lock and evaluate once more
        ctx.log('compiled libraries changed under the case files (concurrent build): rebuilding and re-evaluating')
        build_ok, obl, regen = core.std_setup(ctx)
    bad, errors = core.coq_eval_cases(ctx, HEADER, CASE_TYPE, terms, 'C07.mismatches', chunk=200, label='cases_retry')
    known = {k['signature'] for k in core.load_known() if k.get('property') == 'C07'}
    mismatches = []
    for i in bad[:20]:
        sigs = [f['signature'] for f in per_case_fails[i]]
        mismatches.append({'case_index': i, 'family': cases[i]['family'],
                           'input': {'spec': cases[i]['spec'], 'masks': cases[i]['masks'], 'clean': cases[i]['clean'],
                                     'renames': cases[i].get('renames')},
                           'implementation_observed': results[i].get('obs'),
                           'explained_by_known': bool(sigs) and all(s in known for s in sigs)})
    seen = set()
    dist = {'clean': 0, 'with_errors': 0, 'with_deferred_or_cyclic': 0, 'renamed_before_save': 0}
    for c, r in zip(cases, results):
        nrefs = sum(1 for t in c['spec']['top'] if t['kind'] in ('nodes', 'scenes'))
        if nrefs:
            seen.add(core.canon_hash(c['spec']))
        elif 'scope' in c:
            seen.add(core.canon_hash([c['scope_name'], c['scope']['fault']]))
        if c['clean']:
            dist['clean'] += 1
        elif r.get('obs') and any(o['errs'] for o in r['obs']):
            dist['with_errors'] += 1
        if c.get('renames'):
            dist['renamed_before_save'] += 1
    dist.update(stats)
    corr = {
        'evaluations': len(terms),
        'distinct_nontrivial': len(seen),
        'rule': 'distinct document specs having at least one node or scene library (so at least one instance reference); '
                'random graphs are loaded under 4 ignore masks each and the model is run for each mask inside Coq',
        'samples': [{'spec': c['spec'], 'observed': r.get('obs', [])[:1]} for c, r in list(zip(cases, results))[:2]],
        'distribution': dist, 'mismatches': mismatches, 'errors': errors, 'exhaustive': True,
    }

    def search(mm):
        rng = random.Random(ctx.seed + 1)
        extra = []
        for i in range(1500):
            clean = rng.random() < 0.5
            spec = R.gen_spec(rng, clean=clean)
            extra.append(make_case(spec, MASKS, clean, gen_renames(rng, spec) if rng.random() < 0.5 else None))
        res = run_impl_cases(extra)
        out, sigs = [], set()
        for c, r in zip(extra, res):
            for f in oracle(c, r):
                if f['signature'] not in sigs:
                    sigs.add(f['signature'])
                    g = dict(f)
                    g['input'] = {'spec': c['spec'], 'masks': c['masks'], 'clean': c['clean'], 'renames': c.get('renames')}
                    out.append(g)
        return out

    return core.finish(
        ctx, obligations=obl, regen=regen, build_ok=build_ok, corr=corr, failures=failures, search=search,
        trusted_base=core.BASE_TRUST + [
            'Model/Refs.v: library objects abstracted to (identity, id, references); top-level nodes flattened to their '
            'instance_* descendants in document order; tied to the code by the correspondence on generated reference graphs',
            'the load order, the DaeError hierarchy and the loader -> library lookup table are regenerated from the Python '
            'source (Gen/Params.v)',
            'object identity is observed as the index of the bound object\'s xml element; `is` checks are made in the worker',
        ],
        assumptions=['reference kinds in the model: geometry/controller/light/camera/node instances, material targets, '
                     'material->effect, surface->image, skin and morph sources, default scene; sampler->surface and '
                     'texture->sampler links are effect-local and covered by the C08 fault enumeration only',
                     'controllers have no writer in pycollada: geometries referenced by a controller are not renamed before save',
                     'how many times an aborting error is recorded while unwinding is not modelled'])


def replay(ctx, body):
    inp = body.get('input')
    if inp is None and body.get('mismatching_cases'):
        inp = body['mismatching_cases'][0].get('input')
    if inp is None:
        print('replay: no input recorded (proof or build problem): %s' % json.dumps(body.get('no_longer_checks'))[:500])
        return run(ctx)
    if 'scope_base' in inp:
        from harness.gen import c08docs
        case = {'scope': {'base': c08docs.base_documents()[inp['scope_base']], 'fault': inp['fault']}, 'family': 'scope',
                'clean': False, 'masks': [], 'spec': {'top': []}, 'uids': {}, 'scope_name': inp['scope_base']}
    else:
        case = make_case(inp['spec'], inp['masks'], inp.get('clean', False), inp.get('renames'))
    r = run_impl_cases([case])[0]
    fs = oracle(case, r)
    known = {k['signature'] for k in core.load_known() if k.get('property') == 'C07'}
    print(json.dumps(fs, indent=1)[:3000])
    if any(f['signature'] not in known for f in fs):
        print('VIOLATION property=C07 replay=%s' % body.get('replay_cmd', '').split()[-1])
        return 1
    print('replay: the property clauses hold on this input now')
    return 0
