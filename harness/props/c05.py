"""C05 - the loaded model says what the file says.

Three-way correspondence inside Coq (implementation snapshot vs MODEL load_doc vs SPEC read_doc on
the same XML term) plus a direct oracle in Python: implementation snapshot vs what the independent
generator says it wrote (harness/gen/expect.py), and, for the shipped data files, vs an independent
xml.etree reading of the file (harness/gen/readxml.py)."""
import json
import os
import re
from concurrent.futures import ThreadPoolExecutor

from harness import core
from harness.enc import xml2coq
from harness.gen import expect, xmldocs

HEADER = ('From Coq Require Import List ZArith NArith.\n'
          'From PC Require Import Base.Atoms Base.Xml Base.Outcome Model.LoadPrim Model.Namespace Model.LoadDoc Check.C05.\n'
          'Import ListNotations.\nOpen Scope N_scope.\n')
CASE_TYPE = 'C05.case'
KNOWN = expect.KNOWN
INT_RE = xml2coq.INT_RE
NUM_RE = xml2coq.NUM_RE


# --------------------------------------------------------------------------- snapshot -> Coq view

class VEnc(object):
    """encodes the implementation's snapshot as the Coq term of type LoadDoc.V (same interner and
    numeric table as the XML term of the case)"""

    def __init__(self, enc):
        self.enc = enc
        self.fclass = {}

    def atom(self, s):
        return self.enc.I.atom(s)

    def cls(self, key):
        if key == 'nan':
            return 1
        v = float(key)
        if v not in (float('inf'), float('-inf')) and v == int(v) and abs(v) < 2 ** 24:
            z = int(v)
            return 2 * z if z >= 0 else 2 * (-z) + 1
        if key not in self.fclass:
            self.fclass[key] = 2 ** 26 + len(self.fclass)
        return self.fclass[key]

    def numtab(self):
        toks = sorted(self.enc.nums, key=lambda t: self.enc.nums[t])
        return [self.cls(expect.fkey(t)) for t in toks]

    # ---- leaves
    def n(self, k):
        return 'Vn %d' % k

    def z(self, k):
        return 'Vz (%d)%%Z' % k

    def l(self, xs):
        return 'Vl [' + '; '.join(xs) + ']'

    def aval(self, s):
        if s is None:
            return 'Vnone'
        if not isinstance(s, str):
            return 'Vnone'
        if s.startswith('#') and len(s) > 1 and not any(c.isspace() for c in s):
            return self.l([self.n(1), self.n(1), self.n(self.atom(s[1:]))])
        if INT_RE.match(s):
            return self.l([self.n(2), self.z(int(s))])
        return self.l([self.n(0), self.n(self.atom(s))])

    def aval_req(self, s):
        return self.aval('' if s is None else s)

    def tok(self, t):
        if INT_RE.match(t):
            return self.z(int(t))
        if NUM_RE.match(t):
            return self.l([self.n(9), self.n(self.enc.num(t))])
        return self.n(self.atom(t))

    def onum(self, key):
        return 'Vnone' if key is None else self.n(self.cls(key))

    # ---- pieces
    def source(self, s):
        ncomp = max(1, len(s['components'] or []))
        if s['kind'] == 'FloatSource':
            data = self.l([self.n(self.cls(k)) for k in s['data']])
            kind = 0
        else:
            data = self.l([self.tok(t) for t in s['data']])
            kind = 1 if s['kind'] == 'IDRefSource' else 2
        return self.l([self.n(s['uid']), self.aval(s['id']), self.n(kind),
                       self.l([self.aval(c) for c in (s['components'] or [])]), self.n(len(s['data']) // ncomp), data])

    def sview(self, data, idx):
        if data is None or idx is None:
            return 'Vnone'
        u = data['src']['uid'] if data.get('src') else 0
        return self.l([self.n(u), self.l([self.z(x) for x in idx['data']])])

    def prim(self, p):
        kind = {'TriangleSet': 3, 'LineSet': 2, 'Polylist': 1, 'Polygons': 0}[p['kind']]
        table = dict((k, v) for k, v in p['sources'])
        tb = []
        for sem in KNOWN:
            tb.append(self.l([self.l([self.n(t[0]), self.n(self.atom(t[1])), self.n(self.atom(t[2][1:])), self.aval(t[3]),
                                      self.n(t[4]['uid'])]) for t in table.get(sem, [])]))
        count = p.get('ntriangles', p.get('nlines', p.get('nvertices', 0)))
        tri = p['kind'] == 'TriangleSet'
        sets = lambda d, i: self.l([self.sview(a, b) for a, b in zip(p.get(d, []), p.get(i, []))])
        poly = 'Vnone'
        if kind in (0, 1):
            poly = self.l([self.l([self.z(x) for x in p['vcounts']]), self.l([self.z(x) for x in p['polystarts']]),
                           self.l([self.z(x) for x in p['polyends']])])
        return self.l([self.n(p['uid']), self.n(kind), self.aval(p['material']), self.n(p['nindices']), self.l(tb),
                       self.n(count), self.sview(p['vertex'], p['vertex_index']), self.sview(p['normal'], p['normal_index']),
                       sets('texcoordset', 'texcoord_indexset'),
                       sets('textangentset', 'textangent_indexset') if tri else self.l([]),
                       sets('texbinormalset', 'texbinormal_indexset') if tri else self.l([]), poly])

    def geometry(self, g):
        keys = []
        # sourceById is a dict: canonical order = the sources in document order, then the <vertices> entry
        ordered = sorted(g['sources'], key=lambda kv: (1, 0) if 'vertices' in kv[1] else (0, kv[1]['uid']))
        for key, s in ordered:
            if 'vertices' in s:
                keys.append(self.l([self.n(1), self.n(self.atom(key)),
                                    self.l([self.l([self.n(self.atom(sem)), 'Vnone' if v is None else self.n(v['uid'])])
                                            for sem, v in s['vertices']])]))
            else:
                keys.append(self.l([self.n(0), self.n(self.atom(key)), self.source(s)]))
        return self.l([self.n(g['uid']), self.aval_req(g['id']), self.aval_req(g['name']), self.n(1 if g['double_sided'] else 0),
                       self.l(keys), self.l([self.prim(p) for p in g['prims']])])

    def light(self, L):
        kind = {'AmbientLight': 'ambient', 'DirectionalLight': 'directional', 'PointLight': 'point', 'SpotLight': 'spot'}[L['kind']]
        names = {'point': ['constant_att', 'linear_att', 'quad_att', 'zfar'],
                 'spot': ['constant_att', 'linear_att', 'quad_att', 'falloff_ang', 'falloff_exp']}.get(kind, [])
        return self.l([self.n(L['uid']), self.aval(L['id']), self.n(self.atom(kind)),
                       self.l([self.n(self.cls(k)) for k in L['color']]), self.l([self.onum(L.get(a)) for a in names])])

    def camera(self, C):
        persp = C['kind'] == 'PerspectiveCamera'
        a, b = ('xfov', 'yfov') if persp else ('xmag', 'ymag')
        return self.l([self.n(C['uid']), self.aval_req(C['id']), self.n(self.atom('perspective' if persp else 'orthographic')),
                       self.onum(C.get(a)), self.onum(C.get(b)), self.onum(C.get('aspect_ratio')),
                       self.onum(C.get('znear')), self.onum(C.get('zfar'))])

    def text(self, t):
        return 'Vnone' if t is None else self.l([self.tok(x) for x in t.split()])

    def image(self, i):
        return self.l([self.n(i['uid']), self.aval(i['id']), self.text(i['path'])])

    def pval(self, v):
        if v is None:
            return 'Vnone'
        if 'num' in v:
            return self.l([self.n(0), self.l([self.n(self.cls(k)) for k in v['num']])])
        if 'map' in v:
            return self.l([self.n(1), self.aval(v['map']['sampler_id']), self.aval(v['map']['texcoord'])])
        return self.l([self.n(2)])

    def effect(self, e):
        params = []
        for p in e['params']:
            if p['kind'] == 'Surface':
                sid = self.aval(p['id'])
                if not p['uid'] and isinstance(p['id'], str) and p['id'].endswith('-surface'):
                    # made by the loader for a <texture> that names an image: "<image id>-surface" (Model/LoadDoc.v)
                    sid = self.l([self.n(3), self.n(self.atom(p['id'][:-len('-surface')]))])
                params.append(self.l([self.n(0), self.n(p['uid']), sid, self.text(p['format']),
                                      self.n(p['image']['uid'] if p.get('image') else 0)]))
            elif p['kind'] == 'Sampler2D':
                params.append(self.l([self.n(1), self.n(p['uid']), self.aval(p['id']), self.text(p['minfilter']),
                                      self.text(p['magfilter']), self.n(p['surface'])]))
            else:
                params.append(self.l([self.n(9)]))
        return self.l([self.n(e['uid']), self.aval(e['id']), self.n(self.atom(e['shadingtype'])),
                       self.n(1 if e['double_sided'] else 0), self.n(self.atom(e['opaque_mode'])), self.l(params),
                       self.l([self.pval(e['props'][k]) for k in expect.ALL_PROPS]), self.pval(e['bumpmap'])])

    def asset(self, A, xml_root):
        """dates and the unit's meter are opaque in Coq (the text / attribute of the file): that pycollada's
        datetime / float IS that instant / number is checked here, with an independent parse"""
        if not A or not A.get('uid') or xml_root is None:
            return 'Vnone'
        ns = xml_root.tag[1:].split('}')[0] if xml_root.tag.startswith('{') else ''
        q = (lambda n: '{%s}%s' % (ns, n)) if ns else (lambda n: n)
        el = xml_root.find(q('asset'))
        bad = self.l([self.n(99)])

        def date(key, name):
            c = el.find(q(name))
            t = None if c is None else c.text
            if t is None:
                return 'Vnone' if A[key] is None else bad
            m = re.match(r'^\s*(\d{4})-?(\d{2})-?(\d{2})(?:[T ](\d{2}):?(\d{2}):?(\d{2}))?', t)
            want = [int(x) if x is not None else 0 for x in m.groups()] if m else None
            return self.text(t) if want is not None and A[key] == want else bad
        u = el.find(q('unit'))
        unit = 'Vnone'
        if u is not None and u.get('meter') is not None:
            try:
                ok = A['unitmeter'] == expect.fkey(u.get('meter'))
            except Exception:  # noqa
                ok = False
            unit = self.l([self.aval(A['unitname']), self.aval(u.get('meter'))]) if ok else bad
        elif A['unitname'] is not None or A['unitmeter'] is not None:
            unit = bad
        cons = [self.l([self.text(c[k]) for k in ('author', 'authoring_tool', 'comments', 'copyright', 'source_data')])
                for c in A['contributors']]
        return self.l([self.n(A['uid']), self.text(A['title']), self.text(A['subject']), self.text(A['revision']),
                       self.text(A['keywords']), unit, self.n(self.atom(A['upaxis'])), date('created', 'created'),
                       date('modified', 'modified'), self.l(cons)])

    def matnode(self, m):
        return self.l([self.n(m['uid']), self.aval(m['symbol']), self.n(m['target']['uid']),
                       self.l([self.l([self.aval(x) for x in b]) for b in m['inputs']])])

    def node(self, n):
        t = n['type']
        if t == 'Node':
            ts = [self.l([self.n(self.atom(x['kind'])), self.n(x['uid']), self.l([self.n(self.cls(k)) for k in x['params']])])
                  for x in n['transforms']]
            return self.l([self.n(0), self.n(n['uid']), self.aval(n['id']), self.aval(n['name']), self.l(ts),
                           self.l([self.node(c) for c in n['children']])])
        if t == 'ExtraNode':
            return self.l([self.n(2), self.n(n['uid'])])
        tag = {'GeometryNode': 'instance_geometry', 'ControllerNode': 'instance_controller', 'CameraNode': 'instance_camera',
               'LightNode': 'instance_light', 'NodeNode': 'instance_node'}[t]
        return self.l([self.n(1), self.n(self.atom(tag)), self.n(n['uid']), self.n(n['target']['uid']),
                       self.l([self.matnode(m) for m in n.get('materials', [])])])

    def sdict(self, items):
        return self.l([self.l([self.n(self.atom(k)), self.source(s)]) for k, s in items])

    def controller(self, c):
        skin = c['kind'] == 'Skin'
        if skin:
            def src(s):
                return 'Vnone' if s is None else self.n(self.atom(s))
            extra = self.l([
                self.n(c['geometry']['uid']), self.l([self.n(self.cls(k)) for k in c['bind_shape_matrix']]),
                src(c['joint_source']), src(c['joint_matrix_source']), src(c['weight_source']), src(c['weight_joint_source']),
                self.l([self.l([self.tok(nm), self.l([self.n(self.cls(k)) for k in m])]) for nm, m in c['joint_matrices']]),
                self.l([self.n(self.cls(k)) for k in c['weights']]), self.l([self.tok(t) for t in c['weight_joints']]),
                self.l([self.z(v) for v in c['vcounts']]), self.l([self.n(v) for v in c['offsets']]),
                self.l([self.l([self.z(v) for v in r]) for r in c['joint_index']]),
                self.l([self.l([self.z(v) for v in r]) for r in c['weight_index']])])
        else:
            extra = self.l([self.n(c['source_geometry']['uid']),
                            self.l([self.l([self.n(g['uid']), self.n(self.cls(w))]) for g, w in c['targets']])])
        return self.l([self.n(c['uid']), self.aval(c['id']), self.n(self.atom('skin' if skin else 'morph')),
                       self.sdict(c['sources']) if skin else 'Vnone', extra])

    def anim_tree(self, a):
        return self.l([self.n(a['uid']), self.aval_req(a['id']), self.aval_req(a['name']),
                       self.l([self.anim_tree(c) for c in a['children']])])

    def doc(self, s, xml_root=None):
        return self.l([
            self.asset(s.get('asset'), xml_root),
            self.l([self.image(i) for i in s['images']]),
            self.l([self.effect(e) for e in s['effects']]),
            self.l([self.l([self.n(m['uid']), self.aval(m['id']), self.aval(m['name']), self.n(m['effect']['uid'])])
                    for m in s['materials']]),
            self.l([self.l([self.anim_tree(a), self.sdict(a['sources'])]) for a in s['animations']]),
            self.l([self.geometry(g) for g in s['geometries']]),
            self.l([self.controller(c) for c in s['controllers']]),
            self.l([self.light(x) for x in s['lights']]),
            self.l([self.camera(x) for x in s['cameras']]),
            self.l([self.node(x) for x in s['nodes']]),
            self.l([self.l([self.n(x['uid']), self.aval(x['id']), self.l([self.node(y) for y in x['nodes']])]) for x in s['scenes']]),
            'Vnone' if s['scene'] is None else self.n(s['scene']['uid'])])


def new_enc():
    """an encoder whose first three dynamic atoms are the element names float2, float3, float4 (Model/LoadDoc.v
    a_float2.. rely on this: the names are not in the shared vocabulary)"""
    enc = xml2coq.Enc()
    for name in ('float2', 'float3', 'float4'):
        enc.I.atom(name)
    return enc


def coq_case(xml_bytes, snap, dom=False):
    """-> (term, interning table) ; the term has type C05.case.  dom: add the minidom reading of the same bytes"""
    term, enc = xml2coq.encode_bytes(xml_bytes, new_enc())
    second = 'None'
    if dom:
        enc.uid = 0
        second = '(Some %s)' % xml2coq.encode_bytes(xml_bytes, enc, reader='dom')[0]
    ve = VEnc(enc)
    import xml.etree.ElementTree as ET
    view = ve.doc(snap, ET.fromstring(xml_bytes))
    numtab = ve.numtab()       # after the view: every token of the document is in enc.nums already
    return '([%s], %s, %s, %s)' % ('; '.join('%d' % c for c in numtab), term, second, view), enc.I.table()


# --------------------------------------------------------------------------- running the implementation

def run_docs(docs, timeout=240, chunk=60):
    """docs: [{'xml': text, 'ignore': bool}] -> one result per doc (a crashed / hung worker is bisected)"""
    chunks = [docs[i:i + chunk] for i in range(0, len(docs), chunk)]

    def one(ch):
        return core.run_cases_bisect('c05', ch, lambda cs: {'docs': cs},
                                     lambda c, reason: {'crashed': reason}, timeout=timeout)
    with ThreadPoolExecutor(max_workers=core.NCPU) as ex:
        outs = list(ex.map(one, chunks))
    return [r for out in outs for r in out]


def oracle(case, res):
    """direct evaluation of the property on one document: the loaded values vs the generator's description"""
    if 'snap' not in res:
        what = res.get('raised') or ('crash-or-hang' if 'crashed' in res else res.get('snapshot_error', 'no snapshot'))
        return [{'signature': 'C05:load-failed:%s' % what, 'clause': 'load-failed',
                 'what': 'a well-formed generated document does not load: %s %s' % (what, res.get('msg', res.get('crashed', ''))[:160]),
                 'input': case, 'detail': {k: v for k, v in res.items() if k != 'snap'}}]
    diffs = expect.compare(case['expected'] if 'expected' in case else expect.expected(case['desc']), res['snap'])
    out = []
    seen = set()
    if res.get('reload_differs') and not diffs:
        diffs = [('/reload', 'the same snapshot as the first load of these bytes', 'a different one')]
    for path, want, got in diffs:
        clause = expect.clause_of(path)
        if clause in seen:
            continue
        seen.add(clause)
        out.append({'signature': 'C05:%s' % clause, 'clause': clause,
                    'what': 'loaded value at %s is %s, the file says %s' % (path, json.dumps(got, default=str)[:120],
                                                                          json.dumps(want, default=str)[:120]),
                    'input': {'xml': case['xml'], 'desc': case.get('desc'), 'file': case.get('file')},
                    'detail': [[p, w, g] for p, w, g in diffs[:6]]})
    return out


def gen_cases(rng, n, sizes=(0, 0, 1, 1, 1, 2), **opts):
    cases = []
    for _ in range(n):
        # the root namespace is the 1.4.1 URI, the 1.5 URI or some other one: what the file says does not depend on it
        r = rng.random()
        ns = xmldocs.NS_141 if r < 0.55 else (xmldocs.NS_15 if r < 0.8 else
                                              rng.choice(['urn:x-verif:c05:%d', 'http://example.org/schemas/COLLADA/%d', 'a%d']) % rng.randint(0, 999))
        x, d = xmldocs.gen_document(rng, rng.choice(sizes), ns=ns, **opts)
        cases.append({'xml': x.decode('utf-8'), 'desc': d})
    return cases


DATA = os.path.join(core.REPO, 'collada', 'tests', 'data')
SHIPPED = ['duck_triangles.dae', 'duck_polylist.dae', 'empty_triangles.dae', 'empty_triangles_with_multiple_ns.dae',
           'trifans.dae', 'tristrips.dae', 'wam.dae']


def shipped_cases():
    try:
        from harness.gen import readxml
    except ImportError:
        return []
    out = []
    for fn in SHIPPED:
        p = os.path.join(DATA, fn)
        if not os.path.exists(p):
            continue
        data = open(p, 'rb').read()
        try:
            pat = readxml.expected_from_xml(data)
        except Exception as e:  # noqa
            pat = None
        out.append({'xml': data.decode('utf-8', 'replace'), 'file': fn, 'expected': pat})
    return out


def feature_counts(cases):
    c = {}

    def inc(k, n=1):
        c[k] = c.get(k, 0) + n
    for cs in cases:
        d = cs.get('desc')
        if not d:
            continue
        for g in d['geometries']:
            vs = [s for s, _ in g['vertices']['inputs']]
            for s in vs:
                if s != 'POSITION':
                    inc('vertices-level ' + s)
            for s in g['sources']:
                if s['params'] == ['U', 'V']:
                    inc('source U,V')
                if s['params'] == ['S', 'T', 'P']:
                    inc('source S,T,P')
                if any(t.lower().lstrip('+-') == 'nan' for t in s['tokens']):
                    inc('source with NaN')
                if any(t.lower().lstrip('+-') in ('inf', 'infinity') for t in s['tokens']):
                    inc('source with an infinity')
            for p in g['prims']:
                inc('prim ' + p['tag'])
                offs = [i[0] for i in p['inputs']]
                if len(set(offs)) < len(offs):
                    inc('shared offsets')
                if set(offs) != set(range(max(offs) + 1)):
                    inc('gapped offsets')
                if sum(1 for i in p['inputs'] if i[1] == 'TEXCOORD') > 1:
                    inc('several texcoord sets')
                if len(p['ps']) > 1:
                    inc('several <p>')
                if not any(p['ps']):
                    inc('empty primitive')
        for k in ('lights', 'cameras', 'effects', 'images', 'materials', 'controllers', 'animations', 'nodes', 'scenes'):
            inc(k, len(d[k]))
        def special(t):
            return t.lower().lstrip('+-') in ('nan', 'inf', 'infinity') or t in ('1e39', '-1e39', '1e-46', '-1e-45', '1e-40')
        for cam in d['cameras']:
            inc('camera with %d parameters' % len(cam['params']))
            if any(special(t) for _n, t in cam['params']) or special(cam['znear']) or special(cam['zfar']):
                inc('camera parameter NaN/INF/denormal/out of range')
        for L in d['lights']:
            if any(special(t) for t in L['color']) or any(special(t) for _n, t in L['params']):
                inc('light parameter NaN/INF/denormal/out of range')
        for e in d['effects']:
            if any(v[0] == 'color' and any(special(t) for t in v[1]) or v[0] == 'float' and special(v[1]) for _n, v in e['props']):
                inc('effect parameter NaN/INF/denormal/out of range')
        for L in d['lights']:
            inc('light ' + L['kind'])

        def walk(n):
            for it in n['items']:
                if it['t'] == 'transform':
                    inc('transform ' + it['kind'])
                    if any(special(t) for t in it['tokens']):
                        inc('transform parameter NaN/INF/denormal/out of range')
                elif it['t'] == 'node':
                    inc('nested node')
                    walk(it['node'])
                elif it['t'] == 'instance_node':
                    inc('instance_node')
                elif it['t'] in ('geometry', 'controller') and any(m['binds'] for m in it['materials']):
                    inc('bind_vertex_input')
            gi = [(it['url'], tuple(sorted(m['symbol'] for m in it['materials']))) for it in n['items'] if it['t'] == 'geometry' and it['materials']]
            if len(set(gi)) < len(gi):
                inc('same geometry twice in one node with the same symbols')
        for n in d['nodes']:
            walk(n)
            if expect.inst_refs(n):
                inc('library node with instance_node')
        ids = [n['id'] for n in d['nodes']]
        if any(r in ids[k + 1:] for k, n in enumerate(d['nodes']) for r in expect.inst_refs(n)):
            inc('library node instantiating a later library node (deferred load)')
        for s in d['scenes']:
            ids = [n['id'] for n in s['nodes']]
            for k, n in enumerate(s['nodes']):
                walk(n)
                if any(r in ids[k + 1:] for r in expect.inst_refs(n)):
                    inc('scene node instantiating a later top-level node')
        if d.get('ns') != xmldocs.NS_141:
            inc('root namespace other than the 1.4.1 URI')
        if d.get('root_version') != '1.4.1':
            inc('root version attribute absent or unusual')
        tops = [a for a in d['animations'] if a['sources']]
        if len(tops) >= 2:
            inc('two or more top-level animations with sources')
            ids = [tuple(x['id'] for x in a['sources']) for a in tops]
            if len(set(ids)) < len(ids):
                inc('sibling animations declaring the same source ids')
        if d.get('repair_paths'):
            inc('effect whose <texture> names an image directly (loader repair path)')
        for k in d.get('split_libraries', []):
            inc('library written as two elements')
        if d.get('foreign'):
            inc('foreign-namespace extras')
        if d.get('prefixed'):
            inc('prefixed namespace')
    return c


def run(ctx):
    build_ok, obl, regen = core.std_setup(ctx)
    quick = ctx.quick()
    ncoq = 230 if quick else 3000
    nextra = 400 if quick else 12000
    cases = corpus_cases()
    ncorpus = len(cases)
    cases += gen_cases(ctx.rng, ncoq)
    ncoq_total = len(cases)
    cases += gen_cases(ctx.rng, nextra, sizes=(0, 1, 1, 2, 2), controllers=None, animations=None)
    # one document whose positions source has more than 2**16 elements (direct oracle only)
    cases += gen_cases(ctx.rng, 1, sizes=(1,), big=66000, controllers=False, animations=False)
    # and one whose largest index lies between 2**15 and 2**16
    cases += gen_cases(ctx.rng, 1, sizes=(1,), big=40000, controllers=False, animations=False)
    shipped = shipped_cases()
    ctx.log('loading %d generated documents and %d shipped files with the implementation' % (len(cases), len(shipped)))
    results = run_docs([{'xml': c['xml']} for c in cases + shipped])
    failures = []
    for c, r in zip(cases + shipped, results):
        if c.get('file') and c.get('expected') is None and 'snap' in r:
            continue
        failures.extend(oracle(c, r))
    # three-way correspondence inside Coq: the first ncoq_total generated documents and the small shipped files
    allc = cases + shipped
    coq_ids = list(range(ncoq_total)) + [len(cases) + k for k, c in enumerate(shipped) if len(c['xml']) < 8000]
    terms, idx, tables, encode_errors = [], [], [], []
    for i in coq_ids:
        if 'snap' not in results[i]:
            continue
        try:
            t, table = coq_case(allc[i]['xml'].encode('utf-8'), results[i]['snap'], dom=(len(terms) % 4 == 0))
        except Exception as e:  # noqa  (a snapshot the encoder cannot express: the direct oracle judges it)
            encode_errors.append({'case_index': i, 'error': 'snapshot not encodable as a Coq view: %r' % (e,)})
            continue
        terms.append(t)
        idx.append(i)
        tables.append(table)
    ctx.log('evaluating load_doc and read_doc on %d documents inside Coq' % len(terms))
    bad, errors = core.coq_eval_cases(ctx, HEADER, CASE_TYPE, terms, 'C05.mismatches', chunk=22, timeout=900)
    mismatches = []
    for j in bad[:10]:
        i = idx[j]
        diag = core.coq_eval_term(ctx, HEADER, 'C05.diagnose %s' % terms[j])
        own = oracle(allc[i], results[i]) if (allc[i].get('desc') or allc[i].get('expected')) else []
        mismatches.append({'case_index': i, 'input': {'xml': allc[i]['xml'], 'desc': allc[i].get('desc'), 'file': allc[i].get('file')},
                           'diagnose(model code, model path, spec code, spec path)': diag[-400:],
                           'interning': tables[j], 'explained_by_known': False, 'direct_oracle': [f['signature'] for f in own]})
    seen = set()
    for c in cases:
        d = c['desc']
        if d['geometries'] or d['nodes'] or d['scenes']:
            seen.add(core.canon_hash(c['xml']))
    corr = {
        'evaluations': len(terms),
        'distinct_nontrivial': len({core.canon_hash(allc[i]['xml']) for i in idx
                                    if allc[i].get('file') or allc[i]['desc']['geometries'] or allc[i]['desc']['scenes']}),
        'rule': 'documents from the independent generator (harness/gen/xmldocs.py); non-trivial = at least one geometry or '
                'visual scene; distinct = different XML text; every one is loaded by pycollada, the snapshot is compared '
                'inside Coq with load_doc and read_doc evaluated on the xml.etree reading of the same bytes; the direct '
                'oracle (snapshot vs the generator\'s description) additionally runs on %d more documents and on the '
                'shipped files (vs an independent etree reading)' % nextra,
        'samples': [{'xml': allc[i]['xml'][:1500]} for i in idx[ncorpus:ncorpus + 2]],
        'distribution': {'features': feature_counts(cases), 'direct_oracle_documents': len(cases),
                         'shipped_files': [c['file'] for c in shipped],
                         'shipped_files_in_coq_correspondence': [allc[i]['file'] for i in idx if allc[i].get('file')],
                         'corpus_cases': ncorpus,
                         'documents_that_failed_to_load': sum(1 for r in results if 'snap' not in r)},
        'mismatches': mismatches,
        'errors': errors + encode_errors[:3],
    }

    def search(mm):
        extra = gen_cases(ctx.rng, 1500, sizes=(0, 1, 1, 2))
        res = run_docs([{'xml': c['xml']} for c in extra])
        out = []
        for c, r in zip(extra, res):
            out.extend(oracle(c, r))
        return out

    return core.finish(
        ctx, obligations=obl, regen=regen, build_ok=build_ok, corr=corr, failures=dedupe(failures), search=search,
        trusted_base=core.BASE_TRUST + [
            'hand-written models Model/LoadPrim.v and Model/LoadDoc.v of the loaders, tied to the code by the three-way '
            'correspondence on every run; Model/Namespace.v (erase: the loader sees tags only through the document\'s tag function)',
            'harness/enc/xml2coq.py (independent xml.etree reading, tokeniser), harness/props/c05.py VEnc (snapshot -> Coq view), '
            'harness/impl/c05.py (canonical walk of the loaded object)',
            'numbers: float32(float(token)) computed by the harness with numpy, entered in Coq as equality classes',
        ],
        assumptions=[
            'modelled, not verified (direct oracle only): effect internals (newparam, maps, shader parameters, opaque mode, '
            'double_sided), images, asset/contributor values, skin/morph bookkeeping beyond the sources, animation values',
            'the model is of a load with an empty error mask; raw exceptions on damaged input are C08\'s',
            'ids are plain names (not numeric, not starting with #); unnamed <param> elements are outside the generated subset',
        ])


def dedupe(fs):
    out, seen = [], set()
    for f in fs:
        if f['signature'] not in seen:
            seen.add(f['signature'])
            out.append(f)
    return out


def corpus_cases():
    d = os.path.join(core.VERIF, 'corpus', 'C05')
    out = []
    if os.path.isdir(d):
        for fn in sorted(os.listdir(d)):
            if fn.endswith('.json'):
                out.append(json.load(open(os.path.join(d, fn))))
    return out


def replay(ctx, body):
    inp = body.get('input') or (body.get('mismatching_cases') or [{}])[0].get('input')
    if not inp:
        print('replay: nothing to re-execute in this file (%s)' % body.get('kind'))
        return 1
    case = dict(inp)
    if case.get('file') and not case.get('desc'):
        from harness.gen import readxml
        case['expected'] = readxml.expected_from_xml(case['xml'].encode('utf-8'))
    r = run_docs([{'xml': case['xml']}])[0]
    fails = oracle(case, r) if (case.get('desc') or case.get('expected')) else []
    print(json.dumps([{k: f[k] for k in ('signature', 'what')} for f in fails], indent=1))
    rc = 0
    if 'snap' in r:
        t, _ = coq_case(case['xml'].encode('utf-8'), r['snap'])
        out = core.coq_eval_term(ctx, HEADER, 'C05.case_ok %s' % t)
        ok = re.search(r'=\s*true', out) is not None
        print('three-way correspondence on this document: %s' % ('agrees' if ok else 'DIFFERS ' + core.coq_eval_term(ctx, HEADER, 'C05.diagnose %s' % t)[-300:]))
        if not ok and body.get('kind') == 'no-failing-input-found':
            rc = 1
    if fails:
        rc = 1
    if rc:
        print('VIOLATION property=C05 replay=%s' % body.get('replay_cmd', '').split()[-1])
    else:
        print('replay: the loaded model says what the file says on this document now')
    return rc
