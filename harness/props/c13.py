"""C13 - transforms have their mathematical meaning and compose in document order."""
import json
import math
import os

from harness import core
from harness.core import cZ, clist, ctuple

HEADER = ('From Coq Require Import List ZArith.\n'
          'From PC Require Import Base.Py Base.Mat Gen.Transforms Model.Transforms Check.C13.\n'
          'Import ListNotations.\n')
CASE_TYPE = 'C13.case'
TAGS = {'translate': 0, 'rotate': 1, 'scale': 2, 'matrix': 3, 'lookat': 4}
LIMIT = 2 ** 21   # products stay exactly representable in float32
ROT_LIMIT = 2 ** 13


# ------------------------------------------------------------------ integer-exact generators

def unit_axis(rng):
    v = [0, 0, 0]
    v[rng.randrange(3)] = rng.choice([1, -1])
    return v


def gen_int_transform(rng):
    k = rng.choices(['translate', 'rotate', 'scale', 'matrix', 'lookat'], [3, 4, 2, 3, 2])[0]
    if k == 'translate':
        return [k] + [rng.randint(-9, 9) for _ in range(3)]
    if k == 'scale':
        return [k] + [rng.choice([-2, -1, 1, 2, 3]) for _ in range(3)]
    if k == 'rotate':
        return [k] + unit_axis(rng) + [90 * rng.randint(-4, 4)]
    if k == 'matrix':
        r = rng.random()
        if r < 0.3:
            return [k, structured_matrix(rng, lambda: rng.randint(-2, 2))]
        r = rng.random()
        if r < 0.5:      # affine with small entries
            m = [rng.randint(-2, 2) for _ in range(12)] + [0, 0, 0, 1]
        elif r < 0.8:    # arbitrary sixteen numbers (projective row included)
            m = [rng.randint(-2, 2) for _ in range(16)]
        else:            # asymmetric permutation-like
            m = [0] * 16
            p = [0, 1, 2, 3]
            rng.shuffle(p)
            for i in range(4):
                m[4 * i + p[i]] = rng.choice([1, -1, 2])
        return [k, m]
    # lookat with integer result: eye - interest along an axis, up with one unit-length
    # component across it (plus any component along it)
    ax = rng.randrange(3)
    eye = [rng.randint(-5, 5) for _ in range(3)]
    d = rng.choice([-7, -2, -1, 1, 3, 10])
    interest = list(eye)
    interest[ax] = eye[ax] - d          # eye - interest = d * e_ax
    up = [0, 0, 0]
    other = [i for i in range(3) if i != ax]
    up[rng.choice(other)] = rng.choice([1, -1, 2, -3])
    up[ax] = rng.randint(-2, 2)
    return [k, eye, interest, up]


def structured_matrix(rng, val):
    """sixteen numbers with structure a reader might key on: the transpose of an affine matrix (last column
    0 0 0 1, translation in the bottom row), projective bottom rows, zero and repeated rows, signed
    permutations, rank one, diagonal, w-scaled affine"""
    aff = [val() for _ in range(12)] + [0, 0, 0, 1]
    kind = rng.randrange(8)
    if kind == 0:        # transpose of an affine matrix
        return [aff[4 * j + i] for i in range(4) for j in range(4)]
    if kind == 1:        # identity block, last column 0 0 0 1, translation written in the bottom row
        return [1, 0, 0, 0, 0, 1, 0, 0, 0, 0, 1, 0, val(), val(), val(), 1]
    if kind == 2:        # projective bottom row over an affine top
        return aff[:12] + [val(), val(), val(), rng.choice([1, 1, 2, 0, -1])]
    if kind == 3:        # a zero row or a repeated row
        m = [val() for _ in range(16)]
        i, j = rng.randrange(4), rng.randrange(4)
        m[4 * i:4 * i + 4] = [0, 0, 0, 0] if rng.random() < 0.5 or i == j else m[4 * j:4 * j + 4]
        return m
    if kind == 4:        # signed permutation of all four coordinates
        p = [0, 1, 2, 3]
        rng.shuffle(p)
        m = [0] * 16
        for i in range(4):
            m[4 * i + p[i]] = rng.choice([1, -1])
        return m
    if kind == 5:        # rank one
        a, b = [val() for _ in range(4)], [val() for _ in range(4)]
        return [x * y for x in a for y in b]
    if kind == 6:        # diagonal, w scaled
        return [val(), 0, 0, 0, 0, val(), 0, 0, 0, 0, val(), 0, 0, 0, 0, rng.choice([1, 2, -1, 0])]
    return aff[:12] + [0, 0, 0, rng.choice([2, -1, 0])]      # affine top, w scaled


def norm_bound(tr):
    """an upper bound of the infinity norm of the transform's matrix"""
    k = tr[0]
    if k == 'translate':
        return 1 + max(abs(v) for v in tr[1:4])
    if k == 'scale':
        return max(1, max(abs(v) for v in tr[1:4]))
    if k == 'rotate':
        return 1
    if k == 'matrix':
        return max(1, max(sum(abs(v) for v in tr[1][4 * i:4 * i + 4]) for i in range(4)))
    return 2 + max(abs(v) for v in tr[3]) + max(abs(v) for v in tr[1])


def gen_edit(rng, n, gen_t):
    k = rng.choices(['append', 'insert', 'delete', 'replace', 'reverse', 'clear'], [3, 4, 3, 3, 1, 1])[0]
    if k == 'append':
        return [k, gen_t(rng)]
    if k == 'insert':
        return [k, rng.randint(-n - 2, n + 2), gen_t(rng)]
    if k == 'delete':
        return [k, rng.randint(-n - 1, n)]
    if k == 'replace':
        return [k, rng.randint(-n - 1, n), gen_t(rng)]
    return [k]


def gen_case(rng, gen_t, exact):
    n = rng.choice([0, 1, 1, 2, 2, 3, 4, 5])
    init = [gen_t(rng) for _ in range(n)]
    edits = []
    m = n
    if rng.random() < 0.6:
        for _ in range(rng.randint(1, 4)):
            e = gen_edit(rng, m, gen_t)
            edits.append(e)
            m = m + 1 if e[0] in ('append', 'insert') else max(0, m - 1) if e[0] == 'delete' else 0 if e[0] == 'clear' else m
    edits2 = []
    if rng.random() < 0.35:
        m2 = max(0, m if edits else n)
        for _ in range(rng.randint(1, 3)):
            e = gen_edit(rng, m2, gen_t)
            edits2.append(e)
            m2 = m2 + 1 if e[0] in ('append', 'insert') else max(0, m2 - 1) if e[0] == 'delete' else 0 if e[0] == 'clear' else m2
    case = {'mode': rng.choice(['C', 'L']), 'init': init, 'edits': edits, 'edits2': edits2, 'form': rng.randrange(90),
            'save_via': rng.choice(['node', 'doc']), 'nest': rng.choice([0, 0, 1, 2]), 'exact': exact,
            # a save that fails inside a child of the node (then repaired and repeated), in round 1 or 2
            'fault': rng.choice([0, 0, 0, 1, 2]),
            # the caller edits through a list reference it kept, instead of asking node.transforms each time
            'held': rng.random() < 0.35,
            # (constructed) how the node is made: all arguments / transforms omitted and listed in place / everything omitted
            'made': rng.choice([0, 1, 2]),
            # (loaded) a forward instance_node below the node: 1 in its child node, 2 directly in it
            'fwd': rng.choice([0, 0, 1, 2])}
    return case


def within_limit(case):
    """integer products stay exact in float32 (< 2^21); a rotation by a multiple of 90 degrees leaves a
    residue of up to 4e-7 per factor (float32 angle, float32 storage), which the other factors amplify:
    with rotations present the bound is 2^13, so the accumulated error stays below the worker's 0.05"""
    b = 1
    rot = False
    ts = list(case['init']) + [e[-1] for e in case['edits'] + case.get('edits2', []) if e[0] in ('append', 'insert', 'replace')]
    for t in ts:
        b *= norm_bound(t)
        rot = rot or t[0] == 'rotate'
    return b < (ROT_LIMIT if rot else LIMIT)


# ------------------------------------------------------------------ float generators (direct oracle only)

def rnd_mag(rng):
    r = rng.random()
    if r < 0.1:
        return 0.0
    if r < 0.2:
        return float(rng.choice([1, -1, 2, 0.5, -0.5]))     # values a special case might key on
    if r < 0.75:
        return rng.uniform(-10, 10)
    return rng.choice([-1, 1]) * 10 ** rng.uniform(-12, 12)


def gen_float_transform(rng, tame=False):
    k = rng.choices(['translate', 'rotate', 'scale', 'matrix', 'lookat'], [2, 5, 2, 2, 3])[0]
    val = (lambda: rng.choice([0.0, 1.0, -1.0]) if rng.random() < 0.12 else rng.uniform(-10, 10)) if tame else (lambda: rnd_mag(rng))
    if k == 'translate':
        return [k] + [val() for _ in range(3)]
    if k == 'scale':
        if rng.random() < 0.15:
            v = val()
            return [k, v, v, v]             # uniform scale
        return [k] + [val() for _ in range(3)]
    if k == 'rotate':
        while True:
            v = [rng.gauss(0, 1) for _ in range(3)]
            n = math.sqrt(sum(x * x for x in v))
            if n > 1e-3:
                break
        if rng.random() < 0.15:
            v = [0.0, 0.0, 0.0]
            v[rng.randrange(3)] = rng.choice([1.0, -1.0])
            n = 1.0
        if rng.random() < 0.1:
            # an axis in a coordinate plane, or with two equal components
            v = rng.choice([[1.0, 1.0, 0.0], [0.0, -1.0, 1.0], [1.0, 0.0, -1.0], [1.0, 1.0, 1.0], [-1.0, -1.0, -1.0]])
            n = math.sqrt(sum(x * x for x in v))
        ang = rng.choice([rng.uniform(-720, 720), rng.uniform(-180, 180),
                          float(rng.choice([30, 45, 60, 90, 120, 180, 270, -90, -30, -180, 0, 360, 1e-3]))])
        return [k] + [x / n for x in v] + [ang]
    if k == 'matrix':
        if rng.random() < 0.4:
            return [k, [float(x) for x in structured_matrix(rng, val)]]
        return [k, [val() for _ in range(16)]]
    while True:
        # every scale: the distance between eye and interest and the length of up range over twenty decades
        # (eye stays within a few such distances of the origin, so the difference survives single precision)
        dist = 10 ** rng.uniform(-10, 8) if rng.random() < (0.25 if tame else 0.5) else rng.uniform(0.5, 20)
        ulen = 10 ** rng.uniform(-10, 8) if (not tame and rng.random() < 0.5) else rng.uniform(0.3, 2)
        dirv = [rng.gauss(0, 1) for _ in range(3)]
        nd = math.sqrt(sum(x * x for x in dirv))
        upv = [rng.gauss(0, 1) for _ in range(3)]
        nu = math.sqrt(sum(x * x for x in upv))
        if nd < 1e-3 or nu < 1e-3:
            continue
        f = [x / nd for x in dirv]
        u = [x / nu for x in upv]
        cr = [f[1] * u[2] - f[2] * u[1], f[2] * u[0] - f[0] * u[2], f[0] * u[1] - f[1] * u[0]]
        if math.sqrt(sum(x * x for x in cr)) < 0.2:
            continue          # up (nearly) parallel to the viewing direction: degenerate
        r = rng.random()
        if r < 0.1:
            eye = [0.0, 0.0, 0.0]
        else:
            eye = [rng.uniform(-3, 3) * dist for _ in range(3)]
        interest = [e - dist * x for e, x in zip(eye, f)]
        if r > 0.9:
            # interest at the origin
            eye = [dist * x for x in f]
            interest = [0.0, 0.0, 0.0]
        up = [ulen * x for x in u]
        if 0.1 <= r < 0.2:
            ax = [0.0, 0.0, 0.0]
            ax[rng.randrange(3)] = rng.choice([1.0, -1.0])       # an axis as up vector
            cr = [f[1] * ax[2] - f[2] * ax[1], f[2] * ax[0] - f[0] * ax[2], f[0] * ax[1] - f[1] * ax[0]]
            if math.sqrt(sum(x * x for x in cr)) >= 0.2:
                up = ax
        return [k, eye, interest, up]


def near_identity(rng):
    """a transform within 1e-9 .. 1e-5 of the identity"""
    e = rng.choice([-1, 1]) * 10 ** rng.uniform(-9, -5)
    k = rng.randrange(4)
    if k == 0:
        return ['scale', 1.0 + e, 1.0 + (e if rng.random() < 0.5 else 0.0), 1.0]
    if k == 1:
        v = [0.0, 0.0, 0.0]
        v[rng.randrange(3)] = e
        return ['translate'] + v
    if k == 2:
        ax = [0.0, 0.0, 0.0]
        ax[rng.randrange(3)] = rng.choice([1.0, -1.0])
        return ['rotate'] + ax + [e * 100]
    m = [1.0, 0, 0, 0, 0, 1.0, 0, 0, 0, 0, 1.0, 0, 0, 0, 0, 1.0]
    m[rng.randrange(12)] += e
    return ['matrix', [float(x) for x in m]]


def extreme_partner(rng):
    big = rng.choice([-1, 1]) * 10 ** (rng.uniform(5, 9) if rng.random() < 0.7 else rng.uniform(-9, -5))
    if rng.random() < 0.5:
        return ['scale', big, big if rng.random() < 0.5 else 1.0, rng.choice([1.0, big])]
    v = [0.0, 0.0, 0.0]
    v[rng.randrange(3)] = big
    return ['translate'] + v


def far_lookat(rng):
    """a camera far from the origin compared with its distance to the interest point (georeferenced coordinates):
    only double precision resolves eye - interest"""
    while True:
        dist = 10 ** rng.uniform(-1, 2)
        far = dist * 10 ** rng.uniform(5, 9)
        f = [rng.gauss(0, 1) for _ in range(3)]
        n = math.sqrt(sum(x * x for x in f))
        u = [rng.gauss(0, 1) for _ in range(3)]
        nu = math.sqrt(sum(x * x for x in u))
        if n < 1e-3 or nu < 1e-3:
            continue
        f = [x / n for x in f]
        u = [x / nu for x in u]
        cr = [f[1] * u[2] - f[2] * u[1], f[2] * u[0] - f[0] * u[2], f[0] * u[1] - f[1] * u[0]]
        if math.sqrt(sum(x * x for x in cr)) < 0.3:
            continue
        eye = [rng.choice([-1, 1]) * far * rng.uniform(0.2, 1) if rng.random() < 0.7 else rng.uniform(-10, 10) for _ in range(3)]
        if max(abs(x) for x in eye) < far * 0.1:
            eye[rng.randrange(3)] = far
        interest = [e - dist * x for e, x in zip(eye, f)]
        return ['lookat', eye, interest, u]


def gen_float_case(rng):
    if rng.random() < 0.04:
        # constructed only, double-precision arguments (lists or float64 arrays)
        return {'mode': 'C', 'init': [far_lookat(rng)], 'edits': [], 'edits2': [], 'form': rng.choice([0, 1, 3, 4]),
                'save_via': rng.choice(['node', 'doc']), 'nest': rng.choice([0, 1, 2]), 'exact': False, 'fault': 0,
                'made': rng.choice([0, 1, 2]), 'far': True}
    if rng.random() < 0.08:
        # near-identity transforms composed with huge / tiny partners: nothing may be rounded away as "identity"
        ts = [near_identity(rng), extreme_partner(rng)]
        if rng.random() < 0.5:
            ts.reverse()
        if rng.random() < 0.4:
            ts.insert(rng.randrange(3), rng.choice([near_identity(rng), extreme_partner(rng)]))
        return {'mode': rng.choice(['C', 'L']), 'init': ts, 'edits': [], 'edits2': [], 'form': rng.randrange(90),
                'save_via': rng.choice(['node', 'doc']), 'nest': rng.choice([0, 1, 2]), 'exact': False, 'fault': 0}
    if rng.random() < 0.03:
        # a long stack of rotations and small translations
        ts = []
        for _ in range(rng.randint(12, 40)):
            t = gen_float_transform(rng, tame=True)
            while t[0] not in ('rotate', 'translate'):
                t = gen_float_transform(rng, tame=True)
            if t[0] == 'translate':
                t = [t[0]] + [x / 10.0 for x in t[1:]]
            ts.append(t)
        return {'mode': rng.choice(['C', 'L']), 'init': ts, 'edits': [], 'edits2': [], 'form': rng.randrange(90),
                'save_via': rng.choice(['node', 'doc']), 'nest': rng.choice([0, 1, 2]), 'exact': False}
    if rng.random() < 0.4:
        # one transform alone, wide magnitudes
        t = gen_float_transform(rng)
        return {'mode': rng.choice(['C', 'L']), 'init': [t], 'edits': [], 'edits2': [], 'form': rng.randrange(90),
                'save_via': 'node', 'nest': 0, 'exact': False, 'fault': 0}
    return gen_case(rng, lambda r: gen_float_transform(r, tame=True), False)


# ------------------------------------------------------------------ encoding

def c_vec(v):
    return ctuple(*[cZ(x) for x in v])


def c_transform(tr, loaded):
    k = tr[0]
    if loaded:
        if k == 'matrix':
            fl = tr[1]
        elif k == 'lookat':
            fl = tr[1] + tr[2] + tr[3]
        else:
            fl = tr[1:]
        return '(TLoaded %d %s)' % (TAGS[k], clist([cZ(x) for x in fl]))
    if k == 'translate':
        return '(TTranslate %s %s %s)' % tuple(cZ(x) for x in tr[1:4])
    if k == 'scale':
        return '(TScale %s %s %s)' % tuple(cZ(x) for x in tr[1:4])
    if k == 'rotate':
        return '(TRotate %s %s %s %s)' % tuple(cZ(x) for x in tr[1:5])
    if k == 'matrix':
        return '(TMatrix %s)' % clist([cZ(x) for x in tr[1]])
    return '(TLookAt %s %s %s)' % (c_vec(tr[1]), c_vec(tr[2]), c_vec(tr[3]))


def c_edit(e):
    k = e[0]
    if k == 'append':
        return '(EAppend %s)' % c_transform(e[1], False)
    if k == 'insert':
        return '(EInsert %s %s)' % (cZ(e[1]), c_transform(e[2], False))
    if k == 'delete':
        return '(EDelete %s)' % cZ(e[1])
    if k == 'replace':
        return '(EReplace %s %s)' % (cZ(e[1]), c_transform(e[2], False))
    if k == 'reverse':
        return 'EReverse'
    return 'EClear'


def c_case(case, obs):
    zl = lambda l: clist([cZ(x) for x in l])
    return ctuple(clist([c_transform(t, case['mode'] == 'L') for t in case['init']]),
                  clist([c_edit(e) for e in case['edits']]), clist([c_edit(e) for e in case.get('edits2', [])]),
                  zl(obs['init']), clist([zl(m) for m in obs['mats']]), zl(obs['saved']),
                  clist([zl(m) for m in obs['mats2']]), zl(obs['saved2']), zl(obs['reloaded']))


# ------------------------------------------------------------------ running

def crashed(case, reason):
    return {'obs': None, 'fails': [{'clause': 'crash-or-hang', 'site': 'loaded' if case['mode'] == 'L' else 'constructed',
                                    'detail': reason}]}


def run_cases(cases, timeout=120):
    out = []
    if len(cases) > 1:
        # pre-flight: if the very first case already kills or hangs the worker, do not bisect whole batches
        pre = core.run_cases_bisect('c13', cases[:1], lambda cs: {'cases': cs}, crashed, 40)
        if pre[0]['obs'] is None and pre[0]['fails'][0]['clause'] == 'crash-or-hang':
            return pre + [{'obs': None, 'fails': [{'clause': 'not-run', 'site': 'worker', 'detail': 'the first case already crashed or hung'}]} for c in cases[1:]]
    chunks = [cases[i:i + 500] for i in range(0, len(cases), 500)]
    from concurrent.futures import ThreadPoolExecutor
    with ThreadPoolExecutor(max_workers=core.NCPU) as ex:
        for res in ex.map(lambda ch: core.run_cases_bisect('c13', ch, lambda cs: {'cases': cs}, crashed, timeout), chunks):
            out.extend(res)
    return out


def failure_of(case, f):
    return {'signature': 'C13:%s:%s' % (f['clause'], f['site']), 'clause': f['clause'],
            'what': '%s (%s): %s' % (f['clause'], f['site'], f['detail'][:300]),
            'input': shrink(case, f), 'detail': f}


def shrink(case, f, rounds=8):
    """greedy: per round, try every single deletion of an edit or an initial transform in ONE
    worker call and keep the smallest candidate on which the same clause still fails"""
    cur = dict(case)
    for _ in range(rounds):
        cands = []
        for key in ('edits2', 'edits'):
            for i in range(len(cur.get(key, []))):
                c = dict(cur)
                c[key] = cur[key][:i] + cur[key][i + 1:]
                cands.append(c)
        if not any(e[0] in ('insert', 'delete', 'replace') for e in cur['edits'] + cur.get('edits2', [])):
            for i in range(len(cur['init'])):
                c = dict(cur)
                c['init'] = cur['init'][:i] + cur['init'][i + 1:]
                cands.append(c)
        if not cands:
            break
        try:
            res = run_cases(cands, timeout=120)
        except Exception:  # noqa
            break
        hit = [c for c, r in zip(cands, res) if any(x['clause'] == f['clause'] and x['site'] == f['site'] for x in r['fails'])]
        if not hit:
            break
        cur = min(hit, key=lambda c: len(json.dumps(c)))
    return cur


def first_failures(cases, results, limit=6):
    out, seen = [], set()
    for c, r in zip(cases, results):
        for f in r['fails']:
            if f['clause'] == 'not-run':
                continue
            sig = (f['clause'], f['site'])
            if sig in seen:
                continue
            seen.add(sig)
            out.append(failure_of(c, f))
            if len(out) >= limit:
                return out
    return out


def corpus_cases():
    d = os.path.join(core.VERIF, 'corpus', 'C13')
    out = []
    if os.path.isdir(d):
        for fn in sorted(os.listdir(d)):
            if fn.endswith('.json'):
                out.append(json.load(open(os.path.join(d, fn))))
    return out


def run(ctx):
    build_ok, obl, regen = core.std_setup(ctx)
    quick = ctx.quick()
    rng = ctx.rng
    exact = corpus_cases()
    n_exact = 2000 if quick else 12000
    rejected = 0
    while len(exact) < n_exact:
        c = gen_case(rng, gen_int_transform, True)
        if within_limit(c):
            exact.append(c)
        else:
            rejected += 1
    n_float = 5000 if quick else 100000
    floats = [gen_float_case(rng) for _ in range(n_float)]
    cases = exact + floats
    ctx.log('running %d integer-exact and %d float cases on the implementation' % (len(exact), len(floats)))
    results = run_cases(cases)
    failures = first_failures(cases, results)
    ex_cases = [(c, r) for c, r in zip(exact, results[:len(exact)]) if r['obs'] is not None]
    terms = [c_case(c, r['obs']) for c, r in ex_cases]
    ctx.log('evaluating the model on the %d integer-exact cases inside Coq' % len(terms))
    bad, errors = core.coq_eval_cases(ctx, HEADER, CASE_TYPE, terms, 'C13.mismatches', chunk=300)
    mismatches = [{'case_index': i, 'input': ex_cases[i][0], 'implementation_observed': ex_cases[i][1]['obs'],
                   'explained_by_known': False} for i in bad[:20]]
    # distribution
    kinds, modes, seen = {}, {}, set()
    nests = {}
    twice = 0
    faulted = 0
    heldn = 0
    fwdn = 0
    edited = 0
    for c in cases:
        for t in c['init']:
            kinds[t[0]] = kinds.get(t[0], 0) + 1
        modes[c['mode']] = modes.get(c['mode'], 0) + 1
        edited += 1 if c['edits'] else 0
        twice += 1 if c.get('edits2') else 0
        faulted += 1 if c.get('fault') else 0
        heldn += 1 if c.get('held') else 0
        fwdn += 1 if (c.get('fwd') and c['mode'] == 'L') else 0
        nests[str(c.get('nest', 0))] = nests.get(str(c.get('nest', 0)), 0) + 1
        if len(c['init']) + len(c['edits']) >= 2 or (c['init'] and c['init'][0][0] in ('rotate', 'lookat', 'matrix')):
            seen.add(core.canon_hash([c['mode'], c['init'], c['edits'], c.get('edits2')]))
    corr = {
        'evaluations': len(cases),
        'distinct_nontrivial': len(seen),
        'rule': 'integer-exact cases (translate/scale/matrix with small integers, rotations by multiples of 90 degrees about '
                '+-x/y/z, lookat with axis-aligned view and integer up; the node is a scene root, a child of one, or a '
                'library node instantiated in the scene) are compared with the Coq model: node.matrix as '
                'constructed or loaded from generated XML, every transform matrix after an edit history, node.matrix after '
                'save(), node.matrix after write + reload.  Float cases (random unit axes, angles in +-720 degrees, magnitudes '
                '1e-6..1e6, non-degenerate eye/interest/up, sequences up to 5 plus edits) go to the direct oracle with a '
                'float64 reference; lookat eye-interest distances and up lengths over 1e-10..1e8, translate/scale/matrix '
                'magnitudes over 1e-12..1e12.  non-trivial = at least two transforms/edits, or a single rotate/lookat/matrix; '
                'distinct = different (mode, transforms, edits)',
        'samples': [{'mode': c['mode'], 'init': c['init'], 'edits': c['edits'], 'observed': r['obs']}
                    for c, r in ex_cases[len(corpus_cases()):len(corpus_cases()) + 3]],
        'distribution': {'transforms_by_kind': kinds, 'constructed_vs_loaded': modes, 'cases_with_edit_history': edited, 'cases_with_a_failed_save_repaired_and_repeated': faulted, 'cases_editing_through_a_held_list_reference': heldn,
                         'loaded_cases_with_a_forward_instance_node_below_the_node': fwdn, 'cases_with_a_second_edit_history_after_the_first_save': twice,
                         'node_is_root_child_librarynode': nests,
                         'integer_exact_cases': len(exact), 'float_cases': len(floats),
                         'integer_cases_rejected_by_magnitude_bound': rejected},
        'mismatches': mismatches,
        'errors': errors,
    }

    def search(mm):
        extra = [gen_float_case(rng) for _ in range(6000)] + [gen_case(rng, gen_int_transform, True) for _ in range(1500)]
        extra = [m['input'] for m in mm if m.get('input')] + extra
        return first_failures(extra, run_cases(extra))

    return core.finish(
        ctx, obligations=obl, regen=regen, build_ok=build_ok, corr=corr, failures=failures, search=search,
        trusted_base=core.BASE_TRUST + [
            'harness/translate/transforms.py: the ast reading of scene.py (makeRotationMatrix entries, cells written, '
            'numpy.dot argument order, degree->radian expression, loaders) is what the theorems are about; numpy\'s '
            'identity/dot/cos/sin/reshape/cross mean what Base/Mat.v and the ops record say',
            'float arithmetic is not modelled: the theorems are over an abstract commutative ring and over the reals; the '
            'float32 implementation is compared at tolerance (1e-5 relative to the product of Frobenius norms) by the '
            'direct oracle and exactly on integer data by the correspondence',
        ],
        assumptions=['angles within +-720 degrees and magnitudes within 1e-12..1e12 in the float oracle (float32 storage)',
                     'lookat triples are non-degenerate (eye <> interest, up not parallel to the view direction)'])


def replay(ctx, body):
    case = body.get('input') or (body.get('mismatching_cases') or [{}])[0].get('input')
    if not case:
        print('replay: nothing to re-execute (no input recorded): %s' % json.dumps(body.get('no_longer_checks')))
        return 0
    r = run_cases([case])[0]
    print(json.dumps(r['fails'], indent=1))
    want = body.get('signature')
    sigs = ['C13:%s:%s' % (f['clause'], f['site']) for f in r['fails']]
    if r['fails']:
        print('VIOLATION property=C13 replay=%s' % body.get('replay_cmd', '').split()[-1])
        return 1
    if body.get('kind') == 'no-failing-input-found' and r['obs'] is not None and case.get('exact'):
        core.build(ctx, target=['Check/C13.vo'])     # the model of the tree under test
        bad, errors = core.coq_eval_cases(ctx, HEADER, CASE_TYPE, [c_case(case, r['obs'])], 'C13.mismatches')
        if bad or errors:
            print('model and implementation still differ on this case: %s' % json.dumps(r['obs']))
            print('VIOLATION property=C13 replay=%s' % body.get('replay_cmd', '').split()[-1])
            return 1
    print('replay: the property clauses hold on this input now')
    return 0
