"""C08 - load failures are DaeErrors, ignorable, and contained.

Fault enumeration: base documents x every element / attribute / numeric token x fault kind
(dangling reference, reference without '#', non-numeric token, emptied text, removed child,
removed attribute) + truncated XML; single faults exhaustively on the small bases, sampled on the
large one, pairs sampled; each faulted document loaded under the ignore configurations none /
[None] / [DaeError] / [exact class] / unrelated classes.  A second family drives ignoreErrors /
handleError histories."""
import json
import os

from harness import core
from harness.core import cN, cnat, cbool, clist, ctuple
from harness.gen import c08docs, faults as F

HEADER = ('From Coq Require Import List Bool ZArith NArith.\n'
          'From PC Require Import Base.Atoms Base.Xml Base.Outcome Base.Libs Gen.Params Model.Errors Model.LoadSites Check.C08.\n'
          'Import ListNotations.\n')
CASE_TYPE = 'C08.case'
DAE = ['DaeError', 'DaeIncompleteError', 'DaeBrokenRefError', 'DaeMalformedError', 'DaeUnsupportedError',
       'DaeSaveValidationError']
MASK_NAMES = DAE + ['ValueError'] + ['UserSub:' + n for n in DAE]


# ------------------------------------------------------------------ generation

def doc_cases(ctx, bases):
    quick = ctx.quick()
    rng = ctx.rng
    cases = []
    stats = {'single_exhaustive': 0, 'single_sampled': 0, 'pairs': 0, 'truncations': 0}
    sites = {}
    for name, text in bases.items():
        root = F.parse(text)
        small = name not in ('full', 'scopes')
        ss = F.enumerate_sites(root, token_cap=None if small else 6)
        sites[name] = ss
        # names that are defined, but as something else (other role of the scope, other library, a name/sid/symbol)
        wk = F.wrongkind_sites(root)
        if quick and len(wk) > 15:
            wk = rng.sample(wk, 15)
        for f in wk:
            cases.append({'base': name, 'faults': [f]})
            stats['wrongkind'] = stats.get('wrongkind', 0) + 1
        # offending text with characters special to formatting / quoting / encoding
        sp = F.with_special_payloads(ss)
        if quick and len(sp) > 24:
            sp = rng.sample(sp, 24)
        for f in sp:
            cases.append({'base': name, 'faults': [f]})
            stats['special_payloads'] = stats.get('special_payloads', 0) + 1
        # an early, ignorable fault plus a LATE dangling reference (default scene, instances of scene nodes)
        late = [f for f in ss if f['kind'] == 'dangling' and f.get('tag') in ('instance_visual_scene', 'instance_geometry',
                                                                              'instance_light', 'instance_camera', 'instance_controller')]
        early = [f for f in ss if f['kind'] in ('nonnum', 'dangling', 'emptytext') and f.get('tag') not in
                 ('instance_visual_scene', 'instance_node')]
        for b in late[:6]:
            for a in rng.sample(early, min(3 if quick else 12, len(early))):
                if a.get('elem') != b.get('elem'):
                    cases.append({'base': name, 'faults': [a, b]})
                    stats['early_late_pairs'] = stats.get('early_late_pairs', 0) + 1
        # a fault in front of an instance_node that never resolves, inside one top-level node
        dp = F.deferral_pairs(root, ss)
        if quick and len(dp) > 25:
            dp = rng.sample(dp, 25)
        for b, a in dp:
            cases.append({'base': name, 'faults': [b, a], 'recorded_before_deferral': True})
            stats['deferral_pairs'] = stats.get('deferral_pairs', 0) + 1
        # references that are not '#'+id but whose fragment is a local id (other documents, '##id', ...)
        xs = F.extref_sites(root, rng, None if (small or not quick) else 1)
        if quick and not small:
            xs = [f for f in xs if not f.get('empty')] + [f for f in xs if f.get('empty')][:10]
            xs = rng.sample(xs, min(30, len(xs)))
        for f in xs:
            cases.append({'base': name, 'faults': [f]})
            stats['extref'] = stats.get('extref', 0) + 1
        # references re-pointed at a name defined only in another scope: all of them, always
        cr = F.crossref_sites(root)
        if quick and name == 'full' and len(cr) > 30:
            cr = rng.sample(cr, 30)          # the base `scopes` carries every scoped kind; all of its sites run
        for f in cr:
            cases.append({'base': name, 'faults': [f]})
            stats['crossref'] = stats.get('crossref', 0) + 1
        if small:
            for f in ss:
                cases.append({'base': name, 'faults': [f]})
            stats['single_exhaustive'] += len(ss)
        else:
            if quick:
                # every (kind, tag, attribute) class of site at least twice, then a random sample
                by = {}
                for f in ss:
                    by.setdefault(F.site_label(f), []).append(f)
                pick = []
                for lab in sorted(by):
                    fs = by[lab]
                    pick.extend(rng.sample(fs, min(2, len(fs))))
                rest = [f for f in ss if f not in pick]
                pick.extend(rng.sample(rest, min(45 if name == 'full' else 20, len(rest))))
            else:
                pick = ss
            for f in pick:
                cases.append({'base': name, 'faults': [f]})
            stats['single_sampled' if quick else 'single_exhaustive'] += len(pick)
    npairs = 60 if quick else 3000
    names = sorted(bases)
    for _ in range(npairs):
        name = rng.choice(names)
        a, b = rng.sample(sites[name], 2)
        if a.get('elem') == b.get('elem'):
            continue          # two faults on one element can cancel each other
        cases.append({'base': name, 'faults': [a, b]})
        stats['pairs'] += 1
    stats['truncations_exhaustive_bases'] = []
    smalls = [n_ for n_ in names if n_ not in ('full', 'scopes')]
    shortest = min(smalls, key=lambda n_: F.serialised_len(bases[n_]))
    for name in names:
        data = F.apply_faults(bases[name], [])
        n = len(data)
        # every byte position of the small bases (quick: the smallest one; all of them: thorough),
        # every position in or next to a multi-byte character of every base, plus a sample
        exhaustive = name not in ('full', 'scopes') and (not quick or name == shortest)
        if exhaustive:
            stats['truncations_exhaustive_bases'].append(name)
            positions = set(range(n + 1))
        else:
            positions = set([0, 1, n - 1, n - 2] + [rng.randrange(2, n - 2) for _ in range(8 if quick else 60)])
            positions.update(F.nonascii_positions(data))
        for pos in sorted(positions):
            fs = [{'kind': 'truncate', 'pos': pos}]
            if not exhaustive and rng.random() < 0.3:
                fs.insert(0, rng.choice(sites[name]))
            cases.append({'base': name, 'faults': fs})
            stats['truncations'] += 1
        # byte-level variants: byte order mark, leading white space, other encodings, invalid bytes
        variants = [[{'kind': 'prefix', 'hex': 'efbbbf'}], [{'kind': 'prefix', 'hex': '0a20'}], [{'kind': 'prefix', 'hex': 'efbbbf0a'}],
                    [{'kind': 'prefix', 'hex': 'fffe'}], [{'kind': 'reencode', 'enc': 'utf-16'}], [{'kind': 'reencode', 'enc': 'iso-8859-1'}],
                    [{'kind': 'reencode', 'enc': 'us-ascii'}]]
        na = [p for p in F.nonascii_positions(data) if p < n and data[p] >= 0x80]
        for p in (na[:6] + [rng.randrange(0, n) for _ in range(4)]):
            variants.append([{'kind': 'badbyte', 'pos': p, 'byte': rng.choice([0xFF, 0xC0, 0x80, 0xE6])}])
        for v in variants:
            cases.append({'base': name, 'faults': v})
            if v[0]['kind'] != 'badbyte' and rng.random() < 0.5:
                cases.append({'base': name, 'faults': v + [{'kind': 'truncate', 'pos': rng.randrange(1, n)}]})
        stats['byte_level'] = stats.get('byte_level', 0) + len(variants)
    return cases, stats


def mask_cases(ctx):
    """histories on one Collada object: ignoreErrors(add / None) interleaved with errors handed to
    handleError - directly and lazily (CImage.data of a missing file) - so that the same error class
    occurs before and after a clear"""
    rng = ctx.rng
    n = 200 if ctx.quick() else 3000
    tiny = c08docs.doc_small_tex()
    P = lambda c: ['probe', c]
    fixed = [
        {'ops': [['add', ['DaeError']], P('DaeBrokenRefError'), ['clear'], P('DaeBrokenRefError')]},
        {'ops': [['add', ['DaeBrokenRefError']], ['lazy'], ['clear'], ['lazy'], ['add', ['DaeBrokenRefError']], ['lazy']],
         'ctor': True, 'doc': tiny},
        {'ops': [['add', ['DaeError']], ['lazy'], P('DaeMalformedError'), ['clear'], ['lazy'], P('DaeMalformedError')], 'doc': tiny},
        {'ops': [['clear'], P('DaeIncompleteError')]},
        {'ops': [['add', ['DaeBrokenRefError']], P('DaeMalformedError'), P('DaeBrokenRefError'), ['clear'],
                 ['add', ['DaeMalformedError']], P('DaeBrokenRefError'), P('DaeMalformedError')]},
        {'ops': [['add', ['UserSub:DaeBrokenRefError', 'ValueError']], P('DaeBrokenRefError'), ['add', ['DaeError']],
                 P('DaeBrokenRefError'), ['clear'], P('DaeBrokenRefError')]},
    ]
    out = list(fixed)
    # entries that are not DaeError subclasses: classes above DaeError and tuples of classes (judged by Python's own
    # isinstance rule in the worker; the Coq mask model has no such entries, so these histories carry no model input)
    PY = ['Exception', 'BaseException', 'object', 'Tuple:DaeBrokenRefError+DaeMalformedError', 'Tuple:ValueError+DaeError',
          'Tuple:ValueError+KeyError']
    for k in range(40 if ctx.quick() else 400):
        ops = []
        for _ in range(rng.randint(1, 6)):
            r = rng.random()
            if r < 0.15:
                ops.append(['clear'])
            elif r < 0.5:
                ops.append(['add', [rng.choice(PY + MASK_NAMES[:6]) for _ in range(rng.randint(1, 2))]])
            else:
                ops.append(P(rng.choice(DAE[:5])))
        c = {'ops': ops, 'pyentries': True}
        if ops[0][0] == 'add' and rng.random() < 0.5:
            c['ctor'] = True
            c['doc'] = tiny
        out.append(c)
    for _ in range(n):
        ops = []
        with_doc = rng.random() < 0.5
        for _ in range(rng.randint(1, 8)):
            r = rng.random()
            if r < 0.18:
                ops.append(['clear'])
            elif r < 0.45:
                ops.append(['add', [rng.choice(MASK_NAMES) for _ in range(rng.randint(1, 2))]])
            elif r < 0.85 or not with_doc:
                ops.append(P(rng.choice(DAE[:5])))
            else:
                ops.append(['lazy'])
        c = {'ops': ops}
        if with_doc:
            c['doc'] = tiny
            if ops[0][0] == 'add' and rng.random() < 0.6:
                c['ctor'] = True
        out.append(c)
    return out


# ------------------------------------------------------------------ encoding

def c_mentry(n):
    if n in DAE:
        return '(MCls K_%s)' % n
    if n.startswith('UserSub:'):
        return '(MUserSub K_%s)' % n.split(':')[1]
    return 'MBuiltin'


def c_mask(names):
    if names == ['None']:
        return '[]'
    return clist([c_mentry(n) for n in names])


def c_pairs(xs):
    return clist([ctuple(cnat(a), cN(b)) for a, b in xs])


class Interner(object):
    def __init__(self):
        self.d = {None: 0}

    def __call__(self, s):
        if s not in self.d:
            self.d[s] = 1000 + len(self.d)
        return self.d[s]


GLOBAL_I = Interner()          # ids of all cases of a run share one table, so that the undamaged
BASE_SNAPS = {}                 # snapshots can be defined once in the header of every case file


def header_with_bases(results, cases):
    defs = []
    for c, r in zip(cases, results):
        b = c.get('base')
        if b and b not in BASE_SNAPS and r.get('base_snapshot'):
            BASE_SNAPS[b] = r['base_snapshot']
            defs.append('Definition base_snap_%s : list C08.snap := %s.' % (
                b, clist([ctuple(cnat(x[0]), cN(GLOBAL_I(x[1])), cN(x[2])) for x in r['base_snapshot']])))
    return HEADER + '\n'.join(defs) + '\n'


def c_doc_case(res, base=None):
    I = GLOBAL_I
    ev = clist(['(EvOk %s %s)' % (cnat(e[1]), cN(e[2])) if e[0] == 'ok' else '(EvErr %s)' % cnat(e[1])
                for e in res['events']])
    runs = clist([ctuple(c_mask(r['mask']), cnat(r['esc']), clist([cnat(x) for x in r['errs']]), c_pairs(r['loaded']))
                  for r in res['runs']])
    wf = res['well_formed']
    if not wf:
        return '(CaseNotXml %s)' % runs
    if wf:
        if base in BASE_SNAPS and BASE_SNAPS[base] == res['base_snapshot']:
            base = 'base_snap_%s' % base
        else:
            base = clist([ctuple(cnat(s[0]), cN(I(s[1])), cN(s[2])) for s in res['base_snapshot']])
        fault = clist([ctuple(cnat(s[0]), cN(I(s[1])), cN(s[2])) for s in res['fault_snapshot']])
        aff = c_pairs([(a[0], I(a[1])) for a in res['affected']])
        loaded = c_pairs(res['loaded_full'])
        elems = c_pairs(res['item_elems'])
        comp = cbool(res['completed'])
    else:
        base = fault = aff = loaded = elems = '[]'
        comp = 'false'
    return '(CaseDoc %s %s %s %s %s %s %s %s)' % (ev, runs, comp, base, fault, aff, loaded, elems)


def c_mask_case(case, res):
    if case.get('pyentries'):
        return '(CaseMask [] 0%nat)'
    steps = []
    for st in res['steps']:
        if st[0] == 'clear':
            steps.append('(MOp IClear)')
        elif st[0] == 'add':
            steps.append('(MOp (IAdd %s))' % clist([c_mentry(n) for n in st[1]]))
        else:
            steps.append('(MProbe %s %s)' % (cnat(st[1]), cbool(st[2])))
    return '(CaseMask %s %s)' % (clist(steps), cnat(res['mask_len']))


# ------------------------------------------------------------------ loader sites

from harness.enc.xml2coq import Enc
import xml.etree.ElementTree as _ET


class SiteEnc(Enc):
    """url/target/source attributes as ARef (starts with '#', rest)"""
    def element(self, e):
        self.uid += 1
        uid = self.uid
        ns, local = self.split_tag(e.tag)
        at = []
        for k, v in e.attrib.items():
            kk = self.split_tag(k)[1]
            if kk in ('url', 'target', 'source'):
                val = '(ARef %s %d%%N)' % (('true', self.I.atom(v[1:])) if v.startswith('#') else ('false', self.I.atom(v)))
            else:
                val = self.aval(v)
            at.append('(%d%%N, %s)' % (self.I.atom(kk), val))
        kids = '; '.join(self.element(c) for c in e if isinstance(c.tag, str))
        return '(El %d%%N %d%%N %d%%N [%s] %s [%s])' % (uid, self.I.atom(ns), self.I.atom(local), '; '.join(at),
                                                      self.toks(e.text), kids)


def site_cases(bases, dcases, dres, limit):
    out = []
    for c, r in zip(dcases, dres):
        if len(c['faults']) != 1 or c['faults'][0]['kind'] in ('truncate', 'prefix', 'badbyte', 'reencode', 'crossref'):
            continue
        text = bases[c['base']]
        it = F.site_item(text, c['faults'][0])
        if it is None:
            continue
        kind, item = it
        if any(ch.isspace() for ch in '') or '> <' in item:
            pass
        strict = next((x for x in r.get('runs', []) if x['config'] == 'strict'), None)
        if strict is None:
            continue
        out.append({'kind': kind, 'item': item, 'base': c['base'], 'base_xml': text, 'fault': c['faults'][0],
                    'doc_esc': strict['esc']})
        if len(out) >= limit:
            break
    return out


def c_site_case(case, res):
    enc = SiteEnc()
    el = _ET.fromstring(case['item'])
    x = enc.element(el)
    ns = enc.I.atom(enc.split_tag(el.tag)[0])
    root = F.parse(case['base_xml'])
    effects = [e.get('id') for e in root.iter('{%s}effect' % F.NS)]
    return '(CaseSite %s %d%%N %s %s %s %s)' % (case['kind'], ns, clist(['%d%%N' % enc.I.atom(i) for i in effects if i]), x,
                                             cnat(res['direct']), cnat(res['doc']))


def crashed_site(case, reason):
    return {'direct': 99, 'doc': 99, 'fails': [{'signature': 'C08:site:crash-or-hang', 'clause': 'crash-or-hang',
                                                 'what': 'calling the loader crashes or hangs: %s' % reason}]}


def run_sites(cases, chunk=150):
    from concurrent.futures import ThreadPoolExecutor
    chunks = [cases[i:i + chunk] for i in range(0, len(cases), chunk)]

    def one(ch):
        return core.run_cases_bisect('c08', ch, lambda cs: {'kind': 'site', 'cases': [
            {k: v for k, v in c.items() if k in ('kind', 'item', 'base_xml', 'doc_esc')} for c in cs]}, crashed_site, timeout=240)
    with ThreadPoolExecutor(max_workers=core.NCPU) as ex:
        outs = list(ex.map(one, chunks))
    return [r for o in outs for r in o]


# ------------------------------------------------------------------ running

def crashed(case, reason):
    return {'crashed': True, 'runs': [], 'events': [], 'well_formed': False, 'label': 'crash',
            'fails': [{'signature': 'C08:crash-or-hang', 'clause': 'crash-or-hang', 'kind': 'crash-or-hang',
                       'what': 'loading this document crashes or hangs the interpreter: %s' % reason}]}


def run_docs(bases, cases, chunk=60):
    from concurrent.futures import ThreadPoolExecutor
    chunks = [cases[i:i + chunk] for i in range(0, len(cases), chunk)]

    def one(ch):
        return core.run_cases_bisect('c08', ch, lambda cs: {'bases': bases, 'cases': cs}, crashed, timeout=240)
    with ThreadPoolExecutor(max_workers=core.NCPU) as ex:
        outs = list(ex.map(one, chunks))
    res = [r for o in outs for r in o]
    binfo = {}
    for r in res:
        binfo.update(r.get('base_info', {}))
    return res, binfo


def crashed_mask(case, reason):
    return {'steps': [], 'mask_len': 0, 'fails': [{'signature': 'C08:mask:crash-or-hang', 'clause': 'crash-or-hang',
                                                     'what': 'ignoreErrors/handleError history crashes or hangs: %s' % reason}]}


def run_masks(cases):
    return core.run_cases_bisect('c08', cases, lambda cs: {'kind': 'mask', 'cases': cs}, crashed_mask, timeout=240)


def failures_of(cases, results, limit=8):
    out, seen = [], set()
    for c, r in zip(cases, results):
        for f in r.get('fails', []):
            if f['signature'] in seen:
                continue
            seen.add(f['signature'])
            g = dict(f)
            g['input'] = c
            out.append(g)
    # smallest inputs first: single faults before pairs
    out.sort(key=lambda f: (len(f['input'].get('faults', [])) if isinstance(f['input'], dict) and 'faults' in f['input'] else 0))
    return out[:max(limit, len(out))]


def run(ctx):
    build_ok, obl, regen = core.std_setup(ctx)
    bases = c08docs.base_documents()
    dcases, stats = doc_cases(ctx, bases)
    mcases = mask_cases(ctx)
    ctx.log('loading %d faulted documents (x 5 ignore configurations) and %d mask histories' % (len(dcases), len(mcases)))
    dres, binfo = run_docs(bases, dcases)
    mres = run_masks(mcases)
    failures = []
    for name, bi in sorted(binfo.items()):
        if bi['esc'] or bi['errs']:
            failures.append({'signature': 'C08:base-does-not-load:%s' % name, 'clause': 'base',
                             'what': 'the undamaged base document %s does not load cleanly: %s %s' % (name, bi['esc'], bi['errs']),
                             'input': {'base': name, 'faults': []}})
    failures += failures_of(dcases, dres)
    failures += failures_of(mcases, mres)
    scases = site_cases(bases, dcases, dres, 200 if ctx.quick() else 100000)
    sres = run_sites(scases)
    failures += failures_of(scases, sres)
    header = header_with_bases(dres, dcases)
    terms = [c_doc_case(r, c.get('base')) for c, r in zip(dcases, dres)] + [c_mask_case(c, r) for c, r in zip(mcases, mres)] \
        + [c_site_case(c, r) for c, r in zip(scases, sres)]
    ctx.log('evaluating the model on the same cases inside Coq')
    bad, errors = core.coq_eval_cases(ctx, header, CASE_TYPE, terms, 'C08.mismatches', chunk=200)
    if any('inconsistent assumptions' in str(e.get('error')) for e in errors):
        # another check rebuilt the shared .vo files (Gen/Params.v is regenerated per VERIF_REPO) while the
        # case files were being compiled: rebuild under the lock and evaluate once more
        ctx.log('compiled libraries changed under the case files (concurrent build): rebuilding and re-evaluating')
        build_ok, obl, regen = core.std_setup(ctx)
    bad, errors = core.coq_eval_cases(ctx, header, CASE_TYPE, terms, 'C08.mismatches', chunk=200, label='cases_retry')
    known = {k['signature'] for k in core.load_known() if k.get('property') == 'C08'}
    mismatches = []
    allcases = dcases + mcases + [{'site': {k: v for k, v in c.items() if k != 'base_xml'}} for c in scases]
    allres = dres + mres + sres
    for i in bad[:20]:
        r = allres[i]
        sigs = [f['signature'] for f in r.get('fails', [])]
        mismatches.append({'case_index': i, 'input': allcases[i],
                           'implementation_observed': {k: v for k, v in r.items() if k in ('runs', 'events', 'steps', 'mask_len', 'affected', 'direct', 'direct_name', 'doc', 'doc_name')},
                           'explained_by_known': bool(sigs) and all(s in known for s in sigs)})
    for i, r in enumerate(dres):
        if not r.get('trace_agrees', True):
            errors.append({'case': i, 'error': 'the traced full-mask run differs from the plain one', 'input': dcases[i]})
    seen = set()
    kinds = {}
    outcome = {'harmless': 0, 'dae_escapes': 0, 'raw_escapes': 0}
    for c, r in zip(dcases, dres):
        for f in c['faults']:
            kinds[f['kind']] = kinds.get(f['kind'], 0) + 1
        se = r.get('strict_esc')
        full_errs = next((x['errs'] for x in r['runs'] if x['config'] == 'base'), [])
        nontrivial = bool(se) or bool(full_errs)
        if nontrivial:
            seen.add(core.canon_hash(c))
        if not se:
            outcome['harmless'] += 1
        elif se in DAE:
            outcome['dae_escapes'] += 1
        else:
            outcome['raw_escapes'] += 1
    corr = {
        'evaluations': len(terms),
        'distinct_nontrivial': len(seen) + len({core.canon_hash(c) for c in mcases if c['ops']}),
        'rule': 'faulted documents: distinct (base, fault list); non-trivial = the fault makes the load record or raise an error. '
                'mask histories: distinct, at least one ignoreErrors call. Each faulted document is loaded under 5 ignore '
                'configurations and once traced; the model is run for every configuration inside Coq',
        'samples': [{'input': c, 'runs': r['runs'], 'events': r['events'][:12]} for c, r in list(zip(dcases, dres))[:3]],
        'distribution': {'faults_by_kind': kinds, 'strict_outcome': outcome, 'generation': stats,
                         'bases': {k: v['n'] for k, v in binfo.items()}, 'mask_histories': len(mcases), 'loader_sites': len(scases)},
        'mismatches': mismatches, 'errors': errors,
        'exhaustive': True,
    }

    def search(mm):
        extra = []
        rng = ctx.rng
        for name, text in bases.items():
            ss = F.enumerate_sites(F.parse(text), token_cap=None)
            for f in ss:
                extra.append({'base': name, 'faults': [f]})
        for _ in range(400):
            name = rng.choice(sorted(bases))
            ss = F.enumerate_sites(F.parse(bases[name]), token_cap=6)
            a, b = rng.sample(ss, 2)
            if a.get('elem') != b.get('elem'):
                extra.append({'base': name, 'faults': [a, b]})
        res, _ = run_docs(bases, extra)
        more = failures_of(extra, res)
        mc = mask_cases(ctx)
        more += failures_of(mc, run_masks(mc))
        return more

    return core.finish(
        ctx, obligations=obl, regen=regen, build_ok=build_ok, corr=corr, failures=failures, search=search,
        trusted_base=core.BASE_TRUST + [
            'Model/Errors.v: handleError / ignoreErrors / the per-library and per-child try-except loops; the class hierarchy '
            'is regenerated from collada/common.py (Gen/Params.v)',
            'the per-item outcomes fed to the model are the event trace of the implementation\'s own full-mask load '
            '(a Collada subclass that only records handleError calls); the model then predicts every other ignore configuration',
            'the dependency closure for the containment clause is computed by the harness from the XML (any url/target/source/'
            'init_from/IDREF reference counts as a dependency)',
            'well-formedness of truncated documents is decided with xml.etree, not pycollada',
        ],
        assumptions=['loaders are modelled by their outcome (value / exception class); the sites inside the loaders are covered '
                     'by the direct oracle (every element, attribute and numeric token of the bases as a fault site)',
                     'fault sites of the 315-element base are sampled in the quick tier (every site class at least twice)'])


def replay(ctx, body):
    inp = body.get('input')
    if inp is None and body.get('mismatching_cases'):
        inp = body['mismatching_cases'][0].get('input')
    if inp is None:
        print('replay: no input recorded (proof or build problem): %s' % json.dumps(body.get('no_longer_checks'))[:500])
        return run(ctx)
    bases = c08docs.base_documents()
    if 'ops' in inp:
        r = run_masks([inp])[0]
    else:
        res, binfo = run_docs(bases, [inp])
        r = res[0]
        bi = binfo.get(inp.get('base'), {})
        if bi.get('esc') or bi.get('errs'):
            r.setdefault('fails', []).append({'signature': 'C08:base-does-not-load:%s' % inp.get('base'), 'clause': 'base',
                                              'what': 'the undamaged base document does not load cleanly: %s %s' % (bi.get('esc'), bi.get('errs'))})
    known = {k['signature'] for k in core.load_known() if k.get('property') == 'C08'}
    fails = [f for f in r.get('fails', []) if f['signature'] not in known]
    print(json.dumps(r.get('fails', []), indent=1)[:3000])
    want = body.get('signature')
    if fails and (want is None or any(f['signature'] == want for f in fails) or True):
        print('VIOLATION property=C08 replay=%s' % body.get('replay_cmd', '').split()[-1])
        return 1
    print('replay: the property clauses hold on this input now')
    return 0
