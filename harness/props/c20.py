"""C20 - documents are isolated from one another (PARTIAL: footprints and schedules are measured)."""
import json
import os
from concurrent.futures import ThreadPoolExecutor

from harness import core
from harness.core import cN, clist, ctuple, cnat
from harness.props import c17 as P17

HEADER = ('From Coq Require Import List NArith Arith Bool.\n'
          'From PC Require Import Model.Isolation Check.C20.\n'
          'Import ListNotations.\n')
CASE_TYPE = 'C20.case'

NS141 = 'http://www.collada.org/2005/11/COLLADASchema'
NS150 = 'http://www.collada.org/2008/03/COLLADASchema'
MASKS = [None, None, ['DaeError'], ['DaeBrokenRefError'], ['DaeIncompleteError', 'DaeMalformedError'],
         ['DaeUnsupportedError']]
DAMAGE = ['none', 'none', 'none', 'broken_ref', 'missing_p', 'bad_float', 'truncated', 'unknown_semantic',
          'bad_index', 'no_accessor', 'bad_material_ref']
MASK_FOR = {'broken_ref': ['DaeBrokenRefError'], 'missing_p': ['DaeIncompleteError'], 'bad_float': ['DaeMalformedError'],
            'truncated': ['DaeMalformedError'], 'unknown_semantic': ['DaeUnsupportedError'], 'bad_index': ['DaeMalformedError'],
            'no_accessor': ['DaeIncompleteError'], 'bad_material_ref': ['DaeBrokenRefError']}
EDITS = ['rename_geometry', 'add_node', 'add_geometry', 'effect_color', 'add_effect', 'ignore', 'remove_geometry',
         'asset', 'query']


# ------------------------------------------------------------------ documents

def make_xml(rng, ns, damage):
    """a small document in namespace ns.  Ids come from a tiny alphabet shared by all documents
    (geom0, effect0, ...) while the data differ, so that anything keyed by id across documents shows."""
    nv = rng.randint(3, 6)
    verts = ' '.join(str(rng.randint(-9, 9)) for _ in range(3 * nv))
    if damage == 'bad_float':
        verts = verts + ' abc'
    ntri = rng.randint(1, 3)
    top = nv + 5 if damage == 'bad_index' else nv
    idx = ' '.join(str(rng.randrange(top) if damage == 'bad_index' and t == 0 else rng.randrange(nv))
                   for t in range(3 * ntri))
    if damage == 'bad_index':
        idx = str(nv + 3) + idx[idx.index(' '):] if ' ' in idx else str(nv + 3)
    gid = 'geom%d' % rng.randint(0, 1)
    eid = 'effect%d' % rng.randint(0, 1)
    mid = 'material%d' % rng.randint(0, 1)
    col = ' '.join(str(rng.choice([0, 0.25, 0.5, 1])) for _ in range(4))
    accessor = ('<technique_common><accessor source="#%s-pos-array" count="%d" stride="3"><param name="X" type="float"/>'
                '<param name="Y" type="float"/><param name="Z" type="float"/></accessor></technique_common>' % (gid, nv))
    if damage == 'no_accessor':
        accessor = ''
    extra_input = '<input semantic="WEIRD" source="#%s-pos" offset="0"/>' % gid if damage == 'unknown_semantic' else ''
    p = '' if damage == 'missing_p' else '<p>%s</p>' % idx
    use_poly = rng.random() < 0.4 and damage not in ('missing_p',)
    if use_poly:
        prim = ('<polylist count="%d" material="sym0"><input semantic="VERTEX" source="#%s-vtx" offset="0"/>%s'
                '<vcount>%s</vcount>%s</polylist>' % (ntri, gid, extra_input, ' '.join(['3'] * ntri), p))
    else:
        prim = ('<triangles count="%d" material="sym0"><input semantic="VERTEX" source="#%s-vtx" offset="0"/>%s%s</triangles>'
                % (ntri, gid, extra_input, p))
    url = '#nope' if damage == 'broken_ref' else '#' + gid
    target = '#nomat' if damage == 'bad_material_ref' else '#' + mid
    tx = rng.randint(-5, 5)
    image = rng.random() < 0.4
    xml = '''<?xml version="1.0" encoding="utf-8"?>
<COLLADA xmlns="%(ns)s" version="1.4.1">
 <asset><created>2020-01-02T03:04:05</created><modified>2020-01-02T03:04:05</modified><up_axis>Z_UP</up_axis></asset>
 %(images)s
 <library_effects><effect id="%(eid)s"><profile_COMMON><technique sid="common"><phong>
   <diffuse><color>%(col)s</color></diffuse><shininess><float>%(shin)d</float></shininess></phong></technique></profile_COMMON></effect></library_effects>
 <library_materials><material id="%(mid)s" name="m"><instance_effect url="#%(eid)s"/></material></library_materials>
 <library_geometries><geometry id="%(gid)s" name="g"><mesh>
   <source id="%(gid)s-pos"><float_array id="%(gid)s-pos-array" count="%(nf)d">%(verts)s</float_array>%(accessor)s</source>
   <vertices id="%(gid)s-vtx"><input semantic="POSITION" source="#%(gid)s-pos"/></vertices>
   %(prim)s
 </mesh></geometry></library_geometries>
 <library_visual_scenes><visual_scene id="scene0"><node id="node0" name="n"><translate>%(tx)d 0 1</translate>
   <instance_geometry url="%(url)s"><bind_material><technique_common><instance_material symbol="sym0" target="%(target)s"/></technique_common></bind_material></instance_geometry>
 </node></visual_scene></library_visual_scenes>
 <scene><instance_visual_scene url="#scene0"/></scene>
</COLLADA>
''' % {'ns': ns, 'eid': eid, 'mid': mid, 'gid': gid, 'col': col, 'shin': rng.randint(1, 50), 'nf': 3 * nv, 'verts': verts,
       'accessor': accessor, 'prim': prim, 'tx': tx, 'url': url, 'target': target,
       'images': '<library_images><image id="img0" name="img0"><init_from>./t%d.png</init_from></image></library_images>'
                 % rng.randint(0, 3) if image else ''}
    if damage == 'truncated':
        xml = xml[:len(xml) * 2 // 3]
    return xml


def gen_steps(rng, n):
    steps = [['load']]
    for _ in range(n):
        r = rng.random()
        if r < 0.3:
            steps.append(['save'])
        elif r < 0.4:
            steps.append(['snap'])
        else:
            steps.append(['edit', rng.choice(EDITS), rng.randint(0, 9)])
    if rng.random() < 0.7:
        steps.append(['save'])
    return steps


def gen_prog(rng, idx):
    r = rng.random()
    if r < 0.72:
        ns = rng.choice([NS141, NS141, NS150, NS150, 'urn:x-verif:%d' % rng.randint(0, 99), 'http://example.org/ns/%d' % rng.randint(0, 9)])
        damage = rng.choice(DAMAGE) if rng.random() < 0.6 else 'none'
        src = {'kind': 'xml', 'xml': make_xml(rng, ns, damage), 'ns': ns, 'damage': damage}
        # damaged documents mostly with a mask that lets (part of) them load, sometimes not
        mask = rng.choice(MASKS) if damage == 'none' or rng.random() < 0.35 else rng.choice([['DaeError'], ['DaeError'], MASK_FOR[damage]])
        return {'name': 'p%d' % idx, 'source': src, 'ignore': mask, 'steps': gen_steps(rng, rng.randint(1, 6))}
    elif r < 0.84:
        src = {'kind': 'file', 'file': rng.choice(['duck_triangles.dae', 'duck_polylist.dae', 'duck.zip', 'wam.dae',
                                                  'cube_tristrips.dae', 'empty_triangles_with_multiple_ns.dae',
                                                  'tristrips.dae'])}
    else:
        spec = P17.gen_doc(rng)
        while spec['kind'] == 'file':
            spec = P17.gen_doc(rng)
        src = {'kind': 'ctor', 'spec': spec}
    return {'name': 'p%d' % idx, 'source': src, 'ignore': rng.choice(MASKS), 'steps': gen_steps(rng, rng.randint(1, 6))}


def gen_schedule(rng, progs):
    """a random interleaving of the programs' step sequences (each program's steps in order)"""
    left = [len(p['steps']) for p in progs]
    sched = []
    mode = rng.choice(['uniform', 'uniform', 'bursty', 'sequential', 'round_robin'])
    if mode == 'sequential':
        order = list(range(len(progs)))
        rng.shuffle(order)
        for i in order:
            sched += [i] * left[i]
        return sched
    if mode == 'round_robin':
        while any(left):
            for i in range(len(progs)):
                if left[i]:
                    sched.append(i)
                    left[i] -= 1
        return sched
    cur = None
    while any(left):
        live = [i for i in range(len(progs)) if left[i]]
        if mode == 'bursty' and cur in live and rng.random() < 0.6:
            i = cur
        else:
            i = rng.choice(live)
        cur = i
        sched.append(i)
        left[i] -= 1
    return sched


# ------------------------------------------------------------------ running

def run_mode(payload, timeout=300):
    try:
        return core.run_impl('c20', payload, timeout=timeout)
    except Exception as e:  # noqa  (crash, hang, memory)
        return {'crashed': str(e)[-400:]}


def run_many(payloads, timeout=300):
    with ThreadPoolExecutor(max_workers=core.NCPU) as ex:
        return list(ex.map(lambda p: run_mode(p, timeout), payloads))


class Interner(object):
    def __init__(self):
        self.t = {}

    def __call__(self, s):
        if s not in self.t:
            self.t[s] = 1000 + len(self.t)
        return self.t[s]


def c_case(ndocs, sched_obs, solo, gl, nshared):
    I = Interner()
    return ctuple(cnat(ndocs),
                  clist([ctuple(cnat(i), cN(I(d))) for i, d in sched_obs]),
                  clist([clist([cN(I(d)) for d in s]) for s in solo]),
                  clist([ctuple(cN(I(a)), cN(I(b))) for a, b in gl]),
                  cnat(nshared))


def short_prog(p):
    q = dict(p)
    s = dict(p['source'])
    if s['kind'] == 'xml':
        s = {'kind': 'xml', 'ns': s.get('ns'), 'damage': s.get('damage'), 'xml_len': len(s['xml'])}
    elif s['kind'] == 'ctor':
        s = {'kind': 'ctor'}
    q['source'] = s
    return q


def evaluate(progs, solo, sched_payload, res):
    """direct oracle on one schedule/thread result: the list of failures"""
    fails = []
    if 'crashed' in res:
        return [{'clause': 'crash-or-hang', 'site': sched_payload['mode'], 'what': 'worker crashed or hung: ' + res['crashed'][-200:]}]
    if sched_payload['mode'] == 'sched':
        at = [0] * len(progs)
        for s in res['steps']:
            i = s['doc']
            k = at[i]
            at[i] += 1
            want = solo[i]['steps'][k]
            if s['digest'] != want['digest']:
                step = progs[i]['steps'][k]
                field = first_difference(want['obs'], s['obs'])
                fails.append({'clause': 'differs-from-solo', 'site': '%s:%s' % (step_name(step), field),
                              'what': 'document %d step %d (%s) observed %s in the schedule but %s alone'
                                      % (i, k, step_name(step), json.dumps(s['obs'])[:160], json.dumps(want['obs'])[:160])})
                break
        for gch in res.get('global_changes', [])[:1]:
            fails.append({'clause': 'global-state-changed', 'site': gch['changed'][0] if gch['changed'] else 'unknown',
                          'what': 'step %s of document %d changed module-level state: %s' % (gch['step'], gch['doc'], gch['changed'][:4])})
        for sh in res.get('shared', [])[:1]:
            fails.append({'clause': 'shared-mutable-object', 'site': sh[4],
                          'what': 'documents %d and %d both reach the same %s (%s / %s)' % (sh[0], sh[2], sh[4], sh[1][:80], sh[3][:80])})
    else:
        for rnd in res['rounds']:
            for c in rnd['crashes'][:1]:
                fails.append({'clause': 'crash-or-hang', 'site': 'thread:' + c[1], 'what': 'thread of document %d died: %s %s' % tuple(c)})
            for i, rs in enumerate(rnd['results']):
                for k, s in enumerate(rs):
                    want = solo[i]['steps'][k]
                    if s['digest'] != want['digest']:
                        step = progs[i]['steps'][k]
                        fails.append({'clause': 'differs-from-solo', 'site': 'threads:%s:%s' % (step_name(step), first_difference(want['obs'], s['obs'])),
                                      'what': 'under threads document %d step %d (%s) observed %s but %s alone'
                                              % (i, k, step_name(step), json.dumps(s['obs'])[:160], json.dumps(want['obs'])[:160])})
                        break
                if fails:
                    break
            if len(set(rnd['globals'])) > 1:
                fails.append({'clause': 'global-state-changed', 'site': 'threads',
                              'what': 'module-level state differs between barriers of a threaded run'})
            for sh in rnd['shared'][:1]:
                fails.append({'clause': 'shared-mutable-object', 'site': 'threads:' + sh[4],
                              'what': 'documents %d and %d both reach the same %s (%s / %s)' % (sh[0], sh[2], sh[4], sh[1][:80], sh[3][:80])})
            if fails:
                break
    return fails


def step_name(step):
    return step[0] if step[0] != 'edit' else 'edit-' + step[1]


FIELDS = ['outcome', 'snapshot', 'errors', 'mask', 'tag', 'ids']


def first_difference(a, b):
    """which part of the observation differs (for a narrow signature)"""
    if a[:1] != b[:1]:
        return 'outcome'
    if a[0] == 'raised':
        if a[1] != b[1]:
            return 'exception-class'
        if a[2] != b[2]:
            return 'exception-message'
        a, b = a[3:], b[3:]
    elif a[0] == 'bytes':
        if a[1:3] != b[1:3]:
            return 'written-bytes'
        a, b = a[3:], b[3:]
    else:
        a, b = a[1:], b[1:]
    for n, x, y in zip(FIELDS[1:], a, b):
        if x != y:
            return n
    return 'other'


def run(ctx):
    build_ok, obl, regen = core.std_setup(ctx)
    quick = ctx.quick()
    rng = ctx.rng
    nprog = 60 if quick else 400
    nsched = 150 if quick else 2000
    nthread = 16 if quick else 100
    rounds = 6 if quick else 10
    progs = [gen_prog(rng, i) for i in range(nprog)]
    ctx.log('solo runs: %d document programs, one fresh process each' % nprog)
    solo = run_many([{'mode': 'solo', 'prog': p} for p in progs])
    usable = [i for i, s in enumerate(solo) if 'crashed' not in s]
    failures = []
    for i, s in enumerate(solo):
        if 'crashed' in s:
            failures.append({'signature': 'C20:crash-or-hang:solo', 'clause': 'crash-or-hang',
                             'what': 'solo run crashed: ' + s['crashed'][-200:],
                             'input': {'mode': 'solo', 'progs': [progs[i]]}})
    # determinism of the solo observations themselves (a second fresh process)
    again = run_many([{'mode': 'solo', 'prog': progs[i]} for i in usable[:12]])
    for i, s in zip(usable[:12], again):
        if 'crashed' not in s and [x['digest'] for x in s['steps']] != [x['digest'] for x in solo[i]['steps']]:
            ctx.log('WARNING: solo observations of program %d are not reproducible; it is not used' % i)
            usable.remove(i)
    payloads = []
    for _ in range(nsched):
        k = rng.choice([2, 2, 3, 3, 4, 5])
        pick = [rng.choice(usable) for _ in range(k)]
        ps = [progs[i] for i in pick]
        payloads.append(({'mode': 'sched', 'progs': ps, 'schedule': gen_schedule(rng, ps)}, pick))
    for _ in range(nthread):
        pick = [rng.choice(usable) for _ in range(8)]
        payloads.append(({'mode': 'threads', 'progs': [progs[i] for i in pick], 'rounds': rounds}, pick))
    ctx.log('running %d sequential schedules and %d threaded runs (8 threads, %d rounds each)' % (nsched, nthread, rounds))
    results = run_many([p for p, _ in payloads], timeout=600)
    terms, case_inputs = [], []
    dist = {'schedules': 0, 'threaded_runs': 0, 'thread_rounds': 0, 'steps': 0, 'loads_failed': 0, 'saves': 0,
            'saves_raised': 0, 'by_namespace': {}, 'by_damage': {}, 'by_mask': {}, 'by_source': {}}
    seen = set()
    for (payload, pick), res in zip(payloads, results):
        ps = payload['progs']
        sl = [solo[i] for i in pick]
        fs = evaluate(ps, sl, payload, res)
        for f in fs:
            failures.append({'signature': 'C20:%s:%s' % (f['clause'], f['site']), 'clause': f['clause'], 'what': f['what'],
                             'input': payload, 'detail': f})
        if 'crashed' in res:
            continue
        solo_d = [[x['digest'] for x in s['steps']] for s in sl]
        if payload['mode'] == 'sched':
            dist['schedules'] += 1
            sched_obs = [(s['doc'], s['digest']) for s in res['steps']]
            gl = [(s['g_before'], s['g_after']) for s in res['steps']]
            terms.append(c_case(len(ps), sched_obs, solo_d, gl, len(res['shared'])))
            case_inputs.append(payload)
            dist['steps'] += len(sched_obs)
            if len(ps) >= 2 and len(set(payload['schedule'])) >= 2:
                seen.add(core.canon_hash([[p['name'] for p in ps], payload['schedule']]))
        else:
            dist['threaded_runs'] += 1
            for rnd in res['rounds']:
                dist['thread_rounds'] += 1
                sched_obs = [(i, x['digest']) for i, rs in enumerate(rnd['results']) for x in rs]
                gl = [(g, g) for g in rnd['globals']]
                if rnd['globals']:
                    gl = [(rnd['globals'][0], g) for g in rnd['globals']]
                terms.append(c_case(len(ps), sched_obs, solo_d, gl, len(rnd['shared']) + len(rnd['crashes'])))
                case_inputs.append(payload)
                dist['steps'] += len(sched_obs)
            seen.add(core.canon_hash(['threads', [p['name'] for p in ps]]))
    for p, s in zip(progs, solo):
        src = p['source']
        dist['by_source'][src['kind']] = dist['by_source'].get(src['kind'], 0) + 1
        if src['kind'] == 'xml':
            nsk = {NS141: '1.4.1', NS150: '1.5'}.get(src['ns'], 'other-uri')
            dist['by_namespace'][nsk] = dist['by_namespace'].get(nsk, 0) + 1
            dist['by_damage'][src['damage']] = dist['by_damage'].get(src['damage'], 0) + 1
        dist['by_mask'][json.dumps(p['ignore'])] = dist['by_mask'].get(json.dumps(p['ignore']), 0) + 1
        if 'crashed' in s:
            continue
        for st, o in zip(p['steps'], s['steps']):
            if st[0] == 'load' and o['obs'][0] == 'raised':
                dist['loads_failed'] += 1
            if st[0] == 'save':
                dist['saves'] += 1
                dist['saves_raised'] += o['obs'][0] == 'raised'
    ctx.log('evaluating the projection comparison inside Coq (%d cases)' % len(terms))
    bad, errors = core.coq_eval_cases(ctx, HEADER, CASE_TYPE, terms, 'C20.mismatches', chunk=60)
    mismatches = [{'case_index': i, 'input': case_inputs[i], 'explained_by_known': False} for i in bad[:10]]
    # one failure per signature
    uniq, sigs = [], set()
    for f in failures:
        if f['signature'] not in sigs:
            sigs.add(f['signature'])
            uniq.append(f)
    corr = {
        'evaluations': len(terms),
        'distinct_nontrivial': len(seen),
        'rule': 'a case = one schedule: 2-5 document programs (load with an ignore mask, edits, saves, snapshots) interleaved '
                'in one process, or 8 programs in 8 threads with a barrier before every step (one case per round); every '
                'observation (snapshot digest, errors, mask, tag, ids, bytes written or exception) is compared with the '
                'program run alone in a fresh process; non-trivial = at least two documents actually interleaved; '
                'distinct = different (programs, schedule)',
        'samples': [{'programs': [short_prog(p) for p in payloads[j][0]['progs']], 'schedule': payloads[j][0].get('schedule')}
                    for j in range(min(2, len(payloads)))],
        'distribution': dist,
        'mismatches': mismatches,
        'errors': errors,
    }

    def search(mm):
        return []

    return core.finish(
        ctx, obligations=obl, regen=regen, build_ok=build_ok, corr=corr, failures=uniq[:6], search=search,
        trusted_base=core.BASE_TRUST + [
            'PARTIAL: Model/Isolation.v is a footprint model (global state x per-document states, a step writes its own '
            'document only); that the implementation has this footprint is MEASURED on every run: module-level state '
            '(collada module globals, class dictionaries and class-level defaults, function defaults, the element factory, '
            'xml.etree namespace registry, numpy print/err state) deep-hashed around every step, object graphs of distinct '
            'documents identity-disjoint, every observation equal to a solo run in a fresh process',
            'thread runs: 8 threads, barriers before every step, switch interval 1e-6 s; CPython scheduling is sampled, not modelled',
        ],
        assumptions=['documents handled by different threads are distinct objects (the property does not cover sharing one document)',
                     'collada.asset is given a fixed clock by the worker (documents without <created> otherwise differ run to run)'],
        extra={'level_honest': 'partial: theorem over an abstract footprint model; footprint and schedules measured on every run'})


def replay(ctx, body):
    payload = body.get('input') or (body.get('mismatching_cases') or [{}])[0].get('input')
    progs = payload['progs']
    solo = run_many([{'mode': 'solo', 'prog': p} for p in progs])
    fails = []
    for s in solo:
        if 'crashed' in s:
            fails.append({'clause': 'crash-or-hang', 'site': 'solo', 'what': s['crashed'][-200:]})
    if not fails and payload['mode'] != 'solo':
        for _ in range(3 if payload['mode'] == 'threads' else 1):
            res = run_mode(payload, timeout=600)
            fails = evaluate(progs, solo, payload, res)
            if fails:
                break
    print(json.dumps(fails, indent=1)[:3000])
    if fails:
        print('VIOLATION property=C20 replay=%s' % body.get('replay_cmd', '').split()[-1])
        return 1
    print('replay: every observation equals the solo run, module-level state constant, nothing shared')
    return 0
