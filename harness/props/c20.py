"""C20 - documents are isolated from one another (PARTIAL: footprints and schedules are measured)."""
import json
import os
from concurrent.futures import ThreadPoolExecutor

from harness import core
from harness.core import cN, clist, ctuple, cnat
from harness.props import c17 as P17

HEADER = ('From Coq Require Import List NArith Arith Bool.\n'
          'From PC Require Import Base.Libs Model.Isolation Check.C20.\n'
          'Import ListNotations.\n')
CASE_TYPE = 'C20.case'

NS141 = 'http://www.collada.org/2005/11/COLLADASchema'
NS150 = 'http://www.collada.org/2008/03/COLLADASchema'
MASKS = [None, None, ['DaeError'], ['DaeBrokenRefError'], ['DaeIncompleteError', 'DaeMalformedError'],
         ['DaeUnsupportedError']]
DAMAGE = ['none', 'none', 'none', 'broken_ref', 'missing_p', 'bad_float', 'truncated', 'unknown_semantic',
          'bad_index', 'no_accessor', 'bad_material_ref', 'degenerate_lookat', 'degenerate_lookat', 'zero_rotate_axis']
MASK_FOR = {'broken_ref': ['DaeBrokenRefError'], 'missing_p': ['DaeIncompleteError'], 'bad_float': ['DaeMalformedError'],
            'truncated': ['DaeMalformedError'], 'unknown_semantic': ['DaeUnsupportedError'], 'bad_index': ['DaeMalformedError'],
            'no_accessor': ['DaeIncompleteError'], 'bad_material_ref': ['DaeBrokenRefError'],
            'degenerate_lookat': ['DaeMalformedError'], 'zero_rotate_axis': ['DaeMalformedError']}
EDITS = ['rename_geometry', 'add_node', 'add_geometry', 'add_primitive_semantic', 'add_primitive_semantic', 'add_primitive', 'add_primitive', 'add_primitive', 'add_primitive', 'effect_color', 'add_effect', 'ignore', 'remove_geometry',
         'asset', 'scale_vertices', 'scale_vertices', 'query', 'query', 'query']


# ------------------------------------------------------------------ documents

def make_xml(rng, ns, damage, direct_texture=None, image_name=None, foreign=None):
    """a small document in namespace ns.  Ids come from a tiny alphabet shared by all documents
    (geom0, effect0, ...) while the data differ, so that anything keyed by id across documents shows."""
    nv = rng.randint(3, 6)
    verts = ' '.join(str(rng.randint(-9, 9)) for _ in range(3 * nv))
    if damage == 'bad_float':
        verts = verts + ' abc'
    ntri = rng.randint(1, 3)
    top = nv + 5 if damage == 'bad_index' else nv
    idx = ' '.join(str(rng.randrange(top) if damage == 'bad_index' and t == 0 else rng.randrange(nv))
                   for t in range(3 * ntri))
    if damage == 'bad_index':
        idx = str(nv + 3) + idx[idx.index(' '):] if ' ' in idx else str(nv + 3)
    gid = 'geom%d' % rng.randint(0, 1)
    sid = '%s-pos%d' % (gid, rng.randint(0, 3))     # same geometry id, different source ids
    eid = 'effect%d' % rng.randint(0, 1)
    mid = 'material%d' % rng.randint(0, 1)
    col = ' '.join(str(rng.choice([0, 0.25, 0.5, 1])) for _ in range(4))
    accessor = ('<technique_common><accessor source="#%s-array" count="%d" stride="3"><param name="X" type="float"/>'
                '<param name="Y" type="float"/><param name="Z" type="float"/></accessor></technique_common>' % (sid, nv))
    if damage == 'no_accessor':
        accessor = ''
    extra_input = ('<input semantic="%s" source="#%s" offset="0"/>' % (foreign or rng.choice(['WEIRD', 'WEIGHT', 'JOINT']), sid)
                   if damage == 'unknown_semantic' else '')
    p = '' if damage == 'missing_p' else '<p>%s</p>' % idx
    use_poly = rng.random() < 0.5 and damage not in ('missing_p',)
    if use_poly:
        prim = ('<polylist count="%d" material="sym0"><input semantic="VERTEX" source="#%s-vtx" offset="0"/>%s'
                '<vcount>%s</vcount>%s</polylist>' % (ntri, gid, extra_input, ' '.join(['3'] * ntri), p))
    else:
        prim = ('<triangles count="%d" material="sym0"><input semantic="VERTEX" source="#%s-vtx" offset="0"/>%s%s</triangles>'
                % (ntri, gid, extra_input, p))
    url = '#nope' if damage == 'broken_ref' else '#' + gid
    target = '#nomat' if damage == 'bad_material_ref' else '#' + mid
    tx = rng.randint(-5, 5)
    # numerically degenerate content: transforms without an orientation, zero-area triangles
    numeric = ''
    if damage == 'degenerate_lookat':
        numeric = rng.choice(['<lookat>1 2 3 1 2 3 0 1 0</lookat>', '<lookat>1 2 3 0 0 0 0 0 0</lookat>',
                              '<lookat>0 5 0 0 0 0 0 1 0</lookat>'])
    elif damage == 'zero_rotate_axis':
        numeric = '<rotate>0 0 0 45</rotate>'
    elif rng.random() < 0.2:
        numeric = '<lookat>%d 2 3 0 0 0 0 1 0</lookat>' % rng.randint(1, 4)
    if rng.random() < 0.35 and damage != 'bad_index':
        idx = ' '.join(['0 0 1'] + idx.split()[3:])      # a triangle without area (and the mesh has no normals)
    if direct_texture is None:
        direct_texture = rng.random() < 0.25
    image = direct_texture or image_name is not None or rng.random() < 0.4
    # an effect that names the image directly (no surface/sampler params): the library makes the
    # surface and sampler up, ids included
    diffuse = ('<texture texture="img0" texcoord="TEX0"/>' if direct_texture else '<color>%s</color>' % col)
    xml = '''<?xml version="1.0" encoding="utf-8"?>
<COLLADA xmlns="%(ns)s" version="1.4.1">
 %(asset)s
 %(images)s
 <library_effects><effect id="%(eid)s"><profile_COMMON><technique sid="common"><phong>
   <diffuse>%(diffuse)s</diffuse><shininess><float>%(shin)d</float></shininess></phong></technique></profile_COMMON></effect></library_effects>
 <library_materials><material id="%(mid)s" name="m"><instance_effect url="#%(eid)s"/></material></library_materials>
 <library_geometries><geometry id="%(gid)s" name="g"><mesh>
   <source id="%(sid)s"><float_array id="%(sid)s-array" count="%(nf)d">%(verts)s</float_array>%(accessor)s</source>
   <vertices id="%(gid)s-vtx"><input semantic="POSITION" source="#%(sid)s"/></vertices>
   %(prim)s
 </mesh></geometry></library_geometries>
 <library_visual_scenes><visual_scene id="scene0"><node id="node0" name="n"><translate>%(tx)d 0 1</translate>%(numeric)s
   <instance_geometry url="%(url)s"><bind_material><technique_common><instance_material symbol="sym0" target="%(target)s"/></technique_common></bind_material></instance_geometry>
 </node>%(node2)s</visual_scene></library_visual_scenes>
 <scene><instance_visual_scene url="#scene0"/></scene>
</COLLADA>
''' % {'ns': ns, 'sid': sid, 'numeric': numeric, 'eid': eid, 'mid': mid, 'gid': gid, 'col': col, 'shin': rng.randint(1, 50), 'nf': 3 * nv, 'verts': verts,
       'asset': '' if rng.random() < 0.3 else '<asset><created>2020-01-02T03:04:05</created><modified>2020-01-02T03:04:05</modified><up_axis>Z_UP</up_axis></asset>',
       'node2': '<node id="node%d" name="second"><scale>1 %d 1</scale><instance_node url="#node%d"/></node>'
                % (rng.randint(1, 2), rng.randint(1, 3), rng.choice([0, 0, 1, 2])) if rng.random() < 0.4 else '',
       'accessor': accessor, 'prim': prim, 'tx': tx, 'url': url, 'target': target,
       'diffuse': diffuse,
       'images': '<library_images><image id="img0" name="img0"><init_from>%s</init_from></image></library_images>'
                 % (image_name or './t%d.png' % rng.randint(0, 3)) if image else ''}
    if damage == 'truncated':
        xml = xml[:len(xml) * 2 // 3]
    return xml


def make_minimal_xml(rng, ns):
    """scene-only document (nodes, transforms, optionally a camera): the kind the current tree can
    also WRITE when its namespace is not the 1.4.1 one"""
    def node(depth, counter):
        counter[0] += 1
        tr = ''.join(rng.choice(['<translate>%d %d 1</translate>' % (rng.randint(-3, 3), rng.randint(0, 4)),
                                 '<rotate>0 0 1 %d</rotate>' % rng.choice([0, 90, 30]),
                                 '<scale>1 %d 1</scale>' % rng.randint(1, 3)]) for _ in range(rng.randint(0, 3)))
        kids = ''.join(node(depth + 1, counter) for _ in range(rng.choice([0, 0, 1, 2]) if depth < 2 else 0))
        inst = '<instance_camera url="#cam0"/>' if cam and rng.random() < 0.5 else ''
        if rng.random() < 0.35:
            # instance of a node by id: an own top-level node, a library node, or an id this document
            # does not define (ids come from the alphabet every document uses)
            inst += '<instance_node url="#%s"/>' % rng.choice(['node0', 'node1', 'node2', 'libnode0'])
        return '<node id="node%d" name="n%d">%s%s%s</node>' % (counter[0] % 3, counter[0], tr, inst, kids)
    cam = rng.random() < 0.5
    c = [0]
    nodes = ''.join(node(0, c) for _ in range(rng.randint(1, 3)))
    return '''<?xml version="1.0" encoding="utf-8"?>
<COLLADA xmlns="%s" version="1.5.0">
 <asset><created>2020-01-02T03:04:05</created><modified>2020-01-02T03:04:05</modified><up_axis>Y_UP</up_axis></asset>
 %s
 %s
 <library_visual_scenes><visual_scene id="scene0">%s</visual_scene></library_visual_scenes>
 <scene><instance_visual_scene url="#scene0"/></scene>
</COLLADA>
''' % (ns, '<library_nodes><node id="libnode0" name="lib"><translate>%d 0 0</translate></node></library_nodes>' % rng.randint(1, 9)
       if rng.random() < 0.4 else '', '<library_cameras><camera id="cam0"><optics><technique_common><perspective><xfov>%d</xfov><znear>1</znear>'
             '<zfar>10</zfar></perspective></technique_common></optics></camera></library_cameras>' % rng.randint(30, 60) if cam else '',
       nodes)


def make_deep_xml(rng, ns, depth):
    """a chain of nested nodes `depth` levels deep (plus side branches) with erroneous instances at
    the bottom and half way down, so that errors are handled deep inside the recursion"""
    bad = rng.choice(['<instance_geometry url="#nope"/>', '<instance_camera url="#nocam"/>', '<instance_light url="#nolight"/>'])
    mid = depth // 2
    head, tail = [], []
    for d in range(depth):
        extra = ''
        if d == mid:
            extra = bad
        if d % 50 == 7:
            extra += '<node id="side%d"><translate>%d 0 0</translate></node>' % (d, rng.randint(0, 5))
        head.append('<node id="deep%d" name="d%d"><translate>%d 0 1</translate>%s' % (d % 3, d, rng.randint(0, 3), extra))
        tail.append('</node>')
    return '''<?xml version="1.0" encoding="utf-8"?>
<COLLADA xmlns="%s" version="1.4.1">
 <asset><created>2020-01-02T03:04:05</created><modified>2020-01-02T03:04:05</modified><up_axis>Y_UP</up_axis></asset>
 <library_visual_scenes><visual_scene id="scene0">%s%s%s</visual_scene></library_visual_scenes>
 <scene><instance_visual_scene url="#scene0"/></scene>
</COLLADA>
''' % (ns, ''.join(head), bad, ''.join(tail))


def gen_deep_prog(rng, idx):
    ns = rng.choice([NS141, NS141, NS150])
    depth = rng.randint(250, 390) if rng.random() < 0.6 else rng.randint(560, 700)   # well below / well above what 1000 frames allow
    src = {'kind': 'xml', 'xml': make_deep_xml(rng, ns, depth), 'ns': ns, 'damage': 'deep-%d' % depth, 'deep': depth}
    return {'name': 'p%d' % idx, 'source': src, 'ignore': [rng.choice(['GatedDaeError', 'GatedDaeError', 'GatedDaeBrokenRefError'])],
            'steps': [['load'], ['snap']] + ([['save']] if rng.random() < 0.4 else [])}


def gen_small_prog(rng, idx):
    """a small document whose load records errors (unsupported input semantic, broken references),
    with and without a mask: the material of long batches in which documents are dropped"""
    ns = rng.choice([NS141, NS141, NS150])
    damage = rng.choice(['unknown_semantic', 'unknown_semantic', 'unknown_semantic', 'broken_ref', 'bad_material_ref', 'none'])
    src = {'kind': 'xml', 'xml': make_xml(rng, ns, damage, direct_texture=False), 'ns': ns, 'damage': damage}
    mask = rng.choice([None, None, ['DaeUnsupportedError'], ['DaeError'], ['DaeBrokenRefError']])
    return {'name': 'p%d' % idx, 'source': src, 'ignore': mask,
            'steps': [['load'], rng.choice([['snap'], ['edit', 'query', 0], ['edit', 'add_primitive_semantic', rng.randint(0, 3)]])]}


def gen_archive_prog(rng, idx):
    """a zip archive or a directory with the document and its texture: the member/file names are
    the same in every archive and directory, the texture bytes are not"""
    ns = rng.choice([NS141, NS141, NS141, NS150])
    xml = make_xml(rng, ns, 'none', direct_texture=rng.random() < 0.5, image_name=rng.choice(['tex.png', 'tex.png', './textures/a.png']))
    name = 'tex.png' if 'tex.png' in xml else 'textures/a.png'
    src = {'kind': rng.choice(['zip', 'zip', 'dir']), 'member': 'doc.dae', 'xml': xml, 'ns': ns, 'damage': 'none',
           'aux': {name: 'texture-bytes-%d-%d' % (idx, rng.randint(0, 10 ** 6))}}
    steps = [['load']] + [rng.choice([['edit', 'query', 0], ['edit', 'query', 0], ['save'], ['snap'], ['edit', 'effect_color', 1]])
                          for _ in range(rng.randint(1, 3))] + [['edit', 'query', 0]]
    return {'name': 'p%d' % idx, 'source': src, 'ignore': rng.choice(MASKS), 'steps': steps}


def gen_steps(rng, n):
    steps = [['load']]
    for _ in range(n):
        r = rng.random()
        if r < 0.08:
            steps.append(['save_path'])
        elif r < 0.3:
            steps.append(['save'])
        elif r < 0.4:
            steps.append(['snap'])
        else:
            steps.append(['edit', rng.choice(EDITS), rng.randint(0, 9)])
    if rng.random() < 0.5:
        steps.append(['edit', 'query', 0])
    if rng.random() < 0.7:
        steps.append(['save'])
    return steps


def gen_prog(rng, idx):
    r = rng.random()
    if r < 0.72:
        ns = rng.choice([NS141, NS141, NS150, NS150, 'urn:x-verif:%d' % rng.randint(0, 99), 'http://example.org/ns/%d' % rng.randint(0, 9)])
        if rng.random() < (0.45 if ns != NS141 else 0.15):
            src = {'kind': 'xml', 'xml': make_minimal_xml(rng, ns), 'ns': ns, 'damage': 'none', 'minimal': True}
            steps = [['load']] + [rng.choice([['save'], ['save'], ['snap'], ['edit', 'asset', rng.randint(0, 9)],
                                              ['edit', 'add_node', rng.randint(0, 9)], ['edit', 'query', 0]])
                                  for _ in range(rng.randint(1, 4))] + [['save']]
            return {'name': 'p%d' % idx, 'source': src, 'ignore': rng.choice(MASKS), 'steps': steps}
        damage = rng.choice(DAMAGE) if rng.random() < 0.6 else 'none'
        src = {'kind': 'xml', 'xml': make_xml(rng, ns, damage), 'ns': ns, 'damage': damage}
        # damaged documents mostly with a mask that lets (part of) them load, sometimes not
        mask = rng.choice(MASKS) if damage == 'none' or rng.random() < 0.35 else rng.choice([['DaeError'], ['DaeError'], MASK_FOR[damage]])
        return {'name': 'p%d' % idx, 'source': src, 'ignore': mask, 'steps': gen_steps(rng, rng.randint(1, 6))}
    elif r < 0.84:
        src = {'kind': 'file', 'file': rng.choice(['duck_triangles.dae', 'duck_polylist.dae', 'duck.zip', 'wam.dae',
                                                  'cube_tristrips.dae', 'empty_triangles_with_multiple_ns.dae',
                                                  'tristrips.dae'])}
    else:
        spec = P17.gen_doc(rng)
        while spec['kind'] == 'file':
            spec = P17.gen_doc(rng)
        src = {'kind': 'ctor', 'spec': spec}
    return {'name': 'p%d' % idx, 'source': src, 'ignore': rng.choice(MASKS), 'steps': gen_steps(rng, rng.randint(1, 6))}


def gen_schedule(rng, progs):
    """a random interleaving of the programs' step sequences (each program's steps in order)"""
    left = [len(p['steps']) for p in progs]
    sched = []
    mode = rng.choice(['uniform', 'uniform', 'bursty', 'sequential', 'round_robin'])
    if mode == 'sequential':
        order = list(range(len(progs)))
        rng.shuffle(order)
        for i in order:
            sched += [i] * left[i]
        return sched
    if mode == 'round_robin':
        while any(left):
            for i in range(len(progs)):
                if left[i]:
                    sched.append(i)
                    left[i] -= 1
        return sched
    cur = None
    while any(left):
        live = [i for i in range(len(progs)) if left[i]]
        if mode == 'bursty' and cur in live and rng.random() < 0.6:
            i = cur
        else:
            i = rng.choice(live)
        cur = i
        sched.append(i)
        left[i] -= 1
    return sched


# ------------------------------------------------------------------ running

TIMES = []


def run_mode(payload, timeout=300):
    import time
    t = time.time()
    try:
        try:
            return core.run_impl('c20', payload, timeout=timeout)
        except RuntimeError:
            # a worker that died is started once more (a source file being rewritten under it is
            # not a finding); a crash that repeats, a hang or running out of memory is one
            time.sleep(2)
            return core.run_impl('c20', payload, timeout=timeout)
    except Exception as e:  # noqa  (crash, hang, memory)
        return {'crashed': str(e)[-400:]}
    finally:
        TIMES.append((round(time.time() - t, 1), payload['mode'], len(payload.get('progs', [])), payload.get('rounds')))


def run_many(payloads, timeout=300):
    with ThreadPoolExecutor(max_workers=core.NCPU) as ex:
        return list(ex.map(lambda p: run_mode(p, timeout), payloads))


class Interner(object):
    def __init__(self):
        self.t = {}

    def __call__(self, s):
        if s not in self.t:
            self.t[s] = 1000 + len(self.t)
        return self.t[s]


DCLS = {'DaeError': 'K_DaeError', 'DaeIncompleteError': 'K_DaeIncompleteError', 'DaeBrokenRefError': 'K_DaeBrokenRefError',
        'DaeMalformedError': 'K_DaeMalformedError', 'DaeUnsupportedError': 'K_DaeUnsupportedError'}


def mask_of_obs(o):
    for el in o:
        if isinstance(el, list) and el and isinstance(el[-1], str) and el[-1].startswith('caller-lists:'):
            return el[:-1]
    return None


def mask_observations(progs, per_doc_obs):
    """for the concrete step model: per document the ignoreErrors arguments in order and the mask seen last"""
    out = []
    for p, obs in zip(progs, per_doc_obs):
        names = p.get('ignore') or []
        if any(n not in DCLS for n in names) or not obs or obs[0][0] == 'raised':
            continue
        calls = [list(names)] if names else []
        last = None
        for st, o in zip(p['steps'], obs):
            if st[:2] == ['edit', 'ignore'] and o[0] == 'ok':
                calls.append(['DaeMalformedError' if st[2] % 2 else 'DaeUnsupportedError'])
            m = mask_of_obs(o)
            if m is not None:
                last = m
        if last is not None and all(n in DCLS for n in last):
            out.append((calls, last))
    return out


def c_case(ndocs, sched_obs, solo, gl, nshared, masks=()):
    I = Interner()
    return ctuple(cnat(ndocs),
                  clist([ctuple(cnat(i), cN(I(d))) for i, d in sched_obs]),
                  clist([clist([cN(I(d)) for d in s]) for s in solo]),
                  clist([ctuple(cN(I(a)), cN(I(b))) for a, b in gl]),
                  cnat(nshared),
                  clist([ctuple(clist([clist([DCLS[n] for n in c]) for c in calls]), clist([DCLS[n] for n in last]))
                         for calls, last in masks]))


def short_prog(p):
    q = dict(p)
    s = dict(p['source'])
    if s['kind'] in ('xml', 'zip', 'dir'):
        s = {'kind': s['kind'], 'ns': s.get('ns'), 'damage': s.get('damage'), 'xml_len': len(s['xml']), 'aux': s.get('aux')}
    elif s['kind'] == 'ctor':
        s = {'kind': 'ctor'}
    q['source'] = s
    return q


def evaluate(progs, solo, sched_payload, res):
    """direct oracle on one schedule/thread result: the list of failures"""
    fails = []
    if 'crashed' in res:
        return [{'clause': 'crash-or-hang', 'site': sched_payload['mode'], 'what': 'worker crashed or hung: ' + res['crashed'][-200:]}]
    if sched_payload['mode'] == 'batch':
        for n, inst in enumerate(res['instances']):
            want = solo[inst['prog']]['steps']
            for k, (s, w) in enumerate(zip(inst['steps'], want)):
                if s['digest'] != w['digest']:
                    step = progs[inst['prog']]['steps'][k]
                    fails.append({'clause': 'differs-from-solo', 'site': 'batch:%s:%s' % (step_name(step), first_difference(w['obs'], s['obs'])),
                                  'what': 'document number %d of a sequential batch (earlier documents dropped), step %d (%s), observed %s but %s alone'
                                          % (n, k, step_name(step), json.dumps(s['obs'])[:160], json.dumps(w['obs'])[:160])})
                    return fails
        return fails
    if sched_payload['mode'] == 'sched':
        at = [0] * len(progs)
        for s in res['steps']:
            i = s['doc']
            k = at[i]
            at[i] += 1
            want = solo[i]['steps'][k]
            if s['digest'] != want['digest']:
                step = progs[i]['steps'][k]
                field = first_difference(want['obs'], s['obs'])
                fails.append({'clause': 'differs-from-solo', 'site': '%s:%s' % (step_name(step), field),
                              'what': 'document %d step %d (%s) observed %s in the schedule but %s alone'
                                      % (i, k, step_name(step), json.dumps(s['obs'])[:160], json.dumps(want['obs'])[:160])})
                break
    else:
        rounds_ = res['rounds'] if sched_payload['mode'] == 'threads' else [res]
        label = 'threads' if sched_payload['mode'] == 'threads' else 'overlap'
        for rnd in rounds_:
            for c in rnd['crashes'][:1]:
                fails.append({'clause': 'crash-or-hang', 'site': 'thread:' + c[1], 'what': 'thread of document %d died: %s %s' % tuple(c)})
            for i, rs in enumerate(rnd['results']):
                for k, s in enumerate(rs):
                    want = solo[i]['steps'][k]
                    if s['digest'] != want['digest']:
                        step = progs[i]['steps'][k]
                        fails.append({'clause': 'differs-from-solo', 'site': '%s:%s:%s' % (label, step_name(step), first_difference(want['obs'], s['obs'])),
                                      'what': '%s: document %d step %d (%s) observed %s but %s alone'
                                              % ('under threads' if label == 'threads' else 'while document 0 was parked inside step %s at %s'
                                                 % (sched_payload.get('gate_step'), rnd.get('where')), i, k, step_name(step),
                                                 json.dumps(s['obs'])[:160], json.dumps(want['obs'])[:160])})
                        break
                if fails:
                    break
            if fails:
                break
    return fails


def step_name(step):
    return step[0] if step[0] != 'edit' else 'edit-' + step[1]


FIELDS = ['outcome', 'snapshot', 'errors', 'mask', 'tag', 'ids', 'query-results']


def first_difference(a, b):
    """which part of the observation differs (for a narrow signature)"""
    if a[:1] != b[:1]:
        return 'outcome'
    if a[0] == 'raised':
        if a[1] != b[1]:
            return 'exception-class'
        if a[2] != b[2]:
            return 'exception-message'
        a, b = a[3:], b[3:]
    elif a[0] == 'bytes':
        if a[1:3] != b[1:3]:
            return 'written-bytes'
        a, b = a[3:], b[3:]
    else:
        a, b = a[1:], b[1:]
    for n, x, y in zip(FIELDS[1:], a, b):
        if x != y:
            return n
    return 'other'


def run(ctx):
    build_ok, obl, regen = P17.setup_with_retry(ctx)
    quick = ctx.quick()
    rng = ctx.rng
    nprog = 60 if quick else 400
    nsched = 120 if quick else 2000
    nthread = 16 if quick else 100
    rounds = 6 if quick else 10
    progs = [gen_prog(rng, i) for i in range(nprog)]
    # the same source handled by several programs with different histories (anything keyed by
    # file name, text or id across documents shows), and groups of 8 programs with one common
    # step shape so that like steps (loads, saves, queries) overlap in the threaded runs
    for i in range(nprog // 6):
        j = rng.randrange(len(progs))
        progs.append(dict(progs[j], name='p%d' % len(progs), ignore=rng.choice([progs[j]['ignore'], rng.choice(MASKS)]),
                          steps=gen_steps(rng, rng.randint(2, 6))))
    for _ in range(nprog // 6):
        progs.append(gen_archive_prog(rng, len(progs)))
    # every foreign input semantic of the alphabet: a document carrying it (loaded with the error
    # ignored, its input lists taken) and a valid document edited through a fresh InputList naming it
    sem_pairs = []
    for si, sem in [(0, 'WEIRD'), (2, 'WEIGHT'), (3, 'JOINT')]:
        a = {'name': 'p%d' % len(progs), 'ignore': rng.choice([['DaeUnsupportedError'], ['DaeError']]),
             'source': {'kind': 'xml', 'xml': make_xml(rng, NS141, 'unknown_semantic', direct_texture=False, foreign=sem),
                        'ns': NS141, 'damage': 'unknown_semantic'},
             'steps': [['load'], ['edit', 'query', 0], ['save']]}
        progs.append(a)
        b = {'name': 'p%d' % len(progs), 'ignore': None,
             'source': {'kind': 'xml', 'xml': make_xml(rng, NS141, 'none', direct_texture=False), 'ns': NS141, 'damage': 'none'},
             'steps': [['load'], ['edit', 'add_primitive_semantic', si], ['save']]}
        progs.append(b)
        sem_pairs.append((len(progs) - 2, len(progs) - 1))
    small = []
    for _ in range(8 if quick else 16):
        small.append(len(progs))
        progs.append(gen_small_prog(rng, len(progs)))
    deep = []
    for _ in range(8 if quick else 24):
        deep.append(len(progs))
        progs.append(gen_deep_prog(rng, len(progs)))
    shapes = [[['load'], ['save'], ['edit', 'query', 0], ['save']],
              [['load'], ['edit', 'add_node', 1], ['edit', 'add_primitive', 1], ['save'], ['edit', 'add_geometry', 2],
               ['edit', 'scale_vertices', 1], ['save']],
              [['load'], ['edit', 'ignore', 1], ['edit', 'query', 0], ['edit', 'add_primitive_semantic', 0],
               ['edit', 'add_effect', 3], ['save']]]
    groups = []
    for shape in shapes[:(3 if nprog >= 60 else 1)]:
        grp = []
        for _ in range(8):
            q = gen_prog(rng, len(progs))
            q['steps'] = [list(x) for x in shape]
            grp.append(len(progs))
            progs.append(q)
        groups.append(grp)
    groups.append(deep[:8])
    writers_grp = []
    for n in range(8):
        q = gen_prog(rng, len(progs))
        kind = n % 4
        if kind == 0:
            q['source'] = {'kind': 'file', 'file': rng.choice(['duck_triangles.dae', 'duck_polylist.dae', 'duck.zip'])}
            q['ignore'] = None
        elif kind == 1:
            q = gen_deep_prog(rng, len(progs))
            q['source'] = dict(q['source'], xml=make_deep_xml(rng, NS141, rng.randint(250, 380)))
            q['name'] = 'p%d' % len(progs)
        q['steps'] = [['load'], ['save_path'], ['edit', 'asset', n], ['save_path'], ['save']]
        writers_grp.append(len(progs))
        progs.append(q)
    groups.append(writers_grp)
    groups.append(writers_grp)
    nprog = len(progs)
    ctx.log('solo runs: %d document programs, one fresh process each' % nprog)
    solo = run_many([{'mode': 'solo', 'prog': p} for p in progs])
    usable = [i for i, s in enumerate(solo) if 'crashed' not in s]
    failures = []
    for i, s in enumerate(solo):
        if 'crashed' in s:
            failures.append({'signature': 'C20:crash-or-hang:solo', 'clause': 'crash-or-hang',
                             'what': 'solo run crashed: ' + s['crashed'][-200:],
                             'input': {'mode': 'solo', 'progs': [progs[i]]}})
    # determinism of the solo observations themselves (a second fresh process)
    again = run_many([{'mode': 'solo', 'prog': progs[i]} for i in usable[:12]])
    for i, s in zip(usable[:12], again):
        if 'crashed' not in s and [x['digest'] for x in s['steps']] != [x['digest'] for x in solo[i]['steps']]:
            ctx.log('WARNING: solo observations of program %d are not reproducible; it is not used' % i)
            usable.remove(i)
    payloads = []
    for _ in range(nsched):
        k = rng.choice([2, 2, 3, 3, 4, 5])
        pick = [rng.choice(usable) for _ in range(k)]
        ps = [progs[i] for i in pick]
        payloads.append(({'mode': 'sched', 'progs': ps, 'schedule': gen_schedule(rng, ps)}, pick))
    for t in range(nthread):
        if t % 2 == 0 and groups and all(i in usable for i in groups[(t // 2) % len(groups)]):
            pick = list(groups[(t // 2) % len(groups)])
        else:
            pick = [rng.choice(usable) for _ in range(8)]
        slow = sum(1 for i in pick if progs[i]['source'].get('deep'))
        payloads.append(({'mode': 'threads', 'progs': [progs[i] for i in pick], 'rounds': 2 if slow >= 4 else rounds}, pick))
    ngated = 120 if quick else 1500
    io_steps = lambda p: [k for k, st in enumerate(p['steps']) if st[0] in ('load', 'save') or st[:2] == ['edit', 'query']] or [0]
    writers = [i for i in usable if any(o['obs'][0] == 'bytes' for o in solo[i]['steps'])]
    foreign_writers = [i for i in writers if progs[i]['source'].get('ns') not in (None, NS141)]
    for n in range(ngated):
        # the parked document: half of the time one in another namespace whose write succeeds
        a = rng.choice(foreign_writers) if foreign_writers and n % 2 == 0 else rng.choice(usable)
        rest = [rng.choice(writers or usable) for _ in range(rng.choice([1, 1, 2]))]
        ks = io_steps(progs[a])
        saves = [k for k in ks if progs[a]['steps'][k][0] == 'save']
        k = rng.choice(saves) if saves and rng.random() < 0.6 else rng.choice(ks)
        pick = [a] + rest
        payloads.append(({'mode': 'gated', 'progs': [progs[i] for i in pick], 'gate_step': k}, pick))
    # two documents parked one inside the other's operation, released in either order: the first is
    # inside a load or a write when the second (deeply nested) one is parked deep inside its load
    for n in range(24 if quick else 200):
        a = rng.choice(usable)
        ks = io_steps(progs[a])
        b = rng.choice(deep)
        if b not in usable:
            continue
        pick = [a, b] + [rng.choice(usable) for _ in range(rng.choice([0, 1]))]
        payloads.append(({'mode': 'gated', 'progs': [progs[i] for i in pick], 'parked': 2, 'gate_step': [rng.choice(ks), 0],
                          'gate_where': [None, 'ignore.isinstance'], 'release': rng.choice(['fifo', 'fifo', 'lifo'])}, pick))
    for a, b in sem_pairs:
        if a in usable and b in usable:
            for sched_ in ([0, 0, 0, 1, 1, 1], [0, 1, 0, 1, 0, 1]):
                payloads.append(({'mode': 'sched', 'progs': [progs[a], progs[b]], 'schedule': sched_}, [a, b]))
    # long sequential batches in which every document is dropped before the next is loaded
    for n in range(3 if quick else 20):
        pool_ = [i for i in small if i in usable]
        if not pool_:
            break
        order = [rng.randrange(len(pool_)) for _ in range(200 if quick else 600)]
        payloads.append(({'mode': 'batch', 'progs': [progs[i] for i in pool_], 'order': order}, pool_))
    ndeep = 16 if quick else 120
    for n in range(ndeep):
        a = rng.choice(deep)
        rest = [rng.choice(deep) for _ in range(rng.choice([1, 2]))]
        if a in usable and all(r in usable for r in rest):
            pick = [a] + rest
            payloads.append(({'mode': 'gated', 'progs': [progs[i] for i in pick], 'gate_step': 0,
                              'gate_where': 'ignore.isinstance'}, pick))
    ctx.log('running %d sequential schedules, %d threaded runs (8 threads, %d rounds each) and %d gated overlaps'
            % (nsched, nthread, rounds, ngated))
    results = run_many([p for p, _ in payloads], timeout=600)
    terms, case_inputs = [], []
    dist = {'schedules': 0, 'threaded_runs': 0, 'thread_rounds': 0, 'steps': 0, 'loads_failed': 0, 'saves': 0,
            'saves_raised': 0, 'by_namespace': {}, 'by_damage': {}, 'by_mask': {}, 'by_source': {}}
    seen = set()
    for (payload, pick), res in zip(payloads, results):
        ps = payload['progs']
        sl = [solo[i] for i in pick]
        fs = evaluate(ps, sl, payload, res)
        for f in fs:
            failures.append({'signature': 'C20:%s:%s' % (f['clause'], f['site']), 'clause': f['clause'], 'what': f['what'],
                             'input': payload, 'detail': f})
        if 'crashed' in res:
            continue
        solo_d = [[x['digest'] for x in s['steps']] for s in sl]
        if payload['mode'] == 'sched':
            dist['schedules'] += 1
            sched_obs = [(s['doc'], s['digest']) for s in res['steps']]
            gl = [(s['g_before'], s['g_after']) for s in res['steps']]
            per_doc = [[] for _ in ps]
            for st_ in res['steps']:
                per_doc[st_['doc']].append(st_['obs'])
            mo = mask_observations(ps, per_doc)
            dist['mask_model_comparisons'] = dist.get('mask_model_comparisons', 0) + len(mo)
            terms.append(c_case(len(ps), sched_obs, solo_d, gl, len(res['shared']), mo))
            case_inputs.append((payload, {'global_changes': res.get('global_changes', [])[:3], 'shared': res['shared'][:3]}))
            dist['steps'] += len(sched_obs)
            if len(ps) >= 2 and len(set(payload['schedule'])) >= 2:
                seen.add(core.canon_hash([[p['name'] for p in ps], payload['schedule']]))
        elif payload['mode'] == 'batch':
            dist['batches'] = dist.get('batches', 0) + 1
            dist['batch_documents'] = dist.get('batch_documents', 0) + len(res['instances'])
            insts = res['instances']
            sched_obs = [(n, x['digest']) for n, inst in enumerate(insts) for x in inst['steps']]
            solo_inst = [solo_d[inst['prog']] for inst in insts]
            terms.append(c_case(len(insts), sched_obs, solo_inst, [tuple(g) for g in res['globals']], 0))
            case_inputs.append((payload, {}))
            dist['steps'] += len(sched_obs)
            seen.add(core.canon_hash(['batch', payload['order'][:50]]))
        elif payload['mode'] == 'gated':
            dist['gated_overlaps'] = dist.get('gated_overlaps', 0) + 1
            dist['gated_parked'] = dist.get('gated_parked', 0) + bool(res['parked'])
            w = 'parked_in:%s' % res.get('where')
            dist[w] = dist.get(w, 0) + 1
            a_ns = ps[0]['source'].get('ns')
            if res['parked'] and res.get('where') == 'sink.write' and a_ns not in (None, NS141) \
                    and any(x['obs'][0] == 'bytes' for rs in res['results'][1:] for x in rs):
                dist['gated_foreign_write_in_flight_while_other_writes'] = dist.get('gated_foreign_write_in_flight_while_other_writes', 0) + 1
            kA = payload['gate_step']
            sched_obs = [(i, x['digest']) for i, rs in enumerate(res['results']) for x in rs]
            terms.append(c_case(len(ps), sched_obs, solo_d, [tuple(g) for g in res['globals']], len(res['shared']) + len(res['crashes'])))
            case_inputs.append((payload, {'global_changes': res.get('global_changes', [])[:3], 'shared': res['shared'][:3],
                                          'parked_in': res.get('where')}))
            dist['steps'] += len(sched_obs)
            if res['parked']:
                seen.add(core.canon_hash(['gated', [p['name'] for p in ps], kA, payload.get('parked'), payload.get('release')]))
        else:
            dist['threaded_runs'] += 1
            for rnd in res['rounds']:
                dist['thread_rounds'] += 1
                sched_obs = [(i, x['digest']) for i, rs in enumerate(rnd['results']) for x in rs]
                gl = [(g, g) for g in rnd['globals']]
                if rnd['globals']:
                    gl = [(rnd['globals'][0], g) for g in rnd['globals']]
                terms.append(c_case(len(ps), sched_obs, solo_d, gl, len(rnd['shared']) + len(rnd['crashes'])))
                case_inputs.append((payload, {'global_digests_at_barriers': len(set(rnd['globals'])), 'shared': rnd['shared'][:3]}))
                dist['steps'] += len(sched_obs)
            seen.add(core.canon_hash(['threads', [p['name'] for p in ps]]))
    for p, s in zip(progs, solo):
        src = p['source']
        dist['by_source'][src['kind']] = dist['by_source'].get(src['kind'], 0) + 1
        if src['kind'] in ('xml', 'zip', 'dir'):
            nsk = {NS141: '1.4.1', NS150: '1.5'}.get(src['ns'], 'other-uri')
            dist['by_namespace'][nsk] = dist['by_namespace'].get(nsk, 0) + 1
            dist['by_damage'][src['damage']] = dist['by_damage'].get(src['damage'], 0) + 1
        dist['by_mask'][json.dumps(p['ignore'])] = dist['by_mask'].get(json.dumps(p['ignore']), 0) + 1
        if 'crashed' in s:
            continue
        for st, o in zip(p['steps'], s['steps']):
            if st[0] == 'load' and o['obs'][0] == 'raised':
                dist['loads_failed'] += 1
            if st[0] == 'save':
                dist['saves'] += 1
                dist['saves_raised'] += o['obs'][0] == 'raised'
    ctx.log('slowest workers: %s' % sorted(TIMES, reverse=True)[:6])
    ctx.log('evaluating the projection comparison inside Coq (%d cases)' % len(terms))
    bad, errors = P17.eval_with_retry(ctx, HEADER, CASE_TYPE, terms, 'C20.mismatches', 60)
    mismatches = [{'case_index': i, 'input': case_inputs[i][0], 'footprint_measured': case_inputs[i][1],
                   'explained_by_known': False} for i in bad[:10]]
    # one failure per signature
    uniq, sigs = [], set()
    for f in failures:
        if f['signature'] not in sigs:
            sigs.add(f['signature'])
            uniq.append(f)
    corr = {
        'evaluations': len(terms),
        'distinct_nontrivial': len(seen),
        'rule': 'a case = one schedule: 2-5 document programs (load with an ignore mask, edits, saves, snapshots) interleaved '
                'in one process, or 8 programs in 8 threads with a barrier before every step (one case per round); every '
                'observation (snapshot digest, errors, mask, tag, ids, bytes written or exception) is compared with the '
                'program run alone in a fresh process; non-trivial = at least two documents actually interleaved; '
                'distinct = different (programs, schedule)',
        'samples': [{'programs': [short_prog(p) for p in payloads[j][0]['progs']], 'schedule': payloads[j][0].get('schedule')}
                    for j in range(min(2, len(payloads)))],
        'distribution': dist,
        'mismatches': mismatches,
        'errors': errors,
    }

    def search(mm):
        # the footprint (or a proof) broke without an observation differing from its solo run:
        # look harder - more interleavings and threaded rounds, preferring the programs involved
        involved = [p for m in mm for p in m['input']['progs']] or [progs[i] for i in usable]
        names = {p['name']: p for p in involved}
        pool = list(names.values()) + [progs[i] for i in usable[:20]]
        solo_of = {p['name']: s for p, s in zip(progs, solo)}
        extra = []
        for _ in range(200):
            ps = [rng.choice(pool) for _ in range(rng.choice([2, 3, 4]))]
            extra.append({'mode': 'sched', 'progs': ps, 'schedule': gen_schedule(rng, ps)})
        for _ in range(12):
            extra.append({'mode': 'threads', 'progs': [rng.choice(pool) for _ in range(8)], 'rounds': 8})
        for _ in range(150):
            a = rng.choice(pool)
            ks = [k for k, st in enumerate(a['steps']) if st[0] in ('load', 'save') or st[:2] == ['edit', 'query']]
            extra.append({'mode': 'gated', 'progs': [a, rng.choice(pool)], 'gate_step': rng.choice(ks)})
        found = []
        for payload, res in zip(extra, run_many(extra, timeout=600)):
            for f in evaluate(payload['progs'], [solo_of[p['name']] for p in payload['progs']], payload, res):
                found.append({'signature': 'C20:%s:%s' % (f['clause'], f['site']), 'clause': f['clause'], 'what': f['what'],
                              'input': payload, 'detail': f})
        return found[:6]

    return core.finish(
        ctx, obligations=obl, regen=regen, build_ok=build_ok, corr=corr, failures=uniq[:6], search=search,
        trusted_base=core.BASE_TRUST + [
            'PARTIAL: Model/Isolation.v is a footprint model (global state x per-document states, a step writes its own '
            'document only); that the implementation has this footprint is MEASURED on every run: module-level state '
            '(collada module globals, class dictionaries and class-level defaults, function defaults, the element factory, '
            'xml.etree namespace registry, numpy print/err state) deep-hashed around every step, object graphs of distinct '
            'documents identity-disjoint, every observation equal to a solo run in a fresh process',
            'thread runs: 8 threads, barriers before every step, switch interval 1e-6 s; CPython scheduling is sampled, not modelled',
        ],
        assumptions=['documents handled by different threads are distinct objects (the property does not cover sharing one document)',
                     'collada.asset is given a fixed clock by the worker (documents without <created> otherwise differ run to run)'],
        extra={'level_honest': 'partial: theorem over an abstract footprint model; footprint and schedules measured on every run'})


def replay(ctx, body):
    payload = body.get('input') or (body.get('mismatching_cases') or [{}])[0].get('input')
    progs = payload['progs']
    solo = run_many([{'mode': 'solo', 'prog': p} for p in progs])
    fails = []
    for s in solo:
        if 'crashed' in s:
            fails.append({'clause': 'crash-or-hang', 'site': 'solo', 'what': s['crashed'][-200:]})
    if not fails and payload['mode'] != 'solo':
        for _ in range(3 if payload['mode'] == 'threads' else 1):  # gated and sequential runs are deterministic
            res = run_mode(payload, timeout=600)
            fails = evaluate(progs, solo, payload, res)
            if fails:
                break
    print(json.dumps(fails, indent=1)[:3000])
    if fails:
        print('VIOLATION property=C20 replay=%s' % body.get('replay_cmd', '').split()[-1])
        return 1
    print('replay: every observation equals the solo run, module-level state constant, nothing shared')
    return 0
