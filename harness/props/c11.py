"""C11 - strip/fan expansion and polylist/polygons triangulation preserve geometry and winding."""
import itertools
import json
import os

from harness import core
from harness.core import cN, cZ, cnat, clist, copt, cbool

HEADER = ('From Coq Require Import List ZArith NArith.\n'
          'From PC Require Import Base.Outcome Base.Py Base.PySlice Base.NpProg Model.Strips Model.Triangulate Check.C11.\n'
          'Import ListNotations.\n')
CASE_TYPE = 'C11.case'
KINDS = ['tristrips', 'trifans', 'polylist', 'polygons']
FORMS = ['selfclose', 'empty', 'blank']


# ---------------------------------------------------------------- generators

def gen_inputs(rng, nind):
    """inputs of a primitive with stride nind: exactly one VERTEX, up to two NORMAL, up to three
    TEXCOORD inputs, sometimes a COLOR; offsets arbitrary (shared offsets happen), the largest is
    nind-1; document order arbitrary; the set numbers of the TEXCOORD (and NORMAL) inputs are
    arbitrary too: ascending, descending, with gaps, repeated or absent"""
    sems = ['VERTEX']
    r = rng.random()
    if r < 0.6:
        sems.append('NORMAL')
        if r < 0.1:
            sems.append('NORMAL')
    sems += ['TEXCOORD'] * rng.choice([0, 0, 1, 1, 2, 2, 3])
    if rng.random() < 0.2:
        sems.append('COLOR')
    while len(sems) < nind and rng.random() < 0.7:
        # wide strides usually come with as many inputs
        if 'NORMAL' not in sems:
            sems.append('NORMAL')
        elif sems.count('TEXCOORD') < 3:
            sems.append('TEXCOORD')
        elif 'COLOR' not in sems:
            sems.append('COLOR')
        else:
            break
    rng.shuffle(sems)
    offs = [rng.randrange(nind) for _ in sems]
    if rng.random() < 0.6 and len(sems) >= nind:
        perm = list(range(nind)) + [rng.randrange(nind) for _ in range(len(sems) - nind)]
        rng.shuffle(perm)
        offs = perm
    offs[rng.randrange(len(offs))] = nind - 1
    ntex = sems.count('TEXCOORD')
    style = rng.random()
    if style < 0.3:
        tsets = list(range(ntex))                       # ascending in listing order
    elif style < 0.6:
        tsets = list(range(ntex))
        rng.shuffle(tsets)                              # a permutation: set 1 listed before set 0 ...
    elif style < 0.8:
        tsets = rng.sample(range(0, 8), ntex)           # gaps, any order
    elif style < 0.9:
        tsets = [rng.choice([0, 1]) for _ in range(ntex)]   # repeated numbers
    else:
        tsets = [rng.choice([None, 0, 1, 2]) for _ in range(ntex)]
    inputs = []
    ti = 0
    for s_, o in zip(sems, offs):
        st = None
        if s_ == 'TEXCOORD':
            st = tsets[ti]
            ti += 1
        elif s_ == 'NORMAL' and rng.random() < 0.2:
            st = rng.choice([0, 1, 2])
        inputs.append([s_, o, st])
    return inputs


# ---- source data: every value is a small multiple of 1/4 (exact in float32) or +-inf

def outline(rng, n, dents=None):
    """n points of a closed outline in the plane: a strictly convex polygon (points of a parabola), in
    either orientation, started at any corner, with some corners pushed across the chord of their
    neighbours (reflex corners, darts, self-intersections), or collinear / partly coincident"""
    if n == 0:
        return []
    r = rng.random()
    if dents is None and r < 0.1:
        pts = [(float(i), 0.0) for i in range(n)]                     # collinear
    elif dents is None and r < 0.2:
        base = [(float(rng.randint(-2, 2)), float(rng.randint(-2, 2))) for _ in range(2)]
        pts = [rng.choice(base) for _ in range(n)]                       # coincident points
    else:
        pts = [(4.0 * i, 4.0 * i * i) for i in range(n)]
        if dents is None:
            dents = [i for i in range(n) if rng.random() < (0.5 if n <= 5 else 0.25)]
        if n >= 4:
            new = list(pts)
            for i in dents:
                a, b, p_ = pts[(i - 1) % n], pts[(i + 1) % n], pts[i]
                m = ((a[0] + b[0]) / 2, (a[1] + b[1]) / 2)
                new[i] = (m[0] + (m[0] - p_[0]) / 2, m[1] + (m[1] - p_[1]) / 2)
            pts = new
        if rng.random() < 0.5:
            pts = pts[::-1]
        k = rng.randrange(n)
        pts = pts[k:] + pts[:k]
    return pts


def embed(rng, pts):
    """put planar points into space: one of a few integer planes, with an integer translation"""
    m = rng.choice([((1, 0), (0, 1), (0, 0)), ((1, 0), (0, 0), (0, 1)), ((0, 0), (1, 0), (0, 1)),
                    ((1, 0), (0, 1), (1, -1)), ((1, 1), (1, -1), (0, 2))])
    t = [float(rng.randint(-3, 3)) for _ in range(3)]
    return [[m[c][0] * x + m[c][1] * y + t[c] for c in range(3)] for x, y in pts]


def rand_point(rng, mode):
    q = lambda lo, hi: rng.randint(4 * lo, 4 * hi) / 4.0   # noqa
    if mode == 'grid2d':
        return [float(rng.randint(-3, 3)), float(rng.randint(-3, 3)), 0.0]
    if mode == 'plane3d':
        x, y = rng.randint(-3, 3), rng.randint(-3, 3)
        return [float(x), float(y), float(x + 2 * y)]
    if mode == 'zero':
        return [0.0, 0.0, 0.0]
    return [q(-5, 5), q(-5, 5), q(-5, 5)]


POS_MODES = ['line', 'grid2d', 'grid2d', 'plane3d', 'space', 'space', 'few', 'zero', 'inf', 'shaped', 'shaped']


def gen_data(rng, nsrc, runs_vertex_labels, mode=None, dents=None):
    """tables for the sources: positions in one of several modes, normals and texture coordinates
    mostly distinct per label and per source, sometimes repeated / zero / infinite"""
    mode = mode or rng.choice(POS_MODES)
    if mode == 'line':
        pos = [[float(j), float(2 * j + 1), float(-j)] for j in range(nsrc)]
    elif mode == 'few':
        base = [rand_point(rng, 'space') for _ in range(rng.randint(1, 3))]
        pos = [list(rng.choice(base)) for _ in range(nsrc)]
    elif mode == 'inf':
        pos = [rand_point(rng, 'space') for _ in range(nsrc)]
        for p_ in pos:
            if rng.random() < 0.3:
                p_[rng.randrange(3)] = rng.choice([float('inf'), float('-inf'), 0.0])
    elif mode == 'shaped':
        pos = [rand_point(rng, 'grid2d') for _ in range(nsrc)]
        for labels in runs_vertex_labels:
            pts = embed(rng, outline(rng, len(labels), dents))
            for lab, pt in zip(labels, pts):
                pos[lab] = pt
    else:
        pos = [rand_point(rng, mode) for _ in range(nsrc)]
    r = rng.random()
    nrm = []
    for i in range(2):
        if r < 0.6:
            nrm.append([[j + 0.5 + 100 * i, float(-2 * j), 7.0 + i] for j in range(nsrc)])
        elif r < 0.85:
            nrm.append([rand_point(rng, 'space') for _ in range(nsrc)])
        elif r < 0.95:
            nrm.append([[0.0, 0.0, 0.0] for _ in range(nsrc)])
        else:
            nrm.append([[float('inf'), 0.0, float(j % 2)] for j in range(nsrc)])
    r = rng.random()
    tex = []
    for i in range(3):
        if r < 0.7:
            tex.append([[float(j), float(1000 * (i + 1) + j)] for j in range(nsrc)])
        elif r < 0.9:
            tex.append([[rng.randint(-8, 8) / 4.0, rng.randint(-8, 8) / 4.0] for _ in range(nsrc)])
        else:
            tex.append([[0.5, 0.5] for _ in range(nsrc)])
    return {'pos_mode': mode, 'pos': pos, 'nrm': nrm, 'tex': tex}


LENGTHS = [0, 0, 1, 1, 2, 2, 3, 3, 3, 4, 4, 5, 5, 6, 7, 8, 9, 12]


def gen_lengths(rng):
    r = rng.random()
    if r < 0.02:
        # a long run among short ones / many runs
        v = [rng.choice(LENGTHS) for _ in range(rng.randint(0, 3))] + [rng.randint(13, 40)]
        rng.shuffle(v)
        return v
    if r < 0.04:
        return [rng.choice(LENGTHS[:12]) for _ in range(rng.randint(10, 24))]
    nruns = rng.choice([1, 1, 2, 2, 3, 3, 4, 5]) if r < 0.9 else rng.randint(6, 9)
    return [rng.choice(LENGTHS) for _ in range(nruns)]


def make_case(rng, kind, nind, inputs, lengths, distinct=True, form=None, pos_mode=None, dents=None):
    total = sum(lengths) * nind
    nsrc = total + rng.randint(1, 4)
    if distinct:
        labels = rng.sample(range(nsrc), total)
    else:
        labels = [rng.randrange(min(nsrc, 3)) for _ in range(total)]
    case = {'kind': kind, 'nind': nind, 'inputs': inputs, 'nsrc': nsrc, 'distinct': distinct,
            'empty_form': form or rng.choice(FORMS)}
    ps, pos = [], 0
    for n in lengths:
        ps.append(labels[pos:pos + n * nind])
        pos += n * nind
    voff = [o for s_, o, _ in inputs if s_ == 'VERTEX'][0]
    runs_vertex_labels = [p[voff::nind] for p in ps]
    if not distinct and pos_mode is None:
        pos_mode = rng.choice([m for m in POS_MODES if m != 'shaped'])
    case['data'] = gen_data(rng, nsrc, runs_vertex_labels, pos_mode, dents)
    case['instances'], case['order'] = gen_instances(rng)
    forms = ['getitem', 'getitem_rev', 'iter', 'method', 'shapes', 'zip', 'stream']
    case['access'] = {'poly': rng.choice(forms), 'tri': rng.choice(forms)}
    if kind == 'polylist':
        case['vcounts'] = list(lengths)
        case['ps'] = [labels]
    else:
        case['ps'] = ps
    return case


def gen_matrix(rng):
    """row-major 4x4 with small integer entries: translations, signed axis permutations, scalings, general"""
    r = rng.random()
    t = [rng.randint(-4, 4) for _ in range(3)]
    if r < 0.15:
        R = [[1, 0, 0], [0, 1, 0], [0, 0, 1]]
    elif r < 0.5:
        perm = [0, 1, 2]
        rng.shuffle(perm)
        R = [[(rng.choice([-1, 1]) if c == perm[r_] else 0) for c in range(3)] for r_ in range(3)]
    elif r < 0.7:
        R = [[(rng.choice([2, -2, 3]) if c == r_ else 0) for c in range(3)] for r_ in range(3)]
    else:
        R = [[rng.randint(-2, 2) for _ in range(3)] for _ in range(3)]
    return [float(x) for r_ in range(3) for x in (R[r_] + [t[r_]])] + [0.0, 0.0, 0.0, 1.0]


def gen_instances(rng):
    """scene instances of the geometry (matrix, material binding) and the order in which the unbound
    primitive ('u') and the instances are triangulated"""
    n = rng.choice([1, 1, 1, 2, 2, 3, 4])
    style = rng.random()
    insts = []
    for i in range(n):
        m = None if (n == 1 and rng.random() < 0.5) else gen_matrix(rng)
        if style < 0.4:
            mat = None
        elif style < 0.7:
            mat = 'A'                                   # all instances bind the same material
        else:
            mat = rng.choice([None, 'A', 'B'])
        insts.append({'matrix': m, 'material': mat})
    if n >= 2 and rng.random() < 0.2:
        insts[1]['matrix'] = list(insts[0]['matrix'])   # two instances at the same place
    order = ['u'] + list(range(n))
    rng.shuffle(order)
    return insts, order


def gen_case(rng, kind=None):
    kind = kind or rng.choice(KINDS)
    nind = rng.choice([1, 2, 2, 3, 3, 4])
    lengths = gen_lengths(rng)
    if kind in ('polylist', 'polygons') and rng.random() < 0.03:
        lengths = []            # a primitive without any polygon
    return make_case(rng, kind, nind, gen_inputs(rng, nind), lengths, distinct=rng.random() < 0.85)


def gen_slice(rng):
    def b():
        return None if rng.random() < 0.2 else rng.randint(-12, 12)
    return {'kind': 'slice', 'n': rng.randint(0, 9), 'a': b(), 'b': b(), 's': rng.choice([1, 1, 2, 2, 3, 4])}


def boundary_cases(rng):
    """deterministic shapes every run must see: each kind with empty runs, runs of one and two, in
    first / middle / last position and alone, for every way of writing an empty <p>"""
    vectors = [[0], [1], [2], [3], [0, 0], [0, 1], [1, 0], [1, 1], [0, 2], [2, 0], [0, 3], [3, 0], [1, 3], [3, 1],
               [2, 3], [3, 2], [0, 1, 2], [2, 1, 0], [4, 0, 5], [5, 1, 4], [4, 2, 5], [0, 0, 1], [1, 0, 0],
               [0, 4, 0], [1, 4, 1], [2, 4, 2], [3, 3, 3], [6], [7]]
    out = []
    for kind in KINDS:
        for i, v in enumerate(vectors):
            nind = 1 + (i % 4)
            out.append(make_case(rng, kind, nind, gen_inputs(rng, nind), v, form=FORMS[i % 3]))
    # outlines: every corner in turn is the reflex one (quads, pentagons, hexagons), two reflex corners,
    # none; for every kind (for strips and fans the runs simply follow such outlines)
    i = 0
    for kind in KINDS:
        for n in (4, 5, 6):
            shapes = [[r] for r in range(n)] + [[], [0, 2], [1, n - 1]]
            for d in shapes:
                nind = 1 + (i % 3)
                i += 1
                v = [n] if i % 2 else [3, n, n]
                out.append(make_case(rng, kind, nind, gen_inputs(rng, nind), v, pos_mode='shaped', dents=d))
    # several inputs of one semantic listed against their set numbers
    for kind in KINDS:
        for sets in ([1, 0], [0, 1], [2, 0, 1], [5, 3], [None, 0], [1, 1]):
            k = len(sets) + 1
            inputs = [['VERTEX', 0, None]] + [['TEXCOORD', j + 1, st] for j, st in enumerate(sets)]
            out.append(make_case(rng, kind, k, inputs, [4, 3, 5]))
            inputs = [['TEXCOORD', j, st] for j, st in enumerate(sets)] + [['NORMAL', k - 1, None], ['VERTEX', k - 1, None]]
            out.append(make_case(rng, kind, k, inputs, [5, 4]))
    return out


def exhaustive_cases(rng, max_runs=4):
    """every length vector of at most four runs with lengths 0..9, for each of the four kinds
    (stride, inputs and source data vary along the enumeration)"""
    i = 0
    for kind in KINDS:
        for nruns in range(1, max_runs + 1):
            for v in itertools.product(range(10), repeat=nruns):
                nind = 1 + (i % 4)
                i += 1
                yield make_case(rng, kind, nind, gen_inputs(rng, nind), list(v))


# ---------------------------------------------------------------- encoding into Coq

def c_row(r):
    return clist([cN(x) for x in r])


def c_tri(t):
    return '(%s, %s, %s)' % (c_row(t[0]), c_row(t[1]), c_row(t[2]))


def c_tris(ts):
    return clist([c_tri(t) for t in ts])


def proj_of(case):
    """(array, offset) of the columns a Polygon exposes: 0 = indices, 1 = normal_indices, 2 = texcoord_indices[*]"""
    v = [(0, o) for s, o, _ in case['inputs'] if s == 'VERTEX'][:1]
    nn = [(1, o) for s, o, _ in case['inputs'] if s == 'NORMAL'][:1]
    t = [(2, o) for s, o, _ in case['inputs'] if s == 'TEXCOORD']
    return v + nn + t


def c_bound(res):
    b = res.get('bound_index')
    return copt(None if b is None else c_tris(b))


def c_case(case, res):
    kind = case['kind']
    if kind == 'slice':
        return '(CSlice %s %s %s %s %s)' % (cnat(case['n']), copt(None if case['a'] is None else cZ(case['a'])),
                                            copt(None if case['b'] is None else cZ(case['b'])), cnat(case['s']),
                                            clist([cnat(x) for x in res['slice']]))
    ps = clist([clist([cN(x) for x in p]) for p in case['ps']])
    if kind in ('tristrips', 'trifans'):
        return '(CExpand %s %s %s %s %s %s)' % ('KStrips' if kind == 'tristrips' else 'KFans', cnat(case['nind']), ps,
                                                cnat(res['load_code']), c_tris(res['index'] or []), c_bound(res))
    pp = res.get('pp')
    return '(CPoly %s %s %s %s %s %s %s %s %s %s %s %s)' % (
        cbool(kind == 'polygons'), cnat(case['nind']),
        clist(['(%s, %s)' % (cnat(a), cnat(o)) for a, o in proj_of(case)]),
        clist([cnat(c) for c in case.get('vcounts', [])]), ps, cnat(res['load_code']),
        clist([cnat(c) for c in (res['vcounts'] or [])]), cnat(res['tri_code']), c_tris(res['tri_index'] or []),
        cbool(pp is not None), clist([c_tris(g) for g in (pp or [])]), c_bound(res))


# ---------------------------------------------------------------- running

def crashed(case, reason):
    if case.get('kind') == 'slice':
        return {'slice': [], 'fails': []}
    return {'load_code': 12, 'index': None, 'vcounts': None, 'tri_code': 0, 'tri_index': None, 'pp': None,
            'fails': [{'clause': 'crash-or-hang', 'site': '%s:worker' % case.get('kind'),
                       'detail': 'the implementation did not survive this document: ' + reason}]}


def run_impl_cases(cases):
    from concurrent.futures import ThreadPoolExecutor
    chunks = [cases[i:i + 300] for i in range(0, len(cases), 300)]

    def one(ch):
        return core.run_cases_bisect('c11', ch, lambda cs: {'cases': cs}, crashed, timeout=180)
    with ThreadPoolExecutor(max_workers=core.NCPU) as ex:
        outs = list(ex.map(one, chunks))
    return [r for out in outs for r in out]


def lengths_of(case):
    if case['kind'] == 'polylist':
        return list(case['vcounts'])
    return [len(p) // case['nind'] for p in case['ps']]


def shrink(case, sig):
    """keep one run (then drop inputs' stride is left alone) while the same clause fails"""
    if case['kind'] == 'slice':
        return case
    cands = []
    lens = lengths_of(case)
    k = case['nind']
    if case['kind'] == 'polylist':
        flat = case['ps'][0]
        pos = 0
        runs = []
        for n in lens:
            runs.append(flat[pos:pos + n * k])
            pos += n * k
        for i in range(len(lens)):
            cands.append(dict(case, vcounts=[lens[i]], ps=[runs[i]]))
            if i + 1 < len(lens):
                cands.append(dict(case, vcounts=lens[i:i + 2], ps=[runs[i] + runs[i + 1]]))
    else:
        for i in range(len(lens)):
            cands.append(dict(case, ps=[case['ps'][i]]))
            if i + 1 < len(lens):
                cands.append(dict(case, ps=case['ps'][i:i + 2]))
    if not cands:
        return case
    try:
        res = run_impl_cases(cands)
    except Exception:  # noqa
        return case
    best = case
    for c, r in zip(cands, res):
        if r['fails'] and signature(c, r['fails'][0]) == sig:
            if sum(lengths_of(c)) < sum(lengths_of(best)) or len(lengths_of(c)) < len(lengths_of(best)):
                best = c
    return best


def signature(case, f):
    return 'C11:%s:%s' % (f['clause'], f['site'])


def first_failures(cases, results, limit=6):
    out, seen = [], set()
    for c, r in zip(cases, results):
        if r['fails']:
            f = r['fails'][0]
            sig = signature(c, f)
            if sig in seen:
                continue
            seen.add(sig)
            small = shrink(c, sig)
            out.append({'signature': sig, 'clause': f['clause'], 'what': '%s: %s' % (f['site'], f['detail'][:300]),
                        'input': small, 'detail': f})
            if len(out) >= limit:
                break
    return out


def corpus_cases():
    d = os.path.join(core.VERIF, 'corpus', 'C11')
    out = []
    if os.path.isdir(d):
        for fn in sorted(os.listdir(d)):
            if fn.endswith('.json'):
                out.append(json.load(open(os.path.join(d, fn))))
    return out


def run(ctx):
    build_ok, obl, regen = core.std_setup(ctx)
    quick = ctx.quick()
    rng = ctx.rng
    cases = corpus_cases()
    ncorpus = len(cases)
    bnd = boundary_cases(rng)
    cases += bnd
    nrand = 1600 if quick else 8000
    for i in range(nrand):
        cases.append(gen_case(rng, KINDS[i % 4]))
    nslice = 300 if quick else 2000
    for _ in range(nslice):
        cases.append(gen_slice(rng))
    nexh = 0
    if not quick:
        ex = list(exhaustive_cases(rng))
        nexh = len(ex)
        cases += ex
    ctx.log('loading %d documents with the implementation' % (len(cases) - nslice))
    results = run_impl_cases(cases)
    terms = [c_case(c, r) for c, r in zip(cases, results)]
    ctx.log('evaluating the model on the same inputs inside Coq')
    bad, errors = core.coq_eval_cases(ctx, HEADER, CASE_TYPE, terms, 'C11.mismatches', chunk=150)
    failures = first_failures(cases, results)
    known = {k['signature'] for k in core.load_known() if k.get('property') == 'C11'}
    mismatches = []
    for i in bad[:20]:
        fs = results[i]['fails']
        mismatches.append({'case_index': i, 'input': cases[i],
                           'implementation_observed': {k: v for k, v in results[i].items() if k != 'fails'},
                           'explained_by_known': bool(fs) and signature(cases[i], fs[0]) in known})
    seen = set()
    by_kind, by_stride, runlen, nruns, forms = {}, {}, {}, {}, {}
    ntri = 0
    nondistinct = 0
    pmodes = {}
    ninst = {}
    aforms = {}
    unsorted_sets = 0
    for c, r in zip(cases, results):
        if c['kind'] == 'slice':
            continue
        lens = lengths_of(c)
        by_kind[c['kind']] = by_kind.get(c['kind'], 0) + 1
        by_stride[c['nind']] = by_stride.get(c['nind'], 0) + 1
        nruns[min(len(lens), 6)] = nruns.get(min(len(lens), 6), 0) + 1
        for n in lens:
            runlen[min(n, 10)] = runlen.get(min(n, 10), 0) + 1
        if 0 in lens:
            forms[c['empty_form']] = forms.get(c['empty_form'], 0) + 1
        nondistinct += 0 if c.get('distinct', True) else 1
        t = sum(max(n - 2, 0) for n in lens)
        ntri += t
        af = (c.get('access') or {}).get('poly', 'getitem')
        aforms[af] = aforms.get(af, 0) + 1
        ninst[len(c.get('instances') or [1])] = ninst.get(len(c.get('instances') or [1]), 0) + 1
        pmodes[c.get('data', {}).get('pos_mode', 'default')] = pmodes.get(c.get('data', {}).get('pos_mode', 'default'), 0) + 1
        sets = [st for s_, o, st in c['inputs'] if s_ == 'TEXCOORD']
        if len(sets) >= 2 and sets != sorted(sets, key=lambda x: -1 if x is None else x):
            unsorted_sets += 1
        if t >= 1:
            seen.add(core.canon_hash([c['kind'], c['nind'], c['inputs'], lens]))
    corr = {
        'evaluations': len(cases),
        'distinct_nontrivial': len(seen),
        'rule': 'real COLLADA documents (five sources, <vertices>, one primitive, a scene) loaded by pycollada; '
                'kinds tristrips/trifans/polylist/polygons in equal shares, 1..9 runs of lengths 0..12 (0, 1, 2 frequent), '
                'strides 1..4 with 1..7 inputs (VERTEX, <=2 NORMAL, <=3 TEXCOORD with arbitrary set numbers, COLOR) at arbitrary (also shared) offsets in arbitrary document order, '
                '1..4 scene instances of the geometry (integer matrices, same / different / no material binding) triangulated in random order relative to each other and to the unbound primitive, '
                'polygons / triangles obtained by prim[i] (ascending, descending), legacy iteration, polygons()/triangles(), shapes(), two generators in lockstep (all materialised before use) or streamed, '
                'source data varied per case (collinear, planar grid, tilted plane, space, few coincident points, all zero, infinities, outlines with reflex corners / self-intersections), '
                'pairwise distinct labels in 85 % of the cases; non-trivial = at least one triangle expected; '
                'distinct = different (kind, stride, inputs, length vector); plus a fixed list of boundary shapes '
                '(empty / one / two in first, middle, last position, three spellings of an empty <p>) and '
                'runtime slices list(range(n))[a:b:s]; thorough adds every length vector of <= 4 runs with lengths 0..9 for every kind',
        'samples': [{'input': dict(c, data={'pos_mode': c.get('data', {}).get('pos_mode')}), 'observed': {k: v for k, v in r.items() if k != 'fails'}}
                    for c, r in list(zip(cases, results))[ncorpus + len(bnd):ncorpus + len(bnd) + 3]],
        'distribution': {'by_kind': by_kind, 'by_stride': by_stride, 'runs_per_primitive': nruns,
                         'run_length_histogram': runlen, 'empty_p_spelling': forms, 'triangles_expected': ntri,
                         'cases_with_repeated_labels': nondistinct, 'position_data_mode': pmodes, 'scene_instances_per_case': ninst, 'polygon_access_form': aforms,
                         'cases_with_texcoord_sets_listed_out_of_order': unsorted_sets, 'runtime_slice_cases': nslice,
                         'boundary_cases': len(bnd), 'corpus_cases': ncorpus, 'exhaustive_slice_cases': nexh},
        'mismatches': mismatches,
        'errors': errors,
        'exhaustive': bool(nexh),
    }

    def search(mm):
        extra = [m['input'] for m in mm if m['input'].get('kind') != 'slice']
        extra += list(exhaustive_cases(rng, 3))
        extra += [gen_case(rng) for _ in range(4000)]
        res = run_impl_cases(extra)
        return first_failures(extra, res)

    return core.finish(
        ctx, obligations=obl, regen=regen, build_ok=build_ok, corr=corr, failures=failures, search=search,
        trusted_base=core.BASE_TRUST + [
            'Gen/Strips.v is regenerated from collada/triangleset.py (slice bounds, fan count, append order) by the '
            'fail-closed translator harness/translate/strips.py; the theorems are stated against it',
            'hand-written models Model/Strips.v (TriangleSet.load loop, numpy.array/concatenate stacking) and '
            'Model/Triangulate.v (Polylist.triangleset, Polygon.triangles, Polygons vcounts), tied to the code by the '
            'correspondence on loaded documents (TriangleSet.index, triangleset().index, Polygon.triangles())',
            'Base/PySlice.v: Python slicing as defined by CPython (tied to the runtime by the slice cases) and numpy '
            'integer-array indexing / assignment with negative wrap-around',
        ],
        assumptions=['sum(vcounts) equals the number of index rows and every <p> holds whole rows (otherwise: C09)',
                     'at least one <p> in a <tristrips>/<trifans> (none is DaeIncompleteError, modelled, not part of the property)',
                     'per-polygon triangulation is observed only when the primitive has at least one index row '
                     '(Polylist.__getitem__ on an empty index is C10\'s subject)'])


def replay(ctx, body):
    case = body.get('input') or (body.get('mismatching_cases') or [{}])[0].get('input')
    if not case:
        # a replay that names broken proof obligations only: regenerate, rebuild and re-check them
        build_ok, obl, regen = core.std_setup(ctx)
        print('regeneration: %s' % json.dumps(regen))
        if build_ok and not obl['problems'] and obl['obligations'] and obl['discharged'] == obl['obligations']:
            print('replay: all %d proof obligations of C11 check against the regenerated definitions now' % obl['obligations'])
            return 0
        print('still broken: %s' % json.dumps(obl['problems'])[:1500])
        print('VIOLATION property=C11 replay=%s no-failing-input-found' % body.get('replay_cmd', '').split()[-1])
        return 1
    r = run_impl_cases([case])[0]
    print(json.dumps(r, indent=1)[:3000])
    if r['fails']:
        print('VIOLATION property=C11 replay=%s' % body.get('replay_cmd', '').split()[-1])
        return 1
    print('replay: the property clauses hold on this input now')
    return 0
