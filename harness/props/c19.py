"""C19 - skin and morph controllers decode the file faithfully."""
import json
import os

from harness import core
from harness.core import cN, cZ, cnat, clist, copt, cbool

HEADER = ('From Coq Require Import List ZArith NArith.\n'
          'From PC Require Import Base.Atoms Base.Outcome Base.Xml Base.Mat Model.Skin Model.SkinXml Check.C19.\n'
          'Import ListNotations.\nOpen Scope Z_scope.\n'
          'Definition n (z : Z) : nat := Z.to_nat z.\n'
          'Definition a (z : Z) : N := Z.to_N z.\n')
CASE_TYPE = 'C19.case'
NS = 'http://www.collada.org/2005/11/COLLADASchema'
# documents are also written in other namespaces: COLLADA 1.5 and arbitrary ones
OTHER_NS = ['http://www.collada.org/2008/03/COLLADASchema', 'http://www.collada.org/2008/03/COLLADASchema',
            'urn:example:scene-format', 'http://example.org/ns/collada-like']
WDEN = 8          # morph weights are multiples of 1/8
FAULTS = ['oob-joint', 'oob-weight', 'neg-joint', 'neg-weight', 'short', 'long', 'mismatch']
# reference-level faults (outside the property's list): (name, exception code the loader documents)
# 1 DaeIncompleteError, 2 DaeBrokenRefError, 3 DaeMalformedError
REF_FAULTS_SKIN = ['ref-missing', 'ref-wrong-kind', 'few-sources', 'one-joints-input', 'geom-missing']
# faults that only exist at the XML level: name -> documented exception code
XML_FAULTS_SKIN = {'no-hash': 2, 'no-source-attr': 3, 'no-vertex-weights': 1, 'no-v': 1, 'no-vcount': 1,
                   'no-offset': 3, 'bad-offset': 3, 'word-in-v': 3, 'float-in-vcount': 3, 'no-params': 1,
                   'no-array': 1, 'blank-bind-shape': 3}
XML_FAULTS_MORPH = {'no-hash-base': 2, 'no-base-attr': 3, 'no-hash-input': 2}
REF_FAULTS_MORPH = ['base-missing', 'bad-method', 'input-missing-source', 'target-not-geometry',
                    'targets-name-array', 'one-input']
IDENT = [1, 0, 0, 0, 0, 1, 0, 0, 0, 0, 1, 0, 0, 0, 0, 1]


# ------------------------------------------------------------------ generators

def rand_affine(rng, lo=-2, hi=2):
    m = [rng.randint(lo, hi) for _ in range(12)] + [0, 0, 0, 1]
    return m


def gen_geoms(rng, k):
    """geometries with 1-4 primitives of mixed kinds (triangles, lines, polylist, polygons), some empty"""
    geoms = []
    for i in range(k):
        nv = rng.randint(3, 5)
        verts = [[rng.randint(-3, 3) for _ in range(3)] for _ in range(nv)]
        prims = []
        for _ in range(rng.choice([1, 1, 2, 3, 4])):
            kind = rng.choice(['triangles', 'triangles', 'lines', 'polylist', 'polygons'])
            n = rng.choice([0, 1, 1, 2])
            if kind == 'triangles':
                shapes = [[rng.randrange(nv) for _ in range(3)] for _ in range(n)]
            elif kind == 'lines':
                shapes = [[rng.randrange(nv) for _ in range(2)] for _ in range(n)]
            else:
                shapes = [[rng.randrange(nv) for _ in range(rng.randint(3, 5))] for _ in range(n)]
            prims.append({'kind': kind, 'shapes': shapes})
        geoms.append({'id': 'geo%d' % i, 'verts': verts, 'prims': prims})
    return geoms


def ws(rng):
    return rng.choice([' ', ' ', '  ', '\n', ' \n ', '\t'])


def join_tokens(rng, toks):
    if not toks:
        return ''
    out = [str(toks[0])]
    for t in toks[1:]:
        out.append(ws(rng))
        out.append(str(t))
    pre = rng.choice(['', '', ' ', '\n'])
    return pre + ''.join(out) + rng.choice(['', '', ' ', '\n'])


def gen_skin(rng, fault=None, geoms=None, cid='ctrl', build=True):
    geoms = geoms or gen_geoms(rng, rng.randint(1, 3))
    nj = rng.randint(1, 6)
    prefix = rng.choice(['j', 'bone_', 'Joint.', 'n-'])
    names = ['%s%d' % (prefix, k) for k in rng.sample(range(20), nj)]
    jtype = rng.choice(['Name', 'Name', 'IDREF'])
    nw = rng.randint(1, 8)
    mats = [rand_affine(rng) for _ in range(nj)]
    nverts = rng.choice([0, 1, 2, 3, 4, 6, 9])
    vcount = [rng.choice([0, 1, 1, 2, 3, 4]) for _ in range(nverts)]
    if rng.random() < 0.08:
        vcount = [0] * nverts
    oj, ow = rng.choice([(0, 1), (0, 1), (1, 0), (1, 0), (0, 2), (2, 0), (1, 2), (0, 0)])
    nind = max(oj, ow) + 1
    # a separate JOINT source for <vertex_weights> (the range is checked against this one)
    separate = rng.random() < 0.25
    wj_names = names
    if separate:
        wj_names = ['w%s%d' % (prefix, k) for k in range(rng.randint(1, 7))]
    lim_j = len(wj_names)
    rows = []
    for ct in vcount:
        for _ in range(ct):
            row = [rng.randint(0, 9) for _ in range(nind)]
            row[oj] = rng.randrange(lim_j)
            if ow == oj:
                row[ow] = rng.randrange(min(lim_j, nw))
            else:
                row[ow] = rng.randrange(nw)
            if rng.random() < 0.25:           # boundary: the largest legal index
                row[oj] = (min(lim_j, nw) if ow == oj else lim_j) - 1
            if rng.random() < 0.25 and ow != oj:
                row[ow] = nw - 1
            if rng.random() < 0.06 and ow != oj:
                row[oj] = -1                  # COLLADA: joint index -1 refers to the bind shape
            rows.append(row)
    v = [x for r in rows for x in r]
    bind = None if rng.random() < 0.4 else rand_affine(rng)
    sources = [
        {'id': 'joints-src', 'type': jtype, 'values': list(names), 'param': 'JOINT', 'ptype': jtype if jtype == 'IDREF' else 'Name'},
        {'id': 'mats-src', 'type': 'float', 'values': [x for m in mats for x in m], 'param': 'TRANSFORM', 'ptype': 'float4x4', 'stride': 16},
        {'id': 'weights-src', 'type': 'float', 'values': [rng.randint(0, 8) for _ in range(nw)], 'param': 'WEIGHT', 'ptype': 'float', 'den': 8},
    ]
    if separate:
        sources.append({'id': 'wjoints-src', 'type': rng.choice(['Name', 'IDREF']), 'values': list(wj_names), 'param': 'JOINT', 'ptype': 'Name'})
    rng.shuffle(sources)
    joints_inputs = [['JOINT', 'joints-src'], ['INV_BIND_MATRIX', 'mats-src']]
    vw_inputs = [['JOINT', 'wjoints-src' if separate else 'joints-src', oj], ['WEIGHT', 'weights-src', ow]]
    if rng.random() < 0.5:
        joints_inputs.reverse()
    if rng.random() < 0.5:
        vw_inputs.reverse()
    nodes = [rand_affine(rng) for _ in range(rng.choice([0, 1, 1, 2, 3]))]
    scene = gen_scene(rng, nodes)
    case = {'scene': scene, 'paths': scene_paths(scene), 'kind': 'skin', 'geoms': geoms, 'source_geom': rng.choice(geoms)['id'], 'bind_shape': bind,
            'sources': sources, 'joints_inputs': joints_inputs, 'vw_inputs': vw_inputs, 'vcount': vcount, 'v': v,
            'nodes': nodes, 'fault': None, 'empty_style': rng.choice(['empty', 'blank', 'selfclose']),
            'vw_order': rng.sample(range(3), 3), 'decoys': rng.random() < 0.3}
    exp = {'outcome': 'ok', 'nind': nind}
    if fault in XML_FAULTS_SKIN:
        if fault == 'blank-bind-shape' and bind is None:
            return gen_skin(rng, fault, geoms, cid, build)
        case['fault'] = fault
        case['xml_fault'] = [fault, rng.randrange(1000)]
        exp = {'outcome': 'ref-error', 'code': XML_FAULTS_SKIN[fault], 'why': fault}
    elif fault in REF_FAULTS_SKIN:
        code, why = apply_ref_fault_skin(rng, case, fault, separate)
        case['fault'] = fault
        exp = {'outcome': 'ref-error', 'code': code, 'why': why}
    elif fault is not None:
        why = apply_fault(rng, case, fault, nind, oj, ow, lim_j, nw)
        if why is None:
            return gen_skin(rng, fault, geoms, cid, build)
        case['fault'] = fault
        exp = {'outcome': 'malformed', 'why': why}
    else:
        groups, at = [], 0
        for ct in vcount:
            groups.append(rows[at:at + ct])
            at += ct
        exp.update({'groups': groups, 'joint_index': [[r[oj] for r in g] for g in groups],
                    'weight_index': [[r[ow] for r in g] for g in groups],
                    'joint_matrices': [[nm, m] for nm, m in zip(names, mats)],
                    'bind_shape': bind if bind is not None else IDENT})
    case['expect'] = exp
    case['cid'] = cid
    if build:
        add_extras(rng, case)
        case['xml'] = doc_xml(rng, case)
    return case


def add_extras(rng, case):
    """further, well-formed controllers in the same document (own sources - the same source ids are
    re-used on purpose -, own instances in the scene)"""
    case['ns'] = NS if rng.random() < 0.65 else rng.choice(OTHER_NS)
    case['extras'] = []
    if rng.random() < 0.3:
        for k in range(rng.choice([1, 1, 2])):
            gen = gen_skin if rng.random() < 0.6 else gen_morph
            case['extras'].append(gen(rng, None, case['geoms'], 'extra%d' % k, False))
    case['ctrl_order'] = rng.sample(range(1 + len(case['extras'])), 1 + len(case['extras']))


def apply_fault(rng, case, fault, nind, oj, ow, lim_j, nw):
    v, vcount = case['v'], case['vcount']
    ninf = sum(vcount)
    if fault in ('oob-joint', 'oob-weight'):
        if ninf == 0:
            return None
        if oj == ow:
            col, lim = oj, (lim_j if fault == 'oob-joint' else nw)
            if (fault == 'oob-joint' and lim_j > nw) or (fault == 'oob-weight' and nw > lim_j):
                return None
        else:
            col, lim = (oj, lim_j) if fault == 'oob-joint' else (ow, nw)
        k = rng.randrange(ninf)
        v[nind * k + col] = lim + rng.choice([0, 0, 1, 5])
        return 'index %d in column %d, source has %d entries' % (v[nind * k + col], col, lim)
    if fault in ('neg-joint', 'neg-weight'):
        if ninf == 0 or oj == ow:
            return None
        col, val = (oj, rng.choice([-2, -2, -3, -7])) if fault == 'neg-joint' else (ow, rng.choice([-1, -1, -2, -5]))
        k = rng.randrange(ninf)
        v[nind * k + col] = val
        return 'index %d in the %s column' % (val, 'joint' if fault == 'neg-joint' else 'weight')
    if fault == 'short':
        if not v:
            return None
        drop = rng.choice([1, 1, nind, nind * rng.randint(1, 2), rng.randint(1, len(v))])
        drop = max(1, min(drop, len(v)))
        del v[len(v) - drop:]
        return '<v> has %d values, vcount needs %d' % (len(v), ninf * nind)
    if fault == 'long':
        extra = rng.choice([1, nind, nind, 2 * nind, nind + 1])
        v.extend(rng.randint(0, 0) for _ in range(extra))
        return '<v> has %d values, vcount needs %d' % (len(v), ninf * nind)
    if fault == 'mismatch':
        js = next(s for s in case['sources'] if s['id'] == 'joints-src')
        ms = next(s for s in case['sources'] if s['id'] == 'mats-src')
        which = rng.choice(['more-names', 'fewer-names', 'more-mats', 'fewer-mats'])
        if which == 'more-names':
            js['values'].append('extra')
        elif which == 'fewer-names':
            if len(js['values']) < 2:
                js['values'].append('extra')
            else:
                js['values'].pop()
        elif which == 'more-mats':
            ms['values'].extend(IDENT)
        else:
            if len(ms['values']) <= 16:
                ms['values'].extend(IDENT)
            else:
                del ms['values'][-16:]
        return '%d joint names, %d matrices' % (len(js['values']), len(ms['values']) // 16)
    raise ValueError(fault)


def apply_ref_fault_skin(rng, case, fault, separate):
    """-> (exception code the loader documents, description)"""
    ji, vi = case['joints_inputs'], case['vw_inputs']
    if fault == 'ref-missing':
        which = rng.choice(['joints', 'vw'])
        lst = ji if which == 'joints' else vi
        k = rng.randrange(len(lst))
        lst[k][1] = 'no-such-source'
        return 2, '%s input %s refers to a source that does not exist' % (which, lst[k][0])
    if fault == 'ref-wrong-kind':
        which = rng.choice(['JOINT', 'INV_BIND_MATRIX', 'WEIGHT', 'VW_JOINT'])
        if which == 'JOINT':
            next(i for i in ji if i[0] == 'JOINT')[1] = 'weights-src'
        elif which == 'INV_BIND_MATRIX':
            next(i for i in ji if i[0] == 'INV_BIND_MATRIX')[1] = 'joints-src'
        elif which == 'WEIGHT':
            next(i for i in vi if i[0] == 'WEIGHT')[1] = 'joints-src'
        else:
            next(i for i in vi if i[0] == 'JOINT')[1] = 'mats-src'
        return 1, 'the %s input refers to a source of the wrong kind' % which
    if fault == 'few-sources':
        case['sources'] = [s for s in case['sources'] if s['id'] in ('joints-src', 'mats-src')]
        next(i for i in vi if i[0] == 'WEIGHT')[1] = 'mats-src'
        next(i for i in vi if i[0] == 'JOINT')[1] = 'joints-src'
        return 3, 'only two sources'
    if fault == 'one-joints-input':
        del ji[rng.randrange(len(ji))]
        return 1, 'only one <joints> input'
    if fault == 'geom-missing':
        case['source_geom'] = 'no-such-geometry'
        return 2, 'skin/@source names no loaded geometry'
    raise ValueError(fault)


def gen_scene(rng, nodes):
    """Where the <instance_controller> lives.  'direct': under the nested matrix nodes `nodes`.
    'library': in a rig kept in <library_nodes> (its own matrix chain `rig`) that the visual scene
    instantiates through <instance_node> several times, each under its own matrix chain (one of them
    possibly nested inside another instantiating node), so the SAME controller node is reached
    along several paths."""
    if rng.random() < 0.55:
        return {'kind': 'direct', 'nodes': nodes}
    rig = [rand_affine(rng) for _ in range(rng.choice([0, 1, 1, 2]))]
    uses = [[rand_affine(rng) for _ in range(rng.choice([0, 1, 1, 2]))] for _ in range(rng.choice([2, 2, 3, 4]))]
    # a second-level use: an extra <instance_node> inside the innermost node of the first use
    nested = rng.random() < 0.3
    return {'kind': 'library', 'rig': rig, 'uses': uses, 'nested_extra': [rand_affine(rng)] if nested else None}


def scene_paths(scene):
    """matrix chains (outermost first) along which the controller instance is reached, in document order"""
    if scene['kind'] == 'direct':
        return [scene['nodes']]
    out = []
    for k, u in enumerate(scene['uses']):
        out.append(u + scene['rig'])
        if k == 0 and scene['nested_extra'] is not None:
            out.append(u + scene['nested_extra'] + scene['rig'])
    return out


def gen_morph(rng, fault=None, geoms=None, cid='ctrl', build=True):
    geoms = geoms or gen_geoms(rng, rng.randint(1, 4))
    ids = [g['id'] for g in geoms]
    nt = rng.choice([0, 1, 2, 3, 5])
    targets = [rng.choice(ids) for _ in range(nt)]
    weights = [rng.randint(-8, 16) for _ in range(nt)]
    sources = [{'id': 'targets-src', 'type': 'IDREF', 'values': list(targets), 'param': 'MORPH_TARGET', 'ptype': 'IDREF'},
               {'id': 'mweights-src', 'type': 'float', 'values': list(weights), 'param': 'MORPH_WEIGHT', 'ptype': 'float', 'den': WDEN}]
    if rng.random() < 0.5:
        sources.reverse()
    inputs = [['MORPH_TARGET', 'targets-src'], ['MORPH_WEIGHT', 'mweights-src']]
    if rng.random() < 0.5:
        inputs.reverse()
    base = rng.choice(ids)
    case = {'kind': 'morph', 'geoms': geoms, 'base': base, 'method': rng.choice([None, 'NORMALIZED', 'RELATIVE']),
            'sources': sources, 'targets_inputs': inputs, 'nodes': [rand_affine(rng) for _ in range(rng.choice([0, 1, 2]))],
            'fault': None}
    case['scene'] = gen_scene(rng, case['nodes'])
    case['paths'] = scene_paths(case['scene'])
    exp = {'outcome': 'ok', 'pairs': [[t, w / WDEN] for t, w in zip(targets, weights)]}
    ts = next(s for s in sources if s['id'] == 'targets-src')
    ms = next(s for s in sources if s['id'] == 'mweights-src')
    if fault in XML_FAULTS_MORPH:
        case['fault'] = fault
        case['xml_fault'] = [fault, rng.randrange(1000)]
        exp = {'outcome': 'ref-error', 'code': XML_FAULTS_MORPH[fault], 'why': fault}
    elif fault in REF_FAULTS_MORPH:
        case['fault'] = fault
        if fault == 'base-missing':
            case['base'] = 'no-such-geometry'
            code = 2
        elif fault == 'bad-method':
            case['method'] = rng.choice(['ADDITIVE', 'normalized', ''])
            code = 3
        elif fault == 'input-missing-source':
            inputs[rng.randrange(2)][1] = 'no-such-source'
            code = 2
        elif fault == 'target-not-geometry':
            if not ts['values']:
                ts['values'].append('x')
                ms['values'].append(8)
            ts['values'][rng.randrange(len(ts['values']))] = 'no-such-geometry'
            code = 2
        elif fault == 'targets-name-array':
            ts['type'] = 'Name'
            ts['ptype'] = 'Name'
            code = 1
        else:
            del inputs[rng.randrange(2)]
            code = 1
        exp = {'outcome': 'ref-error', 'code': code, 'why': fault}
    elif fault is not None:
        which = rng.choice(['more-targets', 'fewer-targets', 'more-weights', 'fewer-weights'])
        if which == 'more-targets' or (which == 'fewer-targets' and not ts['values']):
            ts['values'].append(rng.choice(ids))
        elif which == 'fewer-targets':
            ts['values'].pop()
        elif which == 'more-weights' or not ms['values']:
            ms['values'].append(8)
        else:
            ms['values'].pop()
        case['fault'] = 'mismatch'
        exp = {'outcome': 'malformed', 'why': '%d targets, %d weights' % (len(ts['values']), len(ms['values']))}
    case['expect'] = exp
    case['cid'] = cid
    if build:
        add_extras(rng, case)
        case['xml'] = doc_xml(rng, case)
    return case


# ------------------------------------------------------------------ XML

def num(x, den=1):
    if den == 1:
        return str(x)
    return repr(x / den)


def source_xml(rng, s, xf=None):
    sid = s['id']
    vals = s['values']
    if s['type'] == 'float':
        arr = '<float_array id="%s-array" count="%d">%s</float_array>' % (
            sid, len(vals), join_tokens(rng, [num(x, s.get('den', 1)) for x in vals]))
    elif s['type'] == 'IDREF':
        arr = '<IDREF_array id="%s-array" count="%d">%s</IDREF_array>' % (sid, len(vals), join_tokens(rng, vals))
    else:
        arr = '<Name_array id="%s-array" count="%d">%s</Name_array>' % (sid, len(vals), join_tokens(rng, vals))
    stride = s.get('stride', 1)
    param = '<param name="%s" type="%s"/>' % (s['param'], s['ptype'])
    if xf == 'no-params':
        param = ''
    if xf == 'no-array':
        arr = ''
    return ('<source id="%s">%s<technique_common><accessor source="#%s-array" count="%d" stride="%d">'
            '%s</accessor></technique_common></source>'
            % (sid, arr, sid, len(vals) // stride, stride, param))


def prim_xml(gid, pr):
    inp = '<input semantic="VERTEX" source="#%s-vtx" offset="0"/>' % gid
    kind, shapes = pr['kind'], pr['shapes']
    flat = ' '.join(str(i) for sh in shapes for i in sh)
    p = '<p>%s</p>' % flat if flat else '<p/>'
    if kind in ('triangles', 'lines'):
        return '<%s count="%d">%s%s</%s>' % (kind, len(shapes), inp, p, kind)
    if kind == 'polylist':
        vc = ' '.join(str(len(sh)) for sh in shapes)
        return '<polylist count="%d">%s%s%s</polylist>' % (len(shapes), inp, '<vcount>%s</vcount>' % vc if vc else '<vcount/>', p)
    return '<polygons count="%d">%s%s</polygons>' % (
        len(shapes), inp, ''.join('<p>%s</p>' % ' '.join(str(i) for i in sh) for sh in shapes))


def geom_xml(g):
    flat = ' '.join(str(x) for p in g['verts'] for x in p)
    prims = ''.join(prim_xml(g['id'], pr) if isinstance(pr, dict) else
                    '<triangles count="%d"><input semantic="VERTEX" source="#%s-vtx" offset="0"/><p>%s</p></triangles>'
                    % (len(pr), g['id'], ' '.join(str(i) for tri in pr for i in tri)) for pr in g['prims'])
    return ('<geometry id="%s"><mesh><source id="%s-pos"><float_array id="%s-pos-array" count="%d">%s</float_array>'
            '<technique_common><accessor source="#%s-pos-array" count="%d" stride="3"><param name="X" type="float"/>'
            '<param name="Y" type="float"/><param name="Z" type="float"/></accessor></technique_common></source>'
            '<vertices id="%s-vtx"><input semantic="POSITION" source="#%s-pos"/></vertices>%s</mesh></geometry>'
            % (g['id'], g['id'], g['id'], 3 * len(g['verts']), flat, g['id'], len(g['verts']), g['id'], g['id'], prims))


def text_el(tag, text, style):
    if text == '':
        if style == 'selfclose':
            return '<%s/>' % tag
        if style == 'empty':
            return '<%s></%s>' % (tag, tag)
        return '<%s> </%s>' % (tag, tag)
    return '<%s>%s</%s>' % (tag, text, tag)


def doc_xml(rng, top):
    subs = [top] + (top.get('extras') or [])
    order = top.get('ctrl_order') or list(range(len(subs)))
    counter = [0]
    bodies, libnodes, inners = [], [], []
    for k in order:
        subs[k]['doc_ns'] = top.get('ns', NS)
        b, ln, inner = controller_xml(rng, subs[k], counter)
        bodies.append('<controller id="%s">%s</controller>' % (subs[k].get('cid', 'ctrl'), b))
        libnodes.append(ln)
        inners.append(inner)
    ln = ''.join(libnodes)
    return ('<?xml version="1.0" encoding="utf-8"?>\n<COLLADA xmlns="%s" version="1.4.1">'
            '<asset><created>2020-01-01T00:00:00Z</created><modified>2020-01-01T00:00:00Z</modified></asset>'
            '<library_geometries>%s</library_geometries>'
            '<library_controllers>%s</library_controllers>%s'
            '<library_visual_scenes><visual_scene id="vs">%s</visual_scene></library_visual_scenes>'
            '<scene><instance_visual_scene url="#vs"/></scene></COLLADA>'
            % (top.get('ns', NS), ''.join(geom_xml(g) for g in top['geoms']), ''.join(bodies),
               '<library_nodes>%s</library_nodes>' % ln if ln else '', ''.join(inners)))


def controller_xml(rng, case, counter):
    """-> (content of the <controller>, library_nodes content, visual_scene content)"""
    cid = case.get('cid', 'ctrl')
    xf, xk = case.get('xml_fault') or (None, 0)
    DEC = ' xmlns:x="urn:decoy"'
    if case.get('doc_ns', NS) != NS:
        # in a document of another namespace the elements of the 1.4 namespace are foreign too
        DEC = ' xmlns:x="%s"' % NS
    srcs = ''.join(source_xml(rng, s, xf if (xf in ('no-params', 'no-array') and i == xk % len(case['sources'])) else None)
                   for i, s in enumerate(case['sources']))

    def inp(k, sem, src, off=None, fault_at=None):
        ref = ' source="#%s"' % src
        o = '' if off is None else ' offset="%d"' % off
        if fault_at == k:
            if xf in ('no-hash', 'no-hash-input'):
                ref = ' source="%s"' % src
            elif xf == 'no-source-attr':
                ref = ''
            elif xf == 'no-offset':
                o = ''
            elif xf == 'bad-offset':
                o = ' offset="first"'
        return '<input semantic="%s"%s%s/>' % (sem, ref, o)

    if case['kind'] == 'skin':
        bind = '' if case['bind_shape'] is None else '<bind_shape_matrix>%s</bind_shape_matrix>' % join_tokens(rng, case['bind_shape'])
        if xf == 'blank-bind-shape':
            bind = '<bind_shape_matrix/>'
        nj, nv = len(case['joints_inputs']), len(case['vw_inputs'])
        # which input carries an input-level fault: a <joints> one or a <vertex_weights> one
        in_joints = xf in ('no-hash', 'no-source-attr') and xk % 2 == 0
        jf = (xk // 2) % nj if in_joints else None
        vf = (xk // 2) % nv if (xf in ('no-hash', 'no-source-attr') and not in_joints) or xf in ('no-offset', 'bad-offset') else None
        decoy_j = '<x:input%s semantic="JOINT" source="#mats-src"/>' % DEC if case.get('decoys') else ''
        joints = '<joints>%s%s</joints>' % (decoy_j, ''.join(inp(k, s_, i, None, jf) for k, (s_, i) in enumerate(case['joints_inputs'])))
        vtoks = list(case['v'])
        if xf == 'word-in-v':
            vtoks.insert(xk % (len(vtoks) + 1), 'x')
        vctoks = list(case['vcount'])
        if xf == 'float-in-vcount':
            vctoks.insert(xk % (len(vctoks) + 1), '1.0')
        parts = [''.join(inp(k, s_, i, o, vf) for k, (s_, i, o) in enumerate(case['vw_inputs'])),
                 '' if xf == 'no-vcount' else text_el('vcount', join_tokens(rng, vctoks), case['empty_style']),
                 '' if xf == 'no-v' else text_el('v', join_tokens(rng, vtoks), case['empty_style'])]
        decoy_v = '<x:v%s>99 99 99</x:v><x:vcount%s>7</x:vcount>' % (DEC, DEC) if case.get('decoys') else ''
        vw = '<vertex_weights count="%d">%s%s</vertex_weights>' % (len(case['vcount']), decoy_v, ''.join(parts[i] for i in case['vw_order']))
        if xf == 'no-vertex-weights':
            vw = ''
        decoy_s = '<x:source%s id="joints-src"/><x:bind_shape_matrix%s>0</x:bind_shape_matrix>' % (DEC, DEC) if case.get('decoys') else ''
        body = '<skin source="#%s">%s%s%s%s%s</skin>' % (case['source_geom'], decoy_s, bind, srcs, joints, vw)
    else:
        method = '' if case['method'] is None else ' method="%s"' % case['method']
        mf = xk % max(1, len(case['targets_inputs'])) if xf == 'no-hash-input' else None
        targets = '<targets>%s</targets>' % ''.join(inp(k, s_, i, None, mf) for k, (s_, i) in enumerate(case['targets_inputs']))
        base = ' source="#%s"' % case['base']
        if xf == 'no-hash-base':
            base = ' source="%s"' % case['base']
        elif xf == 'no-base-attr':
            base = ''
        body = '<morph%s%s>%s%s</morph>' % (base, method, srcs, targets)
    def chain(mats, inner):
        """nested <node><matrix/>...</node> around `inner` (at least one node)"""
        for m in reversed(mats):
            counter[0] += 1
            inner = '<node id="node%d"><matrix>%s</matrix>%s</node>' % (counter[0], ' '.join(str(x) for x in m), inner)
        if not mats:
            counter[0] += 1
            inner = '<node id="node%d">%s</node>' % (counter[0], inner)
        return inner

    scene = case.get('scene') or {'kind': 'direct', 'nodes': case['nodes']}
    libnodes = ''
    inst = '<instance_controller url="#%s"/>' % cid
    if scene['kind'] == 'direct':
        inner = chain(scene['nodes'], inst)
    else:
        libnodes = '<node id="rig-%s">%s</node>' % (cid, chain(scene['rig'], inst))
        tops = []
        for k, u in enumerate(scene['uses']):
            use = '<instance_node url="#rig-%s"/>' % cid
            if k == 0 and scene['nested_extra'] is not None:
                use += chain(scene['nested_extra'], '<instance_node url="#rig-%s"/>' % cid)
            tops.append(chain(u, use))
        inner = ''.join(tops)
    return body, libnodes, inner


# ------------------------------------------------------------------ encoding

SEM = {'JOINT': 'SJoint', 'INV_BIND_MATRIX': 'SInvBind', 'WEIGHT': 'SWeight', 'MORPH_TARGET': 'SMorphTarget',
       'MORPH_WEIGHT': 'SMorphWeight'}


class Interner:
    """atoms of the shared vocabulary (harness/enc/atoms.py); other strings from 1000 upward"""

    def __init__(self):
        from harness.enc import xml2coq
        self.enc = xml2coq.Enc()

    def __call__(self, s):
        return 'a %d' % self.enc.I.atom(s)


def xml_case(I, case, code, o):
    """the <controller> element read from the document bytes with xml.etree -> XmlCase term"""
    import xml.etree.ElementTree as ET
    root = ET.fromstring(case['xml'].encode('utf-8'))
    el = None
    for c in root.iter('{%s}controller' % case.get('doc_ns', NS)):
        if c.get('id') == case.get('cid', 'ctrl'):
            el = c
    if el is None:
        return None
    term = I.enc.element(el)
    nums = [None] * len(I.enc.nums)
    for tok, k in I.enc.nums.items():
        nums[k] = int(round(float(tok) * WDEN))
    return '(XmlCase (%s) %s %s %s (n %d) (%s))' % (
        I(case.get('doc_ns', NS)), zl(nums), clist([I(g['id']) for g in case['geoms']]), term, code, o)


def zl(xs):
    return clist([str(int(x)) for x in xs])


def c_src(I, s):
    if s['type'] == 'float':
        return '(SrcFloats (n 1) %s)' % zl(s['values'])
    return '(SrcNames %s %s)' % (cbool(s['type'] == 'IDREF'), clist([I(x) for x in s['values']]))


def c_scope(I, case):
    return clist(['(%s, %s)' % (I(s['id']), c_src(I, s)) for s in case['sources']])


def encode(case, obs):
    """-> list of Coq case terms (skin/morph case, plus a BoundCase when a bound skin was seen)"""
    I = Interner()
    out = []
    code = obs['code']
    if case['kind'] == 'skin':
        d = '(mk_skin_desc %s %s %s %s %s %s %s)' % (
            c_scope(I, case), cbool(case['source_geom'] in [g['id'] for g in case['geoms']]),
            copt(None if case['bind_shape'] is None else zl(case['bind_shape'])),
            clist(['(%s, %s)' % (SEM.get(s, 'SOther'), I(i)) for s, i in case['joints_inputs']]),
            clist(['(%s, %s, %d)' % (SEM.get(s, 'SOther'), I(i), o) for s, i, o in case['vw_inputs']]),
            clist(['n %d' % c for c in case['vcount']]), zl(case['v']))
        view = obs.get('view')
        if code == 0 and view is not None:
            if view['bind_shape'] is None or any(m is None for _, m in view['joint_matrices']):
                return None
            o = 'Some (mk_skin_view (n %d) %s %s %s %s %s)' % (
                view['nind'], clist([clist([zl(r) for r in g]) for g in view['groups']]),
                clist([zl(c) for c in view['joint_index']]), clist([zl(c) for c in view['weight_index']]),
                clist(['(%s, %s)' % (I(nm), zl(m)) for nm, m in view['joint_matrices']]), zl(view['bind_shape']))
        else:
            o = 'None'
        if not case.get('xml_fault'):
            out.append('(SkinCase %s (n %d) (%s))' % (d, code, o))
        xc = xml_case(I, case, code, o.replace('Some (mk_skin_view', 'Some (LSkin (mk_skin_view') + (')' if o != 'None' else ''))
        if xc:
            out.append(xc)
        if obs.get('bound') is not None and code == 0 and view is not None and view['bind_shape'] is not None:
            # obs['bound'][r] = for traversal r, one bound matrix per path (paired with the paths in canonical order)
            paths = case.get('paths') or [case['nodes']]
            for trav in obs['bound']:
                for path, M in zip(paths, trav):
                    out.append('(BoundCase %s %s %s)' % (clist([zl(m) for m in path]), zl(view['bind_shape']), zl(M)))
    else:
        d = '(mk_morph_desc %s (Some (%s)) %s %s %s)' % (
            c_scope(I, case), I(case['base']), cbool(case['method'] in (None, 'NORMALIZED', 'RELATIVE')),
            clist(['(%s, %s)' % (SEM.get(s, 'SOther'), I(i)) for s, i in case['targets_inputs']]),
            clist([I(g['id']) for g in case['geoms']]))
        view = obs.get('view')
        if code == 0 and view is not None:
            ws_ = [w * WDEN for _, w in view['pairs']]
            if any(w != int(w) for w in ws_):
                return None
            o = 'Some (%s, %s)' % (I(view['base']), clist(['(%s, %d)' % (I(t), int(w)) for (t, _), w in zip(view['pairs'], ws_)]))
        else:
            o = 'None'
        if not case.get('xml_fault'):
            out.append('(MorphCase %s (n %d) (%s))' % (d, code, o))
        if o == 'None':
            xo = 'None'
        else:
            xo = 'Some (LMorph (%s) %s)' % (I(view['base']), clist(['(%s, %d)' % (I(t), int(w)) for (t, _), w in zip(view['pairs'], ws_)]))
        xc = xml_case(I, case, code, xo)
        if xc:
            out.append(xc)
    return out


# ------------------------------------------------------------------ running

def crashed(case, reason):
    return {'obs': None, 'fails': [{'clause': 'crash-or-hang', 'site': case.get('kind'),
                                    'what': 'the implementation worker died on this controller document: %s' % reason}]}


def run_impl_cases(cases, chunk=100):
    from concurrent.futures import ThreadPoolExecutor
    chunks = [cases[i:i + chunk] for i in range(0, len(cases), chunk)]

    def one(ch):
        return core.run_cases_bisect('c19', ch, lambda cs: {'cases': cs}, crashed, timeout=120)
    with ThreadPoolExecutor(max_workers=core.NCPU) as ex:
        outs = list(ex.map(one, chunks))
    return [r for out in outs for r in out]


def failures_of(cases, results, limit=6):
    out, seen = [], set()
    for c, r in zip(cases, results):
        for f in r['fails']:
            sig = 'C19:%s:%s' % (f['clause'], f['site'])
            if sig in seen:
                continue
            seen.add(sig)
            out.append({'signature': sig, 'clause': f['clause'], 'what': f['what'], 'input': c})
            if len(out) >= limit:
                return out
    return out


def gen_batch(rng, nskin, nmorph):
    cases = []
    for _ in range(nskin):
        r = rng.random()
        fault = (rng.choice(FAULTS) if r < 0.38 else rng.choice(REF_FAULTS_SKIN) if r < 0.46
                 else rng.choice(sorted(XML_FAULTS_SKIN)) if r < 0.56 else None)
        cases.append(gen_skin(rng, fault))
    for _ in range(nmorph):
        r = rng.random()
        cases.append(gen_morph(rng, 'mismatch' if r < 0.25 else rng.choice(REF_FAULTS_MORPH) if r < 0.4
                               else rng.choice(sorted(XML_FAULTS_MORPH)) if r < 0.5 else None))
    return cases


def corpus_cases():
    d = os.path.join(core.VERIF, 'corpus', 'C19')
    out = []
    if os.path.isdir(d):
        for fn in sorted(os.listdir(d)):
            if fn.endswith('.json'):
                out.append(json.load(open(os.path.join(d, fn))))
    return out


def run(ctx):
    build_ok, obl, regen = core.std_setup(ctx)
    quick = ctx.quick()
    cases = corpus_cases()
    ncorpus = len(cases)
    cases += gen_batch(ctx.rng, *((600, 200) if quick else (9000, 3000)))
    ctx.log('loading %d controller documents through collada.Collada' % len(cases))
    results = run_impl_cases(cases)
    failures = failures_of(cases, results)
    terms, owner, mismatches, unenc = [], [], [], 0
    for i, (c, r) in enumerate(zip(cases, results)):
        if r.get('obs') is None:
            continue
        ts = encode(c, r['obs'])
        for k, sub in enumerate(c.get('extras') or []):
            eo = (r['obs'].get('extras') or [])
            if ts is not None and k < len(eo) and eo[k].get('view') is not None:
                more = encode(dict(sub, xml=c['xml']), eo[k])
                ts = None if more is None else ts + more
        if ts is None:
            unenc += 1
            mismatches.append({'case_index': i, 'input': c, 'why': 'observed matrices / weights are not the generated integers',
                               'implementation_observed': r['obs'], 'explained_by_known': False})
            continue
        for t in ts:
            terms.append(t)
            owner.append(i)
    ctx.log('evaluating the model on %d cases inside Coq' % len(terms))
    bad, errors = core.coq_eval_cases(ctx, HEADER, CASE_TYPE, terms, 'C19.mismatches', chunk=150)
    for b in bad[:20]:
        i = owner[b]
        mismatches.append({'case_index': i, 'input': cases[i], 'implementation_observed': results[i].get('obs'),
                           'coq_term': terms[b][:3000], 'explained_by_known': False})
    seen = set()
    dist = {'kind': {}, 'fault': {}, 'joint_array': {}, 'offsets': {}, 'vertices': {}, 'zero_influence_vertices': 0,
            'nodes': {}, 'codes': {}}

    def bump(d, k):
        d[str(k)] = d.get(str(k), 0) + 1
    for c, r in zip(cases, results):
        bump(dist['kind'], c['kind'])
        bump(dist['fault'], c['fault'])
        bump(dist['nodes'], len(c['nodes']))
        bump(dist.setdefault('document_namespace', {}), c.get('ns', NS))
        bump(dist.setdefault('controllers_per_document', {}), 1 + len(c.get('extras') or []))
        bump(dist.setdefault('paths_to_controller', {}), len(c.get('paths') or [1]))
        bump(dist['codes'], (r.get('obs') or {}).get('code'))
        if c['kind'] == 'skin':
            bump(dist['joint_array'], next(s['type'] for s in c['sources'] if s['id'] == 'joints-src'))
            bump(dist['offsets'], sorted((s, o) for s, _, o in c['vw_inputs']))
            bump(dist['vertices'], len(c['vcount']))
            dist['zero_influence_vertices'] += sum(1 for x in c['vcount'] if x == 0)
            nontrivial = len(c['vcount']) >= 2
        else:
            nontrivial = len(c['expect'].get('pairs', [])) >= 1 or c['fault'] is not None
        if nontrivial:
            seen.add(core.canon_hash([c['kind'], c['sources'], c.get('vcount'), c.get('v'), c.get('vw_inputs'),
                                      c.get('targets_inputs'), c.get('bind_shape'), c['nodes'], c.get('scene')]))
    corr = {
        'evaluations': len(cases),
        'distinct_nontrivial': len(seen),
        'rule': 'generated controller documents (own XML generator, loaded through collada.Collada): skins with 1-6 joints, '
                '0-9 vertices with 0-4 influences each, JOINT/WEIGHT offsets in either order (also gapped and shared), '
                'Name and IDREF joint arrays, optional bind shape matrix, optional separate JOINT source for the weights, '
                'faults (index beyond its source, <v> too short, <v> too long, joint/matrix count mismatch); morphs with 0-5 '
                'targets, both methods and none, target/weight count mismatch; instantiated under 0-3 nested integer '
                'matrix nodes, or kept in a <library_nodes> rig that is instantiated 2-5 times through <instance_node> '
                '(one use possibly nested) under different matrix chains, traversed twice; non-trivial = skin with at least two vertices, or morph with a target or a fault',
        'samples': [{'kind': c['kind'], 'fault': c['fault'], 'vcount': c.get('vcount'), 'v': c.get('v'),
                     'vw_inputs': c.get('vw_inputs'), 'observed': (r.get('obs') or {}).get('code')}
                    for c, r in list(zip(cases, results))[ncorpus:ncorpus + 3]],
        'distribution': dict(dist, coq_cases=len(terms), corpus_cases=ncorpus, unencodable=unenc),
        'mismatches': mismatches,
        'errors': errors,
    }

    def search(mm):
        extra = gen_batch(ctx.rng, 3000, 1000)
        return failures_of(extra, run_impl_cases(extra))

    return core.finish(
        ctx, obligations=obl, regen=regen, build_ok=build_ok, corr=corr, failures=failures, search=search,
        trusted_base=core.BASE_TRUST + [
            'hand-written model Model/Skin.v of Skin.load + Skin.__init__, Morph.load and BoundSkin, starting from the '
            'parsed description of the <controller> element (the harness generates the XML from the same description)',
            'the XML generator and the expectation it derives (cumulative-sum partition) used by the direct oracle',
        ],
        assumptions=['vcount entries and offsets are non-negative; source ids are unique; indices below zero are not generated '
                     '(the loader checks the upper bound only)',
                     'reference-level faults (missing sources, wrong source kinds) are modelled but not exercised: they are '
                     'outside the property\'s list of faults'])


def replay(ctx, body):
    case = body.get('input') or (body.get('mismatching_cases') or [{}])[0].get('input')
    r = run_impl_cases([case])[0]
    print(json.dumps(r['fails'], indent=1))
    if r['fails']:
        print('VIOLATION property=C19 replay=%s' % body.get('replay_cmd', '').split()[-1])
        return 1
    print('replay: the property clauses hold on this controller document now')
    return 0
