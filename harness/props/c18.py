"""C18 - generated normals are the normalised sum of incident face normals; generated texture
tangents are unit and orthogonal to the normal."""
import json
import math
import os
import struct
from fractions import Fraction

from harness import core
from harness.core import clist

HEADER = ('From Coq Require Import List ZArith.\n'
          'From PC Require Import Model.Normals Check.C18.\n'
          'Import ListNotations.\nOpen Scope Z_scope.\n'
          'Definition T (a b c : Z) : tri := (Z.to_nat a, Z.to_nat b, Z.to_nat c).\n')
CASE_TYPE = 'C18.case'
NS = 'http://www.collada.org/2005/11/COLLADASchema'


def f32(x):
    return struct.unpack('f', struct.pack('f', x))[0]


# ------------------------------------------------------------------ lattice meshes

def collinear(a, b, c):
    u = [b[i] - a[i] for i in range(3)]
    w = [c[i] - a[i] for i in range(3)]
    cr = (u[1] * w[2] - u[2] * w[1], u[2] * w[0] - u[0] * w[2], u[0] * w[1] - u[1] * w[0])
    return cr == (0, 0, 0)


def plane_point(rng, axis, k, G):
    p = [rng.randint(0, G) for _ in range(3)]
    p[axis] = k
    return tuple(p)


def place(tri, corner):
    """cyclic rotation (orientation kept) putting tri[0] into the given corner"""
    h, p, q = tri
    return [(h, p, q), (q, h, p), (p, q, h)][corner]


def gen_lattice_tris(rng):
    G = rng.choice([1, 2, 2, 3, 4])
    out = []
    for _ in range(rng.choice([1, 1, 2, 3])):
        h = tuple(rng.randint(0, G) for _ in range(3))
        M = rng.choice([2, 3, 4, 5, 6, 8, 12])
        same = rng.randrange(3)
        for _ in range(M):
            for _try in range(50):
                axis = rng.randrange(3)
                p = plane_point(rng, axis, h[axis], G)
                q = plane_point(rng, axis, h[axis], G)
                if not collinear(h, p, q):
                    break
            else:
                continue
            if rng.random() < 0.5:
                p, q = q, p
            corner = same if rng.random() < 0.8 else rng.randrange(3)
            out.append(place((h, p, q), corner))
    for _ in range(rng.choice([0, 0, 1, 2, 4, 6])):
        for _try in range(50):
            axis = rng.randrange(3)
            k = rng.randint(0, G)
            a, b, c = (plane_point(rng, axis, k, G) for _ in range(3))
            if not collinear(a, b, c):
                out.append((a, b, c))
                break
    rng.shuffle(out)
    return out, G


def index_mesh(rng, tris_pts, G, soup=False):
    """vertex array + index triples: positions shared by default, a few split, a few unused;
    soup: no point is shared or unused (points == 3 * triangles) and the index is a permutation"""
    pos2idx = {}
    verts = []
    tris = []
    for tri in tris_pts:
        row = []
        for p in tri:
            if p in pos2idx and rng.random() < 0.93 and not soup:
                row.append(pos2idx[p])
            else:
                verts.append(p)
                if p not in pos2idx:
                    pos2idx[p] = len(verts) - 1
                row.append(len(verts) - 1)
        tris.append(row)
    for _ in range(0 if soup else rng.choice([0, 0, 0, 1, 2])):
        verts.append(tuple(rng.randint(0, G) for _ in range(3)))
    perm = list(range(len(verts)))
    rng.shuffle(perm)            # perm[old] = new
    nv = [None] * len(verts)
    for old, new in enumerate(perm):
        nv[new] = verts[old]
    tris = [[perm[i] for i in row] for row in tris]
    return nv, tris


def layout(rng, want_normal, want_uv, stale=False):
    sems = ['VERTEX'] + (['NORMAL'] if want_normal else []) + (['TEXCOORD'] if want_uv else []) + \
        (['TEXTANGENT', 'TEXBINORMAL'] if stale else [])
    nind = len(sems) + rng.choice([0, 0, 1])
    offs = rng.sample(range(nind), len(sems))
    if rng.random() < 0.3:
        offs = list(range(len(sems)))
    # the library derives the stride from the largest offset
    return dict(zip(sems, offs)), max(offs) + 1


def flat_index(nind, cols, ntri):
    """cols: {offset: list of index triples}"""
    out = []
    for i in range(ntri):
        for c in range(3):
            for o in range(nind):
                out.append(cols[o][i][c] if o in cols else 0)
    return out


# powers of two over the whole range in which float32 edge vectors and their squares are representable
SCALE_EXPS = [0, 0, 0, 0, -56, -50, -44, -38, -33, -28, -20, -16, -13, -10, -7, -4, -1, 2, 5, 9, 12, 16, 20,
              26, 31, 36, 42, 48, 56]


def rand_matrix(rng, tstep=1, tden=1):
    """signed permutation with an independent integer scale per axis (non-uniform, mirrors included:
    axis-parallel planes stay axis-parallel) and a translation of a few lattice steps.
    -> (12 row-major entries, translation numerators over tden)"""
    perm = [0, 1, 2]
    rng.shuffle(perm)
    uniform = rng.random() < 0.4
    s0 = rng.choice([1, 1, 2])
    m, tnum = [], []
    for r in range(3):
        t = rng.randint(-3, 3) * tstep
        row = [0, 0, 0, t / tden]
        row[perm[r]] = (s0 if uniform else rng.choice([1, 2, 3])) * rng.choice([1, -1])
        m.extend(row)
        tnum.append(t)
    return m, tnum


def mat3_mul(a, b):
    return [[sum(a[i][k] * b[k][j] for k in range(3)) for j in range(3)] for i in range(3)]


def rand_nonrigid3(rng):
    """integer 3x3: non-uniform scales, shears, mirrors and products of two of them"""
    def one():
        k = rng.choice(['diag', 'shear', 'mirror', 'perm'])
        m = [[1 if i == j else 0 for j in range(3)] for i in range(3)]
        if k == 'diag':
            for i in range(3):
                m[i][i] = rng.choice([1, 2, 3, -1, -2])
        elif k == 'shear':
            i, j = rng.sample(range(3), 2)
            m[i][j] = rng.choice([1, 2, -1])
        elif k == 'mirror':
            i = rng.randrange(3)
            m = [[1 if a == b else 0 for b in range(3)] for a in range(3)]
            m[i][i] = -1
        else:
            p = [0, 1, 2]
            rng.shuffle(p)
            m = [[1 if p[a] == b else 0 for b in range(3)] for a in range(3)]
        return m
    m = one()
    if rng.random() < 0.5:
        m = mat3_mul(m, one())
    return m


def fmt(x):
    r = repr(float(x))
    return r[:-2] if r.endswith('.0') else r


def source_xml(sid, rows, names):
    flat = [fmt(x) for row in rows for x in row]
    params = ''.join('<param name="%s" type="float"/>' % n for n in names)
    return ('<source id="%s"><float_array id="%s-array" count="%d">%s</float_array><technique_common>'
            '<accessor source="#%s-array" count="%d" stride="%d">%s</accessor></technique_common></source>'
            % (sid, sid, len(flat), ' '.join(flat), sid, len(rows), len(names), params))


def doc_xml(case):
    inputs = case['inputs']
    parts = [source_xml('vsrc', case['fverts'], 'XYZ')]
    if inputs.get('NORMAL') is not None:
        parts.append(source_xml('nsrc', case['fnormals'], 'XYZ'))
    if inputs.get('TEXCOORD') is not None:
        parts.append(source_xml('tsrc', case['fuvs'], 'ST'))
    if inputs.get('TEXTANGENT') is not None:
        parts.append(source_xml('tansrc', case['fstale'], 'XYZ'))
        parts.append(source_xml('binsrc', case['fstale'], 'XYZ'))
    parts.append('<vertices id="vtx"><input semantic="POSITION" source="#vsrc"/></vertices>')
    inp = ['<input semantic="VERTEX" source="#vtx" offset="%d"/>' % inputs['VERTEX']]
    if inputs.get('NORMAL') is not None:
        inp.append('<input semantic="NORMAL" source="#nsrc" offset="%d"/>' % inputs['NORMAL'])
    if inputs.get('TEXCOORD') is not None:
        inp.append('<input semantic="TEXCOORD" source="#tsrc" offset="%d" set="0"/>' % inputs['TEXCOORD'])
    if inputs.get('TEXTANGENT') is not None:
        inp.append('<input semantic="TEXTANGENT" source="#tansrc" offset="%d" set="0"/>' % inputs['TEXTANGENT'])
        inp.append('<input semantic="TEXBINORMAL" source="#binsrc" offset="%d" set="0"/>' % inputs['TEXBINORMAL'])
    order = list(range(len(inp)))
    if case.get('input_order'):
        order = case['input_order']
    inp = [inp[i] for i in order]
    parts.append('<triangles count="%d" material="mat">%s<p>%s</p></triangles>'
                 % (len(case['tris']), ''.join(inp), ' '.join(str(i) for i in case['index'])))
    m = case.get('mat') or [1, 0, 0, 0, 0, 1, 0, 0, 0, 0, 1, 0]
    mat = ' '.join(fmt(x) for x in (list(m) + [0, 0, 0, 1]))
    return ('<?xml version="1.0" encoding="utf-8"?>\n<COLLADA xmlns="%s" version="1.4.1">'
            '<asset><created>2020-01-01T00:00:00Z</created><modified>2020-01-01T00:00:00Z</modified></asset>'
            '<library_geometries><geometry id="g" name="g"><mesh>%s</mesh></geometry></library_geometries>'
            '<library_visual_scenes><visual_scene id="vs"><node id="n0"><matrix>%s</matrix>'
            '<instance_geometry url="#g"/></node></visual_scene></library_visual_scenes>'
            '<scene><instance_visual_scene url="#vs"/></scene></COLLADA>' % (NS, ''.join(parts), mat))


AXIS_UNITS = [(1, 0, 0), (-1, 0, 0), (0, 1, 0), (0, -1, 0), (0, 0, 1), (0, 0, -1)]


def finish_case(rng, case):
    ntri = len(case['tris'])
    cols = {case['inputs']['VERTEX']: case['tris']}
    if case['inputs'].get('NORMAL') is not None:
        cols[case['inputs']['NORMAL']] = case['ntris']
    if case['inputs'].get('TEXCOORD') is not None:
        cols[case['inputs']['TEXCOORD']] = case['uvtris']
    if case['inputs'].get('TEXTANGENT') is not None:
        cols[case['inputs']['TEXTANGENT']] = case['staletris']
        cols[case['inputs']['TEXBINORMAL']] = case['staletris']
    case['index'] = flat_index(case['nind'], cols, ntri)
    if case['mode'] in ('xml', 'bound-xml'):
        n = len(case['inputs'])
        case['input_order'] = rng.sample(range(n), n)
        case['xml'] = doc_xml(case)
    return case


def scale_lattice(rng, verts, vden0):
    """scale the lattice by a power of two: -> (integer rows, denominator, lattice step numerator)"""
    e = rng.choice(SCALE_EXPS)
    if e >= 0:
        return [[x * 2 ** e for x in p] for p in verts], vden0, 2 ** e, e
    return verts, vden0 * 2 ** (-e), 1, e


def gen_lattice_normals(rng):
    while True:
        tp, G = gen_lattice_tris(rng)
        if tp:
            break
    soup = rng.random() < 0.12
    verts, tris = index_mesh(rng, tp, G, soup)
    vden0 = rng.choice([1, 1, 2, 4])
    shift = [rng.randint(-3, 3) * vden0 for _ in range(3)]
    verts = [[p[i] + shift[i] for i in range(3)] for p in verts]
    verts, vden, step, e = scale_lattice(rng, verts, vden0)
    inputs, nind = layout(rng, False, rng.random() < 0.2)
    mode = rng.choice(['api', 'xml', 'bound-api', 'bound-xml'])
    case = {'kind': 'normals', 'lattice': True, 'mode': mode, 'vden': vden, 'verts': verts, 'scale_exp': e,
            'fverts': [[x / vden for x in p] for p in verts], 'tris': tris, 'inputs': inputs, 'nind': nind}
    if 'TEXCOORD' in inputs:
        case['fuvs'] = [[0.0, 0.0], [1.0, 0.0], [0.0, 1.0]]
        case['uvtris'] = [[0, 1, 2] for _ in tris]
    if mode.startswith('bound'):
        case['mat'], case['mat_tnum'] = rand_matrix(rng, step * vden0, vden)
        case['seq'] = rng.choice(['bound-gen', 'unbound-first', 'unbound-first', 'bound-gen-twice', 'bound-gen-edit-gen'])
    else:
        case['seq'] = rng.choice(['gen', 'gen', 'gen-twice', 'gen-edit-gen', 'gen-edit-gen'])
    if 'edit' in case['seq']:
        # the vertex array is rewritten in place between two generateNormals() calls
        case['edit_mat'], case['edit_tnum'] = rand_matrix(rng, step * vden0, vden)
    case['soup'] = soup
    return finish_case(rng, case)



def add_stale(rng, case, tris):
    """the set already carries TEXTANGENT / TEXBINORMAL inputs (to be replaced by the generated ones)"""
    case['fstale'] = [[1.0, 0.0, 0.0], [0.0, 1.0, 0.0], [0.6, 0.0, 0.8]]
    case['staletris'] = [[rng.randrange(3) for _ in range(3)] for _ in tris]


def uv_det(uvs, u):
    a, b, c = uvs[u[0]], uvs[u[1]], uvs[u[2]]
    return (b[0] - a[0]) * (c[1] - b[1]) - (c[0] - b[0]) * (b[1] - a[1])


def gen_lattice_tangents(rng):
    while True:
        tp, G = gen_lattice_tris(rng)
        if tp:
            break
    verts, tris = index_mesh(rng, tp, G)
    verts, vden, _step, e = scale_lattice(rng, [list(p) for p in verts], rng.choice([1, 1, 2]))
    H = rng.choice([2, 3, 4])
    uvs = [[s, t] for s in range(H + 1) for t in range(H + 1)]
    uvden = rng.choice([1, 2, 4])
    uvtris = []
    for _ in tris:
        while True:
            u = [rng.randrange(len(uvs)) for _ in range(3)]
            if abs(uv_det(uvs, u)) in (1, 2, 4, 8):
                uvtris.append(u)
                break
    # normals: the six axis units; per corner either the true face axis or any axis
    ntris = []
    for t in tris:
        a, b, c = (verts[i] for i in t)
        u = [b[i] - a[i] for i in range(3)]
        w = [c[i] - a[i] for i in range(3)]
        cr = (u[1] * w[2] - u[2] * w[1], u[2] * w[0] - u[0] * w[2], u[0] * w[1] - u[1] * w[0])
        sg = tuple((x > 0) - (x < 0) for x in cr)
        true_axis = AXIS_UNITS.index(sg)
        ntris.append([true_axis if rng.random() < 0.6 else rng.randrange(6) for _ in range(3)])
    stale = rng.random() < 0.35
    inputs, nind = layout(rng, True, True, stale)
    case = {'kind': 'tangents', 'lattice': True, 'tan_seq': rng.choice([['tan'], ['tan'], ['tan', 'tan']]), 'mode': rng.choice(['api', 'xml']), 'vden': vden, 'verts': verts, 'scale_exp': e,
            'fverts': [[x / vden for x in p] for p in verts], 'tris': tris, 'inputs': inputs, 'nind': nind,
            'uvden': uvden, 'uvs': uvs, 'fuvs': [[x / uvden for x in p] for p in uvs], 'uvtris': uvtris,
            'normals': [list(a) for a in AXIS_UNITS], 'fnormals': [[float(x) for x in a] for a in AXIS_UNITS],
            'ntris': ntris}
    if stale:
        add_stale(rng, case, tris)
    if case['mode'] == 'api' and uvden == 1 and rng.random() < 0.6:
        case['uv_dtype'] = rng.choice(['int32', 'int64'])     # whole-number UVs kept in an integer array
    return finish_case(rng, case)


# ------------------------------------------------------------------ random float meshes (oracle only)

def shaped(verts, tris, thr):
    for t in tris:
        a, b, c = (verts[i] for i in t)
        u = [b[i] - a[i] for i in range(3)]
        w = [c[i] - a[i] for i in range(3)]
        cr = (u[1] * w[2] - u[2] * w[1], u[2] * w[0] - u[0] * w[2], u[0] * w[1] - u[1] * w[0])
        lu, lw, lc = (math.sqrt(sum(x * x for x in v)) for v in (u, w, cr))
        if lu < 0.3 or lw < 0.3 or lc < thr * lu * lw:
            return False
    return True


def apply3(lin, verts):
    return [[sum(lin[r][k] * p[k] for k in range(3)) for r in range(3)] for p in verts]


def float_matrix(rng, cur, tris, sc):
    """a bind / edit matrix for a float mesh whose current (unscaled) vertices are `cur`: non-rigid when
    that keeps the triangles well shaped -> (12 entries with the translation at the mesh's scale, new cur)"""
    lin = rand_nonrigid3(rng) if rng.random() < 0.6 else None
    if lin is not None and not shaped(apply3(lin, cur), tris, 0.15):
        lin = None
    if lin is None:
        m, _ = rand_matrix(rng)
        lin = [[int(m[4 * r + k]) for k in range(3)] for r in range(3)]
        if not shaped(apply3(lin, cur), tris, 0.1):
            lin = [[1 if i == j else 0 for j in range(3)] for i in range(3)]
            lin[rng.randrange(3)][rng.randrange(3)] *= -1
    mat = [x for r in range(3) for x in (lin[r] + [rng.randint(-3, 3) * sc])]
    return mat, apply3(lin, cur)


def gen_float_case(rng, kind):
    if kind == 'normals' and rng.random() < 0.12:
        return gen_float_soup(rng)
    nv = rng.randint(3, 9)
    verts = [[f32(rng.uniform(-4, 4)) for _ in range(3)] for _ in range(nv)]
    tris = []
    want = rng.randint(1, 14)
    hub = rng.randrange(nv)
    corner = rng.randrange(3)
    for _ in range(want * 20):
        if len(tris) >= want:
            break
        if rng.random() < 0.6:
            others = rng.sample([i for i in range(nv) if i != hub], 2)
            t = list(place((hub, others[0], others[1]), corner if rng.random() < 0.8 else rng.randrange(3)))
        else:
            t = rng.sample(range(nv), 3)
        a, b, c = (verts[i] for i in t)
        u = [b[i] - a[i] for i in range(3)]
        w = [c[i] - a[i] for i in range(3)]
        cr = (u[1] * w[2] - u[2] * w[1], u[2] * w[0] - u[0] * w[2], u[0] * w[1] - u[1] * w[0])
        lu, lw, lc = (math.sqrt(sum(x * x for x in v)) for v in (u, w, cr))
        if lu < 0.3 or lw < 0.3 or lc < 0.2 * lu * lw:
            continue
        tris.append(t)
    if not tris:
        return gen_float_case(rng, kind)
    e = rng.choice(SCALE_EXPS)
    sc = 2.0 ** e
    unscaled = verts
    verts = [[x * sc for x in p] for p in verts]          # exact: a power of two
    case = {'kind': kind, 'lattice': False, 'fverts': verts, 'tris': tris, 'scale_exp': e}
    if kind == 'normals':
        case['mode'] = rng.choice(['api', 'xml', 'bound-api', 'bound-xml'])
        case['inputs'], case['nind'] = layout(rng, False, False)
        finish_float_normals(rng, case, unscaled, tris, sc)
    else:
        case['mode'] = rng.choice(['api', 'xml'])
        own = rng.random() < 0.5
        stale = rng.random() < 0.35
        # operations in order: 'gen' = generateNormals(), 'tan' = generateTexTangentsAndBinormals()
        if own:
            case['tan_seq'] = rng.choice([['tan'], ['tan', 'tan'], ['tan', 'gen', 'tan'], ['gen', 'tan'],
                                          ['tan', 'gen', 'gen', 'tan', 'tan']])
        else:
            case['tan_seq'] = rng.choice([['gen', 'tan'], ['gen', 'tan', 'gen', 'tan'], ['gen', 'tan', 'tan'],
                                          ['gen', 'gen', 'tan']])
        case['inputs'], case['nind'] = layout(rng, own, True, stale)
        if stale:
            add_stale(rng, case, tris)
        if own:
            ns = []
            for _ in range(rng.randint(1, 5)):
                v = [rng.gauss(0, 1) for _ in range(3)]
                L = math.sqrt(sum(x * x for x in v)) or 1.0
                ns.append([f32(x / L) for x in v])
            case['fnormals'] = ns
            case['ntris'] = [[rng.randrange(len(ns)) for _ in range(3)] for _ in tris]
        nuv = rng.randint(3, 8)
        whole = rng.random() < 0.3
        if whole:
            # a repeating texture: whole-number UVs, in API mode possibly stored in an integer array
            nuv = rng.randint(4, 9)
            uvs = [[float(rng.randint(0, 4)), float(rng.randint(0, 4))] for _ in range(nuv)]
            if case['mode'] == 'api' and rng.random() < 0.7:
                case['uv_dtype'] = rng.choice(['int32', 'int64'])
        else:
            uvs = [[f32(rng.uniform(0, 1)) for _ in range(2)] for _ in range(nuv)]
        uvtris = []
        for _ in tris:
            for _try in range(200):
                u = rng.sample(range(nuv), 3)
                if abs(uv_det(uvs, u)) > 0.05:
                    break
            else:
                uvs.extend([[0.0, 0.0], [1.0, 0.0], [0.0, 1.0]])
                u = [len(uvs) - 3, len(uvs) - 2, len(uvs) - 1]
            uvtris.append(u)
        case['fuvs'] = uvs
        case['uvtris'] = uvtris
    return finish_case(rng, case)


def finish_float_normals(rng, case, unscaled, tris, sc):
    """mode-dependent part of a float normals case: bind matrix, float64 data far from the origin,
    operation sequence (with an in-place edit of the vertex array between two generateNormals())"""
    cur = unscaled
    api = case['mode'] in ('api', 'bound-api')
    if api and rng.random() < 0.7 and abs(case['scale_exp']) <= 4:
        # geo-referenced data: float64 coordinates of about 1e7 with edges of about 1
        case['dtype64'] = True
        off = [float(rng.randint(-30000000, 30000000)) for _ in range(3)]
        case['fverts'] = [[p[i] + off[i] for i in range(3)] for p in case['fverts']]
    if case['mode'].startswith('bound'):
        case['mat'], cur = float_matrix(rng, cur, tris, sc)
        if case['mode'] == 'bound-api' and rng.random() < 0.4:
            case['mat64'] = True              # Geometry.bind with a double precision matrix
            if abs(case['scale_exp']) <= 4 and rng.random() < 0.6:
                for r in range(3):
                    case['mat'][4 * r + 3] = float(rng.randint(-30000000, 30000000))
        case['seq'] = rng.choice(['bound-gen', 'unbound-first', 'unbound-first', 'bound-gen-twice', 'bound-gen-edit-gen'])
    else:
        case['seq'] = rng.choice(['gen', 'gen', 'gen-twice', 'gen-edit-gen', 'gen-edit-gen'])
    if 'edit' in case['seq']:
        case['edit_mat'], cur = float_matrix(rng, cur, tris, sc)
        if case.get('dtype64') or case.get('mat64'):
            for r in range(3):
                case['edit_mat'][4 * r + 3] = 0.0        # keep the large offset exact under the edit


def gen_float_soup(rng):
    """no point is shared or unused and the index is a permutation (a faceted export, stored e.g.
    corner-major), triangles in different planes"""
    ntri = rng.randint(2, 8)
    pts, tris_pts = [], []
    while len(tris_pts) < ntri:
        tri = [[f32(rng.uniform(-4, 4)) for _ in range(3)] for _ in range(3)]
        if shaped(tri, [[0, 1, 2]], 0.2):
            tris_pts.append(tri)
    layout_kind = rng.choice(['corner-major', 'random', 'reverse'])
    n3 = 3 * ntri
    if layout_kind == 'corner-major':
        slot = {(t, c): c * ntri + t for t in range(ntri) for c in range(3)}
    elif layout_kind == 'reverse':
        slot = {(t, c): n3 - 1 - (3 * t + c) for t in range(ntri) for c in range(3)}
    else:
        perm = list(range(n3))
        rng.shuffle(perm)
        slot = {(t, c): perm[3 * t + c] for t in range(ntri) for c in range(3)}
    unscaled = [None] * n3
    tris = []
    for t in range(ntri):
        tris.append([slot[(t, c)] for c in range(3)])
        for c in range(3):
            unscaled[slot[(t, c)]] = tris_pts[t][c]
    e = rng.choice(SCALE_EXPS)
    sc = 2.0 ** e
    case = {'kind': 'normals', 'lattice': False, 'fverts': [[x * sc for x in p] for p in unscaled], 'tris': tris,
            'scale_exp': e, 'soup': True, 'mode': rng.choice(['api', 'xml', 'bound-api', 'bound-xml'])}
    case['inputs'], case['nind'] = layout(rng, False, False)
    finish_float_normals(rng, case, unscaled, tris, sc)
    return finish_case(rng, case)


# ------------------------------------------------------------------ polygons without normals (oracle only)

def gen_poly_case(rng):
    """a polylist / polygons primitive WITHOUT normals whose polygons are in general skew (non-planar)
    and concave: every Triangle handed out by Polygon.triangles(), by triangleset() and by the bound
    forms must carry the unit right-hand normal of ITS OWN three vertices"""
    nv = rng.randint(4, 9)
    e = rng.choice([0, 0, 0, -40, -20, -7, 3, 12, 30])
    sc = 2.0 ** e
    verts = [[f32(rng.uniform(-4, 4)) * sc for _ in range(3)] for _ in range(nv)]
    polys = [rng.sample(range(nv), rng.randint(3, min(6, nv))) for _ in range(rng.randint(1, 4))]
    case = {'kind': 'poly', 'lattice': False, 'fverts': verts, 'polys': polys, 'tris': [p[:3] for p in polys],
            'scale_exp': e, 'mode': rng.choice(['api', 'xml', 'bound-api', 'bound-xml']),
            'element': rng.choice(['polylist', 'polylist', 'polygons']), 'inputs': {'VERTEX': 0}, 'nind': 1}
    if case['mode'] in ('api', 'bound-api') and abs(e) <= 4 and rng.random() < 0.35:
        case['dtype64'] = True
        off = [float(rng.randint(-30000000, 30000000)) for _ in range(3)]
        case['fverts'] = [[p[i] + off[i] for i in range(3)] for p in verts]
    if case['mode'] == 'bound-api' and rng.random() < 0.4:
        case['mat64'] = True
    if case['mode'].startswith('bound'):
        lin = rand_nonrigid3(rng) if rng.random() < 0.5 else None
        if lin is None:
            case['mat'], _ = rand_matrix(rng)
        else:
            case['mat'] = [x for r in range(3) for x in (lin[r] + [rng.randint(-3, 3)])]
        for r in range(3):
            case['mat'][4 * r + 3] = case['mat'][4 * r + 3] * sc
    if case['mode'] in ('xml', 'bound-xml'):
        flat = ' '.join(str(i) for p_ in polys for i in p_)
        if case['element'] == 'polylist':
            prim = ('<polylist count="%d" material="mat"><input semantic="VERTEX" source="#vtx" offset="0"/>'
                    '<vcount>%s</vcount><p>%s</p></polylist>' % (len(polys), ' '.join(str(len(p_)) for p_ in polys), flat))
        else:
            prim = ('<polygons count="%d" material="mat"><input semantic="VERTEX" source="#vtx" offset="0"/>%s</polygons>'
                    % (len(polys), ''.join('<p>%s</p>' % ' '.join(str(i) for i in p_) for p_ in polys)))
        m = case.get('mat') or [1, 0, 0, 0, 0, 1, 0, 0, 0, 0, 1, 0]
        mat = ' '.join(fmt(x) for x in (list(m) + [0, 0, 0, 1]))
        case['xml'] = ('<?xml version="1.0" encoding="utf-8"?>\n<COLLADA xmlns="%s" version="1.4.1">'
                       '<asset><created>2020-01-01T00:00:00Z</created><modified>2020-01-01T00:00:00Z</modified></asset>'
                       '<library_geometries><geometry id="g" name="g"><mesh>%s<vertices id="vtx">'
                       '<input semantic="POSITION" source="#vsrc"/></vertices>%s</mesh></geometry></library_geometries>'
                       '<library_visual_scenes><visual_scene id="vs"><node id="n0"><matrix>%s</matrix>'
                       '<instance_geometry url="#g"/></node></visual_scene></library_visual_scenes>'
                       '<scene><instance_visual_scene url="#vs"/></scene></COLLADA>'
                       % (NS, source_xml('vsrc', verts, 'XYZ'), prim, mat))
    return case


# ------------------------------------------------------------------ encoding

def cz3(p):
    return '(%d,%d,%d)' % (p[0], p[1], p[2])


def ctri(t):
    return 'T %d %d %d' % (t[0], t[1], t[2])


def rescale(rows, den, common):
    k = common // den
    return [[x * k for x in row] for row in rows]


def expected_verts(case):
    """integer vertex rows (denominator vden) the primitive must hold when generateNormals() runs for
    the last time: the bind matrix applied (bound sets), then the in-place edit (edit sequences)"""
    rows = case['verts']

    def app(m, t, rows):
        return [[int(m[4 * r]) * p[0] + int(m[4 * r + 1]) * p[1] + int(m[4 * r + 2]) * p[2] + t[r] for r in range(3)]
                for p in rows]
    if case['mode'].startswith('bound'):
        m = case['mat']
        rows = app(m, case.get('mat_tnum') or [int(m[4 * r + 3]) * case['vden'] for r in range(3)], rows)
    if case.get('edit_mat'):
        rows = app(case['edit_mat'], case['edit_tnum'], rows)
    return rows


def encode(case, obs):
    """-> (coq term | None, reason)"""
    if obs is None:
        return None, 'no observation'
    ev = expected_verts(case)
    if obs.get('verts') is None:
        return None, 'non-finite vertices'
    rows, den = obs['verts']
    if [[Fraction(x, den) for x in r] for r in rows] != [[Fraction(x, case['vden']) for x in r] for r in ev]:
        return None, 'vertex array of the primitive is not the expected one (outside C18)'
    if obs['tris'] != case['tris']:
        return None, 'vertex_index of the primitive is not the expected one (outside C18)'
    if case['kind'] == 'normals':
        if obs.get('face') is None or obs.get('normal') is None or obs.get('normal_index') is None:
            return 'BAD', 'non-finite or misshapen output'
        (frows, fden), (nrows, nden) = obs['face'], obs['normal']
        common = max(fden, nden)
        frows, nrows = rescale(frows, fden, common), rescale(nrows, nden, common)
        face = [frows[3 * i:3 * i + 3] for i in range(len(case['tris']))] if frows else []
        return ('(NormCase %d%%positive %s %s %d%%positive %s %s %s)' % (
            case['vden'], clist([cz3(p) for p in ev]), clist([ctri(t) for t in case['tris']]), common,
            clist([clist([cz3(r) for r in tri]) for tri in face]), clist([cz3(r) for r in nrows]),
            clist([ctri(t) for t in obs['normal_index']]))), ''
    if obs.get('tangent') is None or obs.get('tangent_index') is None:
        return 'BAD', 'non-finite or misshapen output'
    trows, tden = obs['tangent']
    return ('(TanCase %d%%positive %s %d%%positive %s %s %s %s %s %d%%positive %s %s)' % (
        case['vden'], clist([cz3(p) for p in ev]), case['uvden'],
        clist(['(%d,%d)' % (p[0], p[1]) for p in case['uvs']]), clist([cz3(p) for p in case['normals']]),
        clist([ctri(t) for t in case['tris']]), clist([ctri(t) for t in case['uvtris']]),
        clist([ctri(t) for t in case['ntris']]), tden, clist([cz3(r) for r in trows]),
        clist([ctri(t) for t in obs['tangent_index']]))), ''


# ------------------------------------------------------------------ running

def crashed(case, reason):
    return {'obs': None, 'fails': [{'clause': 'crash-or-hang', 'site': case.get('mode'),
                                    'what': 'the implementation worker died on this triangle set: %s' % reason}]}


def run_impl_cases(cases, chunk=120):
    from concurrent.futures import ThreadPoolExecutor
    chunks = [cases[i:i + chunk] for i in range(0, len(cases), chunk)]

    def one(ch):
        return core.run_cases_bisect('c18', ch, lambda cs: {'cases': cs}, crashed, timeout=120)
    with ThreadPoolExecutor(max_workers=core.NCPU) as ex:
        outs = list(ex.map(one, chunks))
    return [r for out in outs for r in out]


def failures_of(cases, results, limit=6):
    out, seen = [], set()
    for c, r in zip(cases, results):
        for f in r['fails']:
            sig = 'C18:%s:%s' % (f['clause'], f['site'])
            if sig in seen:
                continue
            seen.add(sig)
            out.append({'signature': sig, 'clause': f['clause'], 'what': '%s: %s' % (f['site'], f['what']),
                        'input': c, 'detail': f.get('detail')})
            if len(out) >= limit:
                return out
    return out


def same_corner_multiplicity(case):
    best = 1
    for c in range(3):
        cnt = {}
        for t in case['tris']:
            cnt[t[c]] = cnt.get(t[c], 0) + 1
        best = max(best, max(cnt.values()))
    return best


def corpus_cases():
    d = os.path.join(core.VERIF, 'corpus', 'C18')
    out = []
    if os.path.isdir(d):
        for fn in sorted(os.listdir(d)):
            if fn.endswith('.json'):
                out.append(json.load(open(os.path.join(d, fn))))
    return out


def gen_batch(rng, n_lat_n, n_lat_t, n_flt_n, n_flt_t, n_poly=None):
    cases = []
    cases += [gen_lattice_normals(rng) for _ in range(n_lat_n)]
    cases += [gen_lattice_tangents(rng) for _ in range(n_lat_t)]
    cases += [gen_float_case(rng, 'normals') for _ in range(n_flt_n)]
    cases += [gen_float_case(rng, 'tangents') for _ in range(n_flt_t)]
    cases += [gen_poly_case(rng) for _ in range(n_flt_t if n_poly is None else n_poly)]
    return cases


def run(ctx):
    build_ok, obl, regen = core.std_setup(ctx)
    quick = ctx.quick()
    cases = corpus_cases()
    ncorpus = len(cases)
    cases += gen_batch(ctx.rng, *((500, 200, 400, 200) if quick else (10000, 3000, 6000, 3000)))
    ctx.log('running %d triangle sets on the implementation' % len(cases))
    results = run_impl_cases(cases)
    failures = failures_of(cases, results)
    terms, owner, skipped, mismatches = [], [], {}, []
    for i, (c, r) in enumerate(zip(cases, results)):
        if not c.get('lattice'):
            continue
        term, why = encode(c, r.get('obs'))
        if term is None:
            skipped[why] = skipped.get(why, 0) + 1
        elif term == 'BAD':
            mismatches.append({'case_index': i, 'input': c, 'why': why, 'explained_by_known': False})
        else:
            terms.append(term)
            owner.append(i)
    ctx.log('evaluating the model on %d lattice meshes inside Coq' % len(terms))
    bad, errors = core.coq_eval_cases(ctx, HEADER, CASE_TYPE, terms, 'C18.mismatches', chunk=100)
    for b in bad[:20]:
        i = owner[b]
        mismatches.append({'case_index': i, 'input': cases[i], 'implementation_observed': results[i].get('obs'),
                           'explained_by_known': False})
    seen = set()
    mult, modes, kinds, seqs, scales = {}, {}, {}, {}, {}
    for c in cases:
        m = same_corner_multiplicity(c)
        mult[min(m, 8)] = mult.get(min(m, 8), 0) + 1
        modes[c['mode']] = modes.get(c['mode'], 0) + 1
        k = ('lattice-' if c.get('lattice') else 'float-') + c['kind']
        kinds[k] = kinds.get(k, 0) + 1
        sq = c.get('seq') or ('+'.join(c['tan_seq']) if c.get('tan_seq') else None)
        seqs[sq] = seqs.get(sq, 0) + 1
        for flag in ('soup', 'dtype64', 'mat64', 'uv_dtype'):
            if c.get(flag):
                seqs['flag ' + flag] = seqs.get('flag ' + flag, 0) + 1
        if c.get('fstale'):
            seqs['with existing TEXTANGENT/TEXBINORMAL inputs'] = seqs.get('with existing TEXTANGENT/TEXBINORMAL inputs', 0) + 1
        scales[str(c.get('scale_exp', 0))] = scales.get(str(c.get('scale_exp', 0)), 0) + 1
        if m >= 2:
            seen.add(core.canon_hash([c['fverts'], c['tris'], c['mode'], c.get('uvtris'), c.get('seq'), c.get('mat')]))
    sample = [{'mode': c['mode'], 'kind': c['kind'], 'verts': c.get('verts'), 'vden': c.get('vden'), 'tris': c['tris']}
              for c in cases[ncorpus:ncorpus + 3]]
    corr = {
        'evaluations': len(cases),
        'distinct_nontrivial': len(seen),
        'rule': 'lattice meshes (faces in axis-parallel planes, dyadic coordinates; model run in Coq over Qc, results '
                'compared as exact rationals up to 2^-16) and random well-shaped float32 meshes (float64 oracle only), '
                'scaled by 2^e, e in -20..20, built through the API or loaded from generated XML, unbound or bound '
                '(scene node or Geometry.bind; signed permutations with non-uniform scales, and for the float meshes shears / '
                'mirrors / products), sequences gen | gen twice | bind then gen | gen, bind, gen | bind, gen twice; non-trivial = some vertex occupies the same corner position in at least two triangles; '
                'distinct = different (vertices, index triples, mode, uv triples)',
        'samples': sample,
        'distribution': {'kinds': kinds, 'modes': modes, 'sequences': seqs, 'scale_exponents': scales, 'max_same_corner_multiplicity_histogram': mult,
                         'coq_cases': len(terms), 'lattice_cases_not_sent_to_coq': skipped, 'corpus_cases': ncorpus},
        'mismatches': mismatches,
        'errors': errors,
    }

    def search(mm):
        extra = gen_batch(ctx.rng, 1500, 600, 1500, 600)
        return failures_of(extra, run_impl_cases(extra))

    return core.finish(
        ctx, obligations=obl, regen=regen, build_ok=build_ok, corr=corr, failures=failures, search=search,
        trusted_base=core.BASE_TRUST + [
            'hand-written model Model/Normals.v of Triangle.__init__, generateNormals (both classes) and '
            'generateTexTangentsAndBinormals, tied to the code by the correspondence on lattice meshes',
            'numpy semantics of fancy-indexed += and numpy.add.at as modelled (fancy_iadd / add_at)',
            'float rounding is outside the model: results are compared as exact rationals with tolerance 2^-16; '
            'the float64 oracle uses 1e-3 and skips vertices whose summed normals nearly cancel',
        ],
        assumptions=['non-degenerate triangles and non-zero UV area (the property\'s quantifier); indices in range',
                     'sqrt and division are represented by abstract functions in the ring-level theorems; '
                     'unit length is proved over Coq\'s real numbers'])


def replay(ctx, body):
    case = body.get('input') or (body.get('mismatching_cases') or [{}])[0].get('input')
    r = run_impl_cases([case])[0]
    print(json.dumps(r['fails'], indent=1))
    if r['fails']:
        print('VIOLATION property=C18 replay=%s' % body.get('replay_cmd', '').split()[-1])
        return 1
    print('replay: the property clauses hold on this triangle set now')
    return 0
