"""C10 - item access, iteration and array views of a primitive agree (bound and unbound)."""
import json
import os

from harness import core
from harness.core import cN, cZ, clist, cnat, copt, ctuple
from harness.props import c09 as P9

HEADER = ('From Coq Require Import List ZArith NArith.\n'
          'From PC Require Import Base.Outcome Model.IndexTable Model.PrimCtor Model.PrimIter Check.PrimCase Check.C10.\n'
          'Import ListNotations.\n')
CASE_TYPE = 'C10.case'
FINDING_SIG = 'C10:iteration:zero-corner-polygons-on-empty-index:TypeError'


def gen_matrix(rng):
    r = rng.random()
    if r < 0.2:
        return [[1, 0, 0, 0], [0, 1, 0, 0], [0, 0, 1, 0]]
    if r < 0.4:      # a rotation/reflection with a translation
        perm = rng.sample([0, 1, 2], 3)
        m = [[0] * 4 for _ in range(3)]
        for i, j in enumerate(perm):
            m[i][j] = rng.choice([1, -1])
            m[i][3] = rng.randint(-5, 5)
        return m
    return [[rng.randint(-3, 3) for _ in range(3)] + [rng.randint(-9, 9)] for _ in range(3)]


def gen_big_polylist(rng):
    """many polygons (more corners than a narrow integer type can count) with vcounts handed over in
    every integer dtype / as a list: the corner ranges must not depend on the caller's dtype"""
    npoly = rng.choice([35, 50, 70])
    vcounts = [rng.choice([3, 4, 4, 5]) for _ in range(npoly)]
    two = rng.random() < 0.5
    srcs = [[5, 3]] + ([[4, 3]] if two else [])
    inputs = [[0, 'VERTEX', ['src', 0]]] + ([[1, 'NORMAL', ['src', 1]]] if two else [])
    flat = []
    for _ in range(sum(vcounts)):
        flat.append(rng.randint(0, 4))
        if two:
            flat.append(rng.randint(0, 3))
    case = {'kind': 'polylist', 'via': 'create', 'srcs': srcs, 'inputs': inputs, 'material': rng.choice([None, 1]),
            'dtype': rng.choice(['int32', 'int64']), 'mode': 'big',
            'vcform': rng.choice(['uint8', 'int8', 'int16', 'uint16', 'array', 'list', 'int64']),
            'flat': flat, 'vcounts': vcounts}
    return finish_case(rng, case)


def gen_case(rng, rows=None):
    if rows is None:
        rows = rng.choice([0, 1, 2, 3, 4, 5, 6])
    case = P9.gen_case(rng, rows=rows, modes=(90, 4, 2, 2, 2), clean=rng.random() < 0.9, max_inputs=6)
    return finish_case(rng, case)


def finish_case(rng, case):
    case['matrix'] = gen_matrix(rng)
    syms = rng.sample([1, 2, 3], rng.choice([0, 1, 2, 3]))
    if case.get('material') is not None and case['material'] not in syms and rng.random() < 0.6:
        syms.append(case['material'])         # the primitive's own symbol is bound more often than not
    case['matmap'] = [[s, rng.randint(1, 5)] for s in syms]
    # real material bindings: every MaterialNode carries bind_vertex_input entries naming any subset /
    # order of the texcoord sets (with or without input_set), sometimes a set that does not exist
    nsets = sum(1 for i in case['inputs'] if i[1] == 'TEXCOORD')
    mi = {}
    for s_ in syms:
        ent = []
        order = list(range(nsets)) + ([7] if rng.random() < 0.15 else [])
        rng.shuffle(order)
        for k in order[:rng.randint(min(1, len(order)), len(order))]:
            ent.append(['UVSET%d' % k, 'TEXCOORD', None if rng.random() < 0.2 else str(k)])
        if rng.random() < 0.2:
            ent.append(['NRM', 'NORMAL', None])
        mi[str(s_)] = ent
    case['matinputs'] = mi
    return case


# ---------------------------------------------------------------- encoding

def c_rows(rows):
    return clist([clist([cZ(x) for x in r]) for r in rows])


def c_item(o):
    ni = o['ni']
    ni_c = {'absent': 'NIAttrAbsent', 'none': 'NINone', 'zero': 'NIZero'}.get(ni[0])
    if ni[0] == 'idx':
        ni_c = '(NIdx %s)' % clist([cN(x) for x in ni[1]])
    if ni_c is None:
        ni_c = '(NIdx [4294967295%N])'          # something the model never produces
    n = o['n']
    n_c = {'none': 'NNone', 'gen': 'NGenerated'}.get(n[0]) or '(NRows %s)' % c_rows(n[1])
    return '(Item %s %s %s %s %s %s %s)' % (
        clist([cN(x) for x in o['ix']]), c_rows(o['v']), ni_c, n_c,
        clist([clist([cN(x) for x in t]) for t in o['ti']]),
        clist([c_rows(t) for t in o['t']]),
        copt(None if o['m'] is None else cN(o['m'] if o['m'] >= 0 else 4294967295)))


def c_lobs(l):
    return ctuple(cnat(l[0]), clist([c_item(o) for o in l[1]]))


def c_gobs(g):
    return ctuple(cnat(g[0]), copt(None if g[1] is None else c_item(g[1])))


def c_case(case, res):
    if res['u'] is None:
        seen = 'None'
    else:
        ulen, uiter, gets, uz = res['u']
        blen, bsh, bleg, bz = res['b']

        def c_z(zs):
            return clist([ctuple(cZ(z), c_gobs(g)) for z, g in zs])
        seen = '(Some %s)' % ctuple(ctuple(cnat(ulen), c_lobs(uiter), clist([c_gobs(g) for g in gets]), c_z(uz)),
                                    ctuple(cnat(blen), c_lobs(bsh), c_lobs(bleg), c_z(bz)))
    return ctuple(P9.KIND_C[case['kind']], P9.c_srcs(case), P9.c_inputs(case), P9.c_mat(case), P9.c_stream(case),
                  c_rows(case['matrix']), clist([ctuple(cN(s), cN(t)) for s, t in case['matmap']]),
                  cnat(res['code']), seen)


# ---------------------------------------------------------------- running

def crashed(case, reason):
    return {'code': 99, 'u': None, 'b': None,
            'fails': [{'clause': 'crash-or-hang', 'site': case.get('kind'), 'who': 'worker', 'what': 'died',
                       'detail': 'the implementation worker crashed or hung on this case: %s' % reason}]}


def run_impl_cases(cases, chunk=200):
    from concurrent.futures import ThreadPoolExecutor
    chunks = [cases[i:i + chunk] for i in range(0, len(cases), chunk)]

    def one(ch):
        return core.run_cases_bisect('c10', ch, lambda cs: {'cases': cs}, crashed, timeout=150)
    with ThreadPoolExecutor(max_workers=core.NCPU) as ex:
        outs = list(ex.map(one, chunks))
    return [r for out in outs for r in out]


def signature(f):
    if f['what'] == 'no-corners-raises-TypeError':
        return FINDING_SIG
    return 'C10:%s:%s:%s:%s' % (f['clause'], f['site'], f['who'], f['what'])


def failure_of(case, f):
    return {'signature': signature(f), 'clause': f['clause'],
            'what': '%s (%s, via %s): %s' % (case['kind'], f['who'], case.get('via'), f['detail']),
            'input': case, 'detail': f}


def first_failures(cases, results, limit=8):
    seen = {}
    for c, r in zip(cases, results):
        for f in r['fails']:
            sig = signature(f)
            size = len(json.dumps(c))
            if sig not in seen or size < seen[sig][0]:
                seen[sig] = (size, failure_of(c, f))
    return [seen[s][1] for s in sorted(seen)][:limit]


def corpus_cases():
    d = os.path.join(core.VERIF, 'corpus', 'C10')
    out = []
    if os.path.isdir(d):
        for fn in sorted(os.listdir(d)):
            if fn.endswith('.json'):
                out.append(json.load(open(os.path.join(d, fn))))
    return out


def run(ctx):
    build_ok, obl, regen = core.std_setup(ctx)
    quick = ctx.quick()
    cases = corpus_cases()
    ncorpus = len(cases)
    nrand = 1500 if quick else 30000
    for j in range(nrand):
        cases.append(gen_case(ctx.rng, rows=j % 7))
    for _ in range(14 if quick else 140):
        cases.append(gen_big_polylist(ctx.rng))
    ctx.log('building %d primitives, iterating and indexing them unbound and bound' % len(cases))
    results = run_impl_cases(cases)
    terms = [c_case(c, r) for c, r in zip(cases, results)]
    ctx.log('evaluating the item/iteration model on the same inputs inside Coq')
    bad, errors = core.coq_eval_cases(ctx, HEADER, CASE_TYPE, terms, 'C10.mismatches', chunk=150)
    failures = first_failures(cases, results)
    known = {k['signature'] for k in core.load_known() if k.get('property') == 'C10'}
    mismatches = []
    for i in bad[:20]:
        sigs = {signature(f) for f in results[i]['fails']}
        mismatches.append({'case_index': i, 'input': cases[i],
                           'implementation_observed': {k: results[i].get(k) for k in ('code', 'u', 'b', 'exc')},
                           'explained_by_known': bool(sigs) and sigs <= known})
    seen = set()
    dist = {'by_kind': {}, 'by_via': {}, 'by_len': {}, 'rejected': 0, 'items_compared': 0,
            'with_normals': 0, 'with_texcoords': 0, 'corpus_cases': ncorpus}
    for c, r in zip(cases, results):
        dist['by_kind'][c['kind']] = dist['by_kind'].get(c['kind'], 0) + 1
        dist['by_via'][c['via']] = dist['by_via'].get(c['via'], 0) + 1
        if r['code'] != 0:
            dist['rejected'] += 1
            continue
        n = r['u'][0]
        dist['by_len'][str(n)] = dist['by_len'].get(str(n), 0) + 1
        items = r['u'][1][1]
        dist['items_compared'] += 3 * len(items) + n + 1
        if items and items[0]['n'][0] == 'rows':
            dist['with_normals'] += 1
        if items and items[0]['t']:
            dist['with_texcoords'] += 1
        if n >= 1:
            seen.add(core.canon_hash({k: v for k, v in c.items() if k != 'mode'}))
    corr = {
        'evaluations': len(cases),
        'distinct_nontrivial': len(seen),
        'rule': 'all four kinds x 0..6 rows (cycled) x random input layouts (<= 6 inputs, several texcoord sets, shared/'
                'distinct/gapped offsets, <vertices> indirection on the load path) x create*/load, every position i '
                '(prim[i] for i = 0..len, list(prim), bound shapes() and list(bound)), bound through Geometry.bind with an '
                'integer matrix and a random material map; ~10% of the layouts are unclean (rejected or odd). '
                'non-trivial = accepted with at least one item; distinct = different canonical case',
        'samples': [{'case': c, 'observed': {k: r.get(k) for k in ('code', 'u')}}
                    for c, r in list(zip(cases, results))[ncorpus + 1:ncorpus + 3]],
        'distribution': dist,
        'mismatches': mismatches,
        'errors': errors,
        'exhaustive': False,
    }

    def search(mm):
        extra = [m['input'] for m in mm if m.get('input')]
        extra += [gen_case(ctx.rng) for _ in range(4000)]
        extra += [gen_big_polylist(ctx.rng) for _ in range(60)]
        res = run_impl_cases(extra)
        return first_failures(extra, res)

    return core.finish(
        ctx, obligations=obl, regen=regen, build_ok=build_ok, corr=corr, failures=failures, search=search,
        trusted_base=core.BASE_TRUST + [
            'hand-written models Model/PrimCtor.v (constructors) and Model/PrimIter.v (__len__, __getitem__, the legacy '
            'iteration protocol, bind, shapes()), tied to the code by the correspondence (every item field, every position, '
            'exception classes)',
            'Python\'s legacy sequence-iteration protocol (call __getitem__ from 0 until IndexError) is modelled by legacy_iter',
        ],
        assumptions=['source data are integer-valued floats and bound matrices are integer, so float32/float64 results are exact',
                     'Triangle computes face normals when its set has none: the model records this as "generated" and the '
                     'numbers are not compared',
                     'absent normals on an unbound Triangle show up as normal_indices = 0 (None on bound ones); the oracle '
                     'demands only that every item of a primitive reports absence the same way'])


def replay(ctx, body):
    case = body.get('input') or (body.get('mismatching_cases') or [{}])[0].get('input')
    if not case:
        print('replay: nothing to re-run (%s)' % body.get('no_longer_checks'))
        return 1
    r = run_impl_cases([case])[0]
    print(json.dumps({k: r.get(k) for k in ('code', 'fails', 'exc')}, indent=1))
    known = {k['signature'] for k in core.load_known() if k.get('property') == 'C10'}
    fresh = [f for f in r['fails'] if signature(f) not in known]
    for f in r['fails']:
        if signature(f) in known:
            print('KNOWN-FINDING: property=C10 %s' % f['detail'])
    if fresh:
        print('VIOLATION property=C10 replay=%s' % body.get('replay_cmd', '').split()[-1])
        return 1
    print('replay: the property clauses hold on this input now (known findings aside)')
    return 0
