"""C15 - loading is independent of the namespace URI.

Every document (the C05 generator's documents, always with controllers - skin with Name_array or
IDREF_array joints, morph - and animations, with and without foreign-namespace extras; variants
with broken references so that errors are recorded; the shipped data files) is loaded with the
COLLADA 1.4.1 URI, the 1.5 URI and a random URI.  Direct oracle: the three snapshots (every library,
instance targets, recorded error classes, or the raised exception class) must be equal.
Correspondence inside Coq: the textual URI replacement is `retag_doc`, the new URI is fresh, and the
model's view of both documents equals what pycollada exposed for the renamed one."""
import json
import os
import re

from harness import core
from harness.enc import xml2coq
from harness.gen import expect, xmldocs
from harness.props import c05

HEADER = ('From Coq Require Import List ZArith NArith.\n'
          'From PC Require Import Base.Atoms Base.Xml Base.Outcome Model.LoadPrim Model.Namespace Model.LoadDoc Check.C15.\n'
          'Import ListNotations.\nOpen Scope N_scope.\n')
CASE_TYPE = 'C15.case'
NS141, NS15 = xmldocs.NS_141, xmldocs.NS_15


def root_ns(text):
    m = re.search(r'<(?:\w+:)?COLLADA\b[^>]*?xmlns(?::\w+)?="([^"]+)"', text)
    return m.group(1) if m else None


def rename(text, old, new):
    return text.replace('"%s"' % old, '"%s"' % new)


def break_refs(text, rng):
    """make some references dangle (or pad them with blanks) so that a load with ignore=[DaeError] records errors"""
    spots = [m for m in re.finditer(r'(url|target)="#([^"]+)"', text)]
    if not spots:
        return text
    for m in sorted(rng.sample(spots, min(len(spots), rng.choice([1, 1, 2]))), key=lambda m: -m.start()):
        r = rng.random()
        if r < 0.25:
            text = text[:m.start(2) - 1] + ' #' + m.group(2) + ' ' + text[m.end(2):]      # url=" #id "
        elif r < 0.5:
            text = text[:m.start()] + text[m.end():]       # the attribute is gone: a built-in exception inside the loader
        else:
            text = text[:m.start(2)] + 'nosuch' + text[m.end(2):]
    if rng.random() < 0.4:
        # a transform without its numbers (another built-in exception, reported with the qualified tag of the element)
        ts = [m for m in re.finditer(r'<((?:\w+:)?(?:translate|rotate|scale|matrix|lookat))((?:\s[^>]*)?)>[^<]*</\1>', text)]
        if ts:
            m = rng.choice(ts)
            text = text[:m.start()] + '<%s%s/>' % (m.group(1), m.group(2)) + text[m.end():]
    return text


def adversarial_foreign(rng):
    """a foreign namespace URI chosen against the root URIs the document will be loaded under: extensions and
    prefixes of the official ones, same length, characters that mean something to format / regex code"""
    return rng.choice([NS15 + '/vendor/physics', NS141 + '/ext', NS15[:-3], NS141[:-1], NS141 + ' ', 'urn:x-verif:ns',
                       NS15.replace('2008', '2009'), NS141.upper(), 'http://www.collada.org/', '%s', 'a',
                       xmldocs.FOREIGN_NS])


def variants(text, rng, long=False):
    ns = root_ns(text)
    k = rng.randint(0, 10 ** 6)
    # URIs of different lengths and shapes (a loader must not care): short, long, with regex / format characters,
    # a case variant and an extension of the official ones
    rnd = rng.choice(['urn:x-verif:ns%d', 'x%d', 'http://example.org/schemas/collada/%d',
                      'http://www.collada.org/2005/11/COLLADASchema/%d', 'HTTP://WWW.COLLADA.ORG/2008/03/COLLADASCHEMA?v=%d',
                      'http://example.org/a+b(c)*[d].$^/%d', 'tag:verif,%d:%%s/%%(x)s',
                      'a%d', 'ns with spaces %d', '%%41%%7B%d%%', 'http://www.collada.org/2008/03/COLLADASchem%d']) % k
    # (braces are not URI characters and pycollada's tag splitting relies on that: '{x' or 'x}y' as a namespace
    # name is outside the property's "any namespace URI")
    if rng.random() < (0.6 if long else 0.15):
        # much longer than the official URIs (anything that measures or cuts text containing a qualified tag)
        rnd = 'http://example.org/' + '/'.join('segment%d' % ((k + j) % 97) for j in range(rng.choice([6, 10, 16]))) + '/COLLADASchema'
    if rng.random() < 0.25:
        # chosen against the tag text '{uri}COLLADA': ending in letters of COLLADA, containing it
        rnd = rng.choice(['a', '%', 'x y', 'http://example.org/schemas/COLLADA', 'urn:example:scene-3D', 'urn:x:%dA' % k,
                          'http://example.org/COLLADA/%d/LOD' % k, 'ACDLO', 'COLLADA', 'urn:%d:COLLADACOLLADA' % k, 'xCOLLADA%dD' % k])
    while ('"%s"' % rnd) in text:
        rnd = rnd + 'x'          # fresh: not a namespace the document already uses for foreign content
    others = [u for u in (NS141, NS15) if u != ns] + [rnd]
    if ns == NS141:
        others = [NS15, rnd]
    return ns, [(u, rename(text, ns, u)) for u in others]


def first_difference(a, b):
    """a, b: worker results ({'snap'} / {'raised'} / ...) -> None or (clause, what)"""
    if ('snap' in a) != ('snap' in b):
        return 'load-outcome', 'loads with one URI, %s with the other' % (a.get('raised') or b.get('raised') or a.get('crashed') or b.get('crashed') or 'fails')
    if 'snap' not in a:
        ka = a.get('raised') or ('crash' if 'crashed' in a else a.get('snapshot_error'))
        kb = b.get('raised') or ('crash' if 'crashed' in b else b.get('snapshot_error'))
        return None if ka == kb else ('raised-class', 'raises %s with one URI and %s with the other' % (ka, kb))
    if a['snap'] == b['snap']:
        return None
    d = expect.compare(a['snap'], b['snap'])
    if not d:
        d = expect.compare(b['snap'], a['snap'])
    if not d:
        return 'snapshot', 'snapshots differ'
    path, want, got = d[0]
    top = [p for p in path.split('/') if p][0] if path.strip('/') else 'document'
    return top, 'at %s: %s with the original URI, %s after the change' % (path, json.dumps(want, default=str)[:100], json.dumps(got, default=str)[:100])


def oracle(doc, ns, vs, r0, rs):
    out = []
    for (u, text), r in zip(vs, rs):
        d = first_difference(r0, r)
        if d:
            kind = '1.5' if u == NS15 else ('1.4.1' if u == NS141 else 'random')
            out.append({'signature': 'C15:%s' % d[0], 'clause': d[0],
                        'what': 'namespace %s -> %s URI changes the load: %s' % (ns, kind, d[1]),
                        'input': {'xml': doc['xml'], 'ignore': doc.get('ignore', False), 'new_ns': u, 'file': doc.get('file'),
                                  'zip_entries': doc.get('zip_entries')},
                        'detail': {'from': ns, 'to': u}})
            break
    return out


def make_docs(ctx, n, shipped=True):
    rng = ctx.rng
    docs = []
    for i in range(n):
        x, d = xmldocs.gen_document(rng, rng.choice([0, 1, 1, 2]), controllers=(True if i % 4 else None),
                                    animations=(True if i % 3 else None), foreign=(True if i % 2 else None),
                                    foreign_ns=(adversarial_foreign(rng) if i % 2 else None))
        docs.append({'xml': x.decode('utf-8'), 'desc': d, 'ignore': False, 'zip': (i % 6 == 5)})
    nb = max(1, n // 3)
    for i in range(nb):
        # documents on which the loader records errors: dangling / padded references, vendor elements directly
        # inside <node> (in a namespace chosen against the root URIs)
        x, d = xmldocs.gen_document(rng, rng.choice([1, 1, 2]), controllers=True, animations=True, foreign=True,
                                    foreign_ns=adversarial_foreign(rng), foreign_in_nodes=(i % 2 == 0),
                                    unsupported_native=(i % 3 != 1))
        text = x.decode('utf-8')
        docs.append({'xml': break_refs(text, rng) if i % 3 else text, 'ignore': True, 'broken': True})
    if shipped:
        data = os.path.join(core.REPO, 'collada', 'tests', 'data')
        for fn in sorted(os.listdir(data)):
            if fn.lower().endswith('.dae'):
                text = open(os.path.join(data, fn), 'rb').read().decode('utf-8', 'replace')
                if root_ns(text):
                    docs.append({'xml': text, 'file': fn, 'ignore': True})
    return docs


def evaluate(ctx, docs):
    """-> (failures, per-doc (ns, variants, result0, results)).  Documents flagged 'zip' are loaded from an
    archive (a file-like object) in which they are the first of two .dae entries; the second entry is another
    document in the 1.4.1 namespace: which entry pycollada takes must not depend on the URI of the first"""
    jobs, plan = [], []
    other = None
    for doc in docs:
        ns, vs = variants(doc['xml'], ctx.rng, long=bool(doc.get('broken')))
        plan.append((ns, vs, len(jobs)))
        if doc.get('zip'):
            if other is None:
                other = xmldocs.gen_document(ctx.rng, 0, controllers=False, animations=False)[0].decode('utf-8')
            extra = [['notes/readme.txt', 'not a document']] if ctx.rng.random() < 0.5 else []
            doc['zip_entries'] = [extra, other]

            def job(text):
                return {'zip': extra + [['model.dae', text], ['zz/other.dae', other]], 'ignore': doc.get('ignore', False)}
        else:
            def job(text):
                return {'xml': text, 'ignore': doc.get('ignore', False)}
        jobs.append(job(doc['xml']))
        for u, text in vs:
            jobs.append(job(text))
    res = c05.run_docs(jobs, chunk=45)
    failures, per = [], []
    for doc, (ns, vs, at) in zip(docs, plan):
        r0 = res[at]
        rs = res[at + 1:at + 1 + len(vs)]
        failures.extend(oracle(doc, ns, vs, r0, rs))
        per.append((ns, vs, r0, rs))
    return failures, per


def coq_case(doc, ns, u, text2, r2):
    """case for one (document, new URI): both XML terms share one interner / numeric table"""
    term1, enc = xml2coq.encode_bytes(doc['xml'].encode('utf-8'), c05.new_enc())
    enc.uid = 0
    term2, _ = xml2coq.encode_bytes(text2.encode('utf-8'), enc)
    ve = c05.VEnc(enc)
    import xml.etree.ElementTree as ET
    view = ve.doc(r2['snap'], ET.fromstring(text2.encode('utf-8')))
    numtab = ve.numtab()
    return '([%s], %s, %d, %s, %s)' % ('; '.join('%d' % c for c in numtab), term1, enc.I.atom(u), term2, view), enc.I.table()


def run(ctx):
    build_ok, obl, regen = core.std_setup(ctx)
    quick = ctx.quick()
    n = 180 if quick else 4000
    ncoq = 110 if quick else 1500
    docs = corpus_docs() + make_docs(ctx, n)
    ctx.log('loading %d documents three times each (1.4.1 / 1.5 / random namespace URI)' % len(docs))
    failures, per = evaluate(ctx, docs)
    terms, idx, tables, encode_errors = [], [], [], []
    for i, (doc, (ns, vs, r0, rs)) in enumerate(zip(docs, per)):
        if len(terms) >= ncoq:
            break
        if doc.get('ignore') or doc.get('file') or doc.get('zip') or 'snap' not in r0:
            continue
        k = len(terms) % len(vs)
        if 'snap' not in rs[k]:
            continue
        try:
            t, table = coq_case(doc, ns, vs[k][0], vs[k][1], rs[k])
        except Exception as e:  # noqa
            encode_errors.append({'case_index': i, 'error': 'snapshot not encodable as a Coq view: %r' % (e,)})
            continue
        terms.append(t)
        idx.append((i, k))
        tables.append(table)
    ctx.log('checking retag / freshness / model views on %d (document, new URI) pairs inside Coq' % len(terms))
    bad, errors = core.coq_eval_cases(ctx, HEADER, CASE_TYPE, terms, 'C15.mismatches', chunk=12, timeout=900)
    mismatches = []
    for j in bad[:10]:
        i, k = idx[j]
        diag = core.coq_eval_term(ctx, HEADER, 'C15.diagnose %s' % terms[j])
        mismatches.append({'case_index': i, 'input': {'xml': docs[i]['xml'], 'ignore': False, 'new_ns': per[i][1][k][0]},
                           'diagnose (1 retag, 2 freshness, 3 model load failed, 4 view of renamed, 5 view of original)': diag[-200:],
                           'interning': tables[j], 'explained_by_known': False})
    feats = {'generated': sum(1 for d in docs if d.get('desc')), 'with broken references (errors recorded)': sum(1 for d in docs if d.get('broken')),
             'shipped files': [d['file'] for d in docs if d.get('file')],
             'with controllers': sum(1 for d in docs if d.get('desc') and d['desc']['controllers']),
             'skins': sum(1 for d in docs if d.get('desc') for c in d['desc']['controllers'] if c['kind'] == 'skin'),
             'skins with IDREF_array joints': sum(1 for d in docs if d.get('desc') for c in d['desc']['controllers']
                                                  if c['kind'] == 'skin' and any(s['kind'] == 'IDREF' for s in c['sources'])),
             'morphs': sum(1 for d in docs if d.get('desc') for c in d['desc']['controllers'] if c['kind'] == 'morph'),
             'with animations': sum(1 for d in docs if d.get('desc') and d['desc']['animations']),
             'with foreign-namespace extras': sum(1 for d in docs if d.get('desc') and d['desc'].get('foreign')),
             'prefixed COLLADA namespace': sum(1 for d in docs if d.get('desc') and d['desc'].get('prefixed')),
             'documents that record or raise errors': sum(1 for (ns, vs, r0, rs) in per if ('snap' not in r0) or r0['snap']['errors']),
             'loads': sum(1 + len(vs) for (ns, vs, r0, rs) in per)}
    corr = {
        'evaluations': len(terms),
        'distinct_nontrivial': len({core.canon_hash([docs[i]['xml'], k]) for i, k in idx
                                    if docs[i]['desc']['geometries'] or docs[i]['desc']['controllers'] or docs[i]['desc']['animations']}),
        'rule': 'pairs (generated document, new namespace URI: 1.5 or random); non-trivial = the document has a geometry, a '
                'controller or an animation; distinct = different (XML text, URI); for each pair Coq checks that the renamed '
                'bytes read by xml.etree are retag_doc of the original, that the URI is fresh, and that load_doc of both equals '
                'the snapshot pycollada produced for the renamed bytes; the direct oracle compares the snapshots and error '
                'classes of all three loads of every document, including broken-reference variants and the shipped files',
        'samples': [{'new_ns': per[i][1][k][0], 'xml': docs[i]['xml'][:1200]} for i, k in idx[:2]],
        'distribution': feats,
        'mismatches': mismatches,
        'errors': errors + encode_errors[:3],
    }

    def search(mm):
        class R(object):
            rng = ctx.rng
        more = make_docs(R, 600, shipped=False)
        f, _ = evaluate(ctx, more)
        return f

    return core.finish(
        ctx, obligations=obl, regen=regen, build_ok=build_ok, corr=corr, failures=c05.dedupe(failures), search=search,
        trusted_base=core.BASE_TRUST + [
            'Model/Namespace.v erase: the formal reading of "every tag test goes through the document\'s tag function"; '
            'Model/LoadDoc.v is a function of the erased tree and is tied to the code by the C05 and C15 correspondences',
            'harness/impl/c05.py snapshot walker, harness/props/c05.py VEnc, harness/enc/xml2coq.py',
        ],
        assumptions=[
            'the new URI is not one the document already uses for a foreign element (hypothesis of C15_ns_parametric; the generator\'s random URIs are fresh, checked per case inside Coq)',
            'saving a document in a non-default namespace is a separate known finding (C01/C02/C06), not part of this property',
        ])


def corpus_docs():
    d = os.path.join(core.VERIF, 'corpus', 'C15')
    out = []
    if os.path.isdir(d):
        for fn in sorted(os.listdir(d)):
            if fn.endswith('.json'):
                out.append(json.load(open(os.path.join(d, fn))))
    return out


def replay(ctx, body):
    inp = body.get('input') or (body.get('mismatching_cases') or [{}])[0].get('input')
    if not inp:
        print('replay: nothing to re-execute in this file (%s)' % body.get('kind'))
        return 1
    doc = {'xml': inp['xml'], 'ignore': inp.get('ignore', False)}
    ns = root_ns(doc['xml'])
    u = inp.get('new_ns') or NS15
    vs = [(u, rename(doc['xml'], ns, u))]
    if inp.get('zip_entries'):
        extra, other = inp['zip_entries']
        res = c05.run_docs([{'zip': extra + [['model.dae', t], ['zz/other.dae', other]], 'ignore': doc['ignore']}
                            for t in (doc['xml'], vs[0][1])])
    else:
        res = c05.run_docs([{'xml': doc['xml'], 'ignore': doc['ignore']}, {'xml': vs[0][1], 'ignore': doc['ignore']}])
    fails = oracle(doc, ns, vs, res[0], res[1:])
    print(json.dumps([{k: f[k] for k in ('signature', 'what')} for f in fails], indent=1))
    rc = 1 if fails else 0
    if not fails and body.get('kind') == 'no-failing-input-found' and 'snap' in res[0] and 'snap' in res[1] and not doc['ignore']:
        t, _ = coq_case(doc, ns, u, vs[0][1], res[1])
        out = core.coq_eval_term(ctx, HEADER, 'C15.diagnose %s' % t)
        ok = re.search(r'=\s*0\s*:\s*nat', out) is not None
        print('correspondence on this pair: %s' % ('agrees' if ok else 'DIFFERS (%s)' % out[-120:]))
        rc = 0 if ok else 1
    if rc:
        print('VIOLATION property=C15 replay=%s' % body.get('replay_cmd', '').split()[-1])
    else:
        print('replay: the three loads agree on this document now')
    return rc
