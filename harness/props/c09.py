"""C09 - primitive indices are in range and arrays have the documented shapes."""
import itertools
import json
import os

from harness import core
from harness.core import cN, clist, cnat, copt, ctuple

HEADER = ('From Coq Require Import List ZArith NArith.\n'
          'From PC Require Import Base.Outcome Model.IndexTable Model.PrimCtor Model.PrimLoad Check.PrimCase Check.C09.\n'
          'Import ListNotations.\n')
CASE_TYPE = 'C09.case'

SEMS = ['VERTEX', 'NORMAL', 'TEXCOORD', 'TEXBINORMAL', 'TEXTANGENT', 'COLOR', 'TANGENT', 'BINORMAL']
WANT = {'VERTEX': 3, 'NORMAL': 3, 'TEXCOORD': 2, 'TEXBINORMAL': 3, 'TEXTANGENT': 3, 'COLOR': 4, 'TANGENT': 3,
        'BINORMAL': 3}
KINDS = ['tri', 'line', 'polylist', 'polygons']
KK = {'tri': 3, 'line': 2, 'polylist': 1, 'polygons': 1}
BIG = [1000, 65536, 2 ** 31 - 1]


# ---------------------------------------------------------------- generation

def gen_layout(rng, kind, via, max_inputs=8, clean=False):
    """-> (srcs, inputs) ; inputs in InputList.getList order when via == 'create'"""
    n_in = rng.choice([1, 1, 2, 2, 3, 3, 4, 5, 6, 7, 8])
    n_in = min(n_in, max_inputs)
    sems = ['VERTEX']
    for _ in range(n_in - 1):
        sems.append(rng.choices(SEMS, [1, 5, 6, 2, 2, 1, 1, 1])[0])
    rng.shuffle(sems)
    mode = rng.choice(['shared', 'distinct', 'gapped', 'mixed'])
    if mode == 'shared':
        offs = [0] * n_in
    elif mode == 'distinct':
        offs = list(range(n_in))
        rng.shuffle(offs)
    elif mode == 'gapped':
        offs = [rng.randint(0, n_in + 2) for _ in range(n_in)]
    else:
        offs = [rng.randint(0, max(0, n_in // 2)) for _ in range(n_in)]
    srcs = []
    inputs = []
    for sem, off in zip(sems, offs):
        want = WANT[sem]
        if not clean and rng.random() < 0.07:
            want = rng.choice([c for c in (1, 2, 3, 4) if c != want])
        cands = [i for i, (n, nc) in enumerate(srcs) if nc == want]
        if srcs and not clean and rng.random() < 0.12:
            # the same source object under another semantic, whatever its component count
            sid = rng.randrange(len(srcs))
        elif cands and rng.random() < 0.3:
            sid = rng.choice(cands)
        else:
            srcs.append([rng.choice([1, 2, 3, 3, 4, 5, 8] if clean else [0, 1, 2, 3, 3, 4, 5, 8]), want])
            sid = len(srcs) - 1
        r = 1.0 if clean else rng.random()
        if r < 0.015:
            tgt = ['missing']
        elif r < 0.03:
            tgt = ['bad']
        else:
            tgt = ['src', sid]
        inputs.append([off, sem, tgt])
    if via == 'xml' and rng.random() < 0.5:
        # route the first VERTEX input through a <vertices> element
        for inp in inputs:
            if inp[1] == 'VERTEX' and inp[2][0] == 'src':
                d = [['POSITION', inp[2][1]]]
                for extra in rng.sample(['NORMAL', 'TEXCOORD', 'COLOR'], rng.choice([0, 0, 1, 2])):
                    want = WANT[extra]
                    srcs.append([rng.choice([1, 2, 3, 5, 8]), want])
                    d.append([extra, len(srcs) - 1])
                inp[2] = ['verts', d]
                break
    if via == 'create':
        inputs.sort(key=lambda i: SEMS.index(i[1]))     # InputList groups by semantic (stable)
    return srcs, inputs


def effective_inputs(case):
    """inputs after <vertices> dereferencing: [(offset, SEM, sid)]; None if a reference is unresolved"""
    out, queued = [], []
    for off, sem, tgt in case['inputs']:
        if tgt[0] in ('missing', 'bad'):
            return None
        if tgt[0] == 'verts':
            if sem == 'VERTEX':
                for vs, i in tgt[1]:
                    queued.append((off, 'VERTEX' if vs == 'POSITION' else vs, i))
        else:
            out.append((off, sem, tgt[1]))
    return out + queued


def limits(case, nind):
    """per offset: the smallest source length among the inputs reading that offset (None: nobody)"""
    eff = effective_inputs(case) or []
    lim = [None] * nind
    for off, sem, sid in eff:
        n = case['srcs'][sid][0]
        lim[off] = n if lim[off] is None else min(lim[off], n)
    return lim, eff


def all_offsets(case):
    offs = []
    for off, sem, tgt in case['inputs']:
        offs.append(off)
    return offs


def make_stream(rng, case, rows, mode):
    """index stream (and vcounts / polygons) for the case's layout -> dict of stream fields"""
    kind, via = case['kind'], case['via']
    nind = max(all_offsets(case)) + 1
    k = KK[kind]
    if k == 1:
        vcounts = [rng.choice([0, 1, 2, 3, 3, 4, 5]) for _ in range(rows)]
        ncorners = sum(vcounts)
    else:
        vcounts = []
        ncorners = rows * k
    lim, eff = limits(case, nind)
    # values beyond int32 only where the array can hold them (create* with a wide dtype)
    big = BIG + ([2 ** 32 - 1] if via == 'create' and case.get('dtype') in ('int64', 'uint32') else []) \
        + ([2 ** 40] if via == 'create' and case.get('dtype') == 'int64' else [])
    flat = []
    for _ in range(ncorners):
        for o in range(nind):
            if lim[o] is None:
                flat.append(rng.choice([0, 1, 7, rng.choice(big)]))
            elif lim[o] == 0:
                flat.append(rng.randint(0, 2))
            else:
                flat.append(rng.randint(0, lim[o] - 1))
    if mode == 'oor' and ncorners > 0 and eff:
        off, sem, sid = rng.choice(eff)
        n = case['srcs'][sid][0]
        pos = rng.choice([0, ncorners - 1, rng.randrange(ncorners)])
        excess = rng.choice([0, 0, 1, 2] + [b - n for b in big])
        flat[pos * nind + off] = n + excess
        if n > 0 and rng.random() < 0.3:
            # far out of range, yet congruent to a valid position modulo 2^8 / 2^16 (/ 2^32)
            k_in = rng.randrange(n)
            wraps = [256 + k_in, 2 * 256 + k_in, 65536 + k_in]
            flat[pos * nind + off] = rng.choice(wraps)
        if via == 'create' and case.get('dtype') in ('int64', 'uint32') and rng.random() < 0.4:
            # beyond 32 bits (and values that would wrap to something small or negative if narrowed)
            wide = [2 ** 31 + 1, 2 ** 32 - 1] if case['dtype'] == 'uint32' else \
                [2 ** 31 + 1, 2 ** 32 - 1, 2 ** 32 + rng.randint(0, 2), 3 * 2 ** 32 + 1, 2 ** 40, 2 ** 62]
            flat[pos * nind + off] = rng.choice(wide)
    if mode == 'ragged':
        period = k * nind
        if rng.random() < 0.5 or len(flat) < period:
            flat = flat + [0] * rng.randint(1, max(1, period - 1))
        else:
            flat = flat[:len(flat) - rng.randint(1, max(1, period - 1))]
    if mode == 'vcount' and k == 1:
        r = rng.random()
        if r < 0.3 and vcounts:
            i = rng.randrange(len(vcounts))
            vcounts[i] = max(0, vcounts[i] + rng.choice([-1, 1, 2]))
        elif r < 0.5:
            vcounts.append(rng.choice([1, 3]))
        elif r < 0.65 and vcounts:
            vcounts.pop(rng.randrange(len(vcounts)))
        elif r < 0.8 and flat:
            vcounts = []                      # no polygons at all, yet an index stream
        else:
            flat = flat + flat[:nind] if flat else [0] * nind
    out = {}
    if kind == 'polygons':
        polys = []
        pos = 0
        for vc in vcounts:
            polys.append(flat[pos:pos + vc * nind])
            pos += vc * nind
        if pos < len(flat):
            polys.append(flat[pos:])
        if mode == 'pragged' and len(flat) >= 2 and nind > 1:
            # a well-formed stream cut into <p>s at arbitrary places: individually ragged, total even
            ncuts = rng.choice([1, 1, 2, 3])
            cuts = sorted(rng.randrange(1, len(flat)) for _ in range(ncuts))
            polys = [flat[a:b] for a, b in zip([0] + cuts, cuts + [len(flat)])]
        out['polys'] = polys
    else:
        out['flat'] = flat
        if kind == 'polylist':
            out['vcounts'] = vcounts
    return out


def gen_case(rng, max_rows=4, rows=None, modes=(50, 30, 8, 9, 3), clean=False, max_inputs=8):
    kind = rng.choice(KINDS)
    via = 'create' if rng.random() < 0.65 else 'xml'
    srcs, inputs = gen_layout(rng, kind, via, max_inputs=max_inputs, clean=clean)
    case = {'kind': kind, 'via': via, 'srcs': srcs, 'inputs': inputs,
            'material': rng.choice([None, 1, 2]),
            'dtype': rng.choice(['int32', 'int32', 'int64', 'uint32']),
            'vcform': rng.choice(['array', 'array', 'list', 'uint8', 'int8', 'int16', 'uint16', 'int64'])}
    if via == 'xml':
        param_forms(rng, case, clean)
    else:
        data_forms(rng, case)
    if rng.random() < 0.5:
        # the inputs' `set` attributes: absent, ascending, descending, repeated, arbitrary (never read by
        # the constructors; the buckets keep declaration order)
        n = len(inputs)
        how = rng.choice(['none', 'desc', 'same', 'random', 'mixed'])
        case['sets'] = {'none': [None] * n, 'desc': [str(n - 1 - k) for k in range(n)], 'same': ['0'] * n,
                        'random': [str(rng.randint(0, 3)) for _ in range(n)],
                        'mixed': [None if rng.random() < 0.5 else str(rng.randint(0, 3)) for _ in range(n)]}[how]
    if rows is None:
        rows = rng.choice([0, 1, 1, 2, 2, 3, max_rows])
    mode = rng.choices(['ok', 'oor', 'ragged', 'vcount', 'novertex'], list(modes))[0]
    if mode == 'ragged' and kind == 'polygons' and rng.random() < 0.6:
        mode = 'pragged'
        rows = max(rows, 1)
    case['mode'] = mode
    if mode == 'novertex':
        # no vertex input: only where the code has a defined answer (lines: DaeIncompleteError;
        # other kinds: an empty stream is accepted with every view absent)
        keep = [i for i in case['inputs'] if i[1] != 'VERTEX']
        if keep:
            case['inputs'] = keep
            if kind != 'line':
                rows = 0
    case.update(make_stream(rng, case, rows, mode))
    if via == 'create':
        case['saves'] = rng.choice([0, 0, 1, 2, 2, 3])
        if kind == 'polygons' and rng.random() < 0.6:
            ladder = [('uint8', 0, 255), ('int8', 0, 127), ('uint16', 0, 65535), ('int16', 0, 32767),
                      ('int32', 0, 2 ** 31 - 1), ('int64', 0, 2 ** 63 - 1)]
            pd = []
            for j, poly in enumerate(case['polys']):
                fits = [d for d, lo, hi in ladder if (max(poly) if poly else 0) <= hi]
                pd.append(fits[0] if (j == 0 and rng.random() < 0.6) else rng.choice(fits))
            case['pdtypes'] = pd
    if via == 'create' and mode != 'novertex' and rng.random() < 0.3:
        # earlier constructions on the same geometry, sources and InputList (outcome irrelevant):
        # state must not leak from one construction into the next
        case['prelude'] = [make_stream(rng, case, rng.choice([1, 2]), rng.choice(['ok', 'ok', 'oor']))
                           for _ in range(rng.choice([1, 1, 2]))]
    return case


def data_forms(rng, case):
    """API path: the Python form of the data array handed to FloatSource (same values, same model)"""
    forms = {}
    for i, (n, nc) in enumerate(case['srcs']):
        if rng.random() < 0.3:
            size = n * nc
            opts = ['f64', 'strided']
            if size > 0:
                opts += ['rows']      # (a non-contiguous 2-D slice makes FloatSource itself raise AttributeError: logged, not generated)
                opts += ['wide%d' % w for w in range(1, size + 1) if size % w == 0 and w != nc]
            forms[str(i)] = rng.choice(opts)
    if forms:
        case['dforms'] = forms


def param_forms(rng, case, clean):
    """load path only: vary how a source's accessor names its <param>s.  The number of <param>
    elements is the source's component count whatever their names (checkSource overwrites the
    names when the count fits)."""
    names = {}
    for i, (n, nc) in enumerate(case['srcs']):
        r = rng.random()
        base = {1: ['A'], 2: ['S', 'T'], 3: ['X', 'Y', 'Z'], 4: ['R', 'G', 'B', 'A']}[nc]
        if r < 0.06:
            names[str(i)] = [None] * nc                                   # no names at all
        elif r < 0.12:
            names[str(i)] = [None if rng.random() < 0.5 else c for c in base]
        elif r < 0.16 and nc == 2:
            names[str(i)] = ['U', 'V']                                    # converted to S, T by the loader
        elif r < 0.24 and nc == 2:
            names[str(i)] = ['S', 'T', 'P']                               # stride 3 in the file, third column dropped
        elif r < 0.22 and nc == 3:
            names[str(i)] = ['R', 'G', 'B']
        elif r < 0.30 and not clean and nc < 4:
            extra = rng.choice([1, 1, 2]) if nc < 3 else 1
            names[str(i)] = base + [None] * extra                         # named as wanted + unnamed placeholders
            case['srcs'][i][1] = nc + extra
    if names:
        case['pnames'] = names
    # the accessor's stride / offset / count attributes are read by nobody (modelled convention):
    # write arbitrary ones on some sources
    attrs = {}
    for i, (n, nc) in enumerate(case['srcs']):
        if rng.random() < 0.15:
            attrs[str(i)] = [rng.choice([0, 1, nc + 1, 7]), rng.choice([0, 1, 2]), rng.choice([0, n + 1, 99])]
    if attrs:
        case['acc_attrs'] = attrs


SOURCE_FORMS = {1: ['std', 'unnamed'], 2: ['std', 'uv', 'unnamed', 'partial'],
                3: ['std', 'stp', 'unnamed', 'partial'], 4: ['std', 'unnamed', 'partial']}


def gen_source_case(rng):
    nc = rng.choice([1, 2, 3, 4])
    n = rng.randint(0, 13)
    via = rng.choice(['create', 'xml'])
    return {'kind': 'source', 'via': via, 'n': n, 'ncomp': nc,
            'form': rng.choice(SOURCE_FORMS[nc]) if via == 'xml' else 'std'}


def systematic_source_cases():
    """load path: every param pattern (named, U/V, S/T/P, unnamed, partly named) x every stride x
    every remainder 0..stride-1 x 0..3 whole elements; plus the API path for every stride"""
    for nc in (1, 2, 3, 4):
        for form in SOURCE_FORMS[nc]:
            stride = 3 if form == 'stp' else nc
            for q in (0, 1, 2, 3):
                for r in range(stride):
                    yield {'kind': 'source', 'via': 'xml', 'n': q * stride + r, 'ncomp': nc, 'form': form}
        for q in (0, 2):
            for r in range(nc):
                yield {'kind': 'source', 'via': 'create', 'n': q * nc + r, 'ncomp': nc, 'form': 'std'}


def multiset_cases():
    """deterministic: two inputs of a multi-set semantic (offsets 1 and 2, VERTEX at 0) x same source /
    equally long / first longer / second longer x set attributes ascending, descending, absent x the
    out-of-range entry in the first or the second set's column, at the first or the last corner"""
    for kind in KINDS:
        for sem in ['TEXCOORD'] + (['TEXTANGENT', 'TEXBINORMAL'] if kind == 'tri' else []):
            nc = WANT[sem]
            for share, lens in (('same', (3, 3)), ('eq', (3, 3)), ('first-longer', (5, 2)), ('second-longer', (2, 5))):
                for sets in (['0', '0', '1'], ['0', '1', '0'], None):
                    for badset, pos in ((0, 'first'), (0, 'last'), (1, 'first'), (1, 'last'), (None, 'first')):
                        if True:
                            srcs = [[4, 3], [lens[0], nc]] + ([] if share == 'same' else [[lens[1], nc]])
                            s2 = 1 if share == 'same' else 2
                            inputs = [[0, 'VERTEX', ['src', 0]], [1, sem, ['src', 1]], [2, sem, ['src', s2]]]
                            ncorn = {'tri': 6, 'line': 4, 'polylist': 5, 'polygons': 5}[kind]
                            flat = []
                            for c in range(ncorn):
                                flat += [c % 4, c % lens[0], c % (lens[0] if share == 'same' else lens[1])]
                            c = 0 if pos == 'first' else ncorn - 1
                            n_bad = lens[0] if (badset in (0, None) or share == 'same') else lens[1]
                            if badset is not None:
                                flat[3 * c + 1 + badset] = n_bad      # out of range by exactly one
                            # (badset None: every column uses the full range of its OWN source and nothing else)
                            case = {'kind': kind, 'via': 'create' if ((badset or 0) + (pos == 'last')) % 2 == 0 else 'xml',
                                    'srcs': srcs, 'inputs': inputs, 'material': None, 'mode': 'multiset',
                                    'dtype': 'int32', 'vcform': 'array'}
                            if sets is not None:
                                case['sets'] = sets
                            if kind == 'polygons':
                                case['polys'] = [flat[:6], flat[6:]]
                            else:
                                case['flat'] = flat
                                if kind == 'polylist':
                                    case['vcounts'] = [2, 3]
                            yield case


def unpaired_tangent_cases():
    """deterministic: tangent-space inputs that do not come in pairs - (tangents, binormals) = (1,0), (0,1),
    (2,1), (1,2), (2,0), (0,2), (1,1) - on triangles, polylists and polygons, with the fault placed in EACH
    tangent / binormal input in turn (so also in the ones without a partner of the other semantic): index out
    of range by one or by a lot at the first or the last corner, or a 2-component source; plus the fault-free
    layout; through construction and through loading.  (Lines: correspondence only, no demand.)"""
    for kind in KINDS:
        ncorn = {'tri': 6, 'line': 4, 'polylist': 5, 'polygons': 5}[kind]
        for nt, nb in ((1, 0), (0, 1), (2, 1), (1, 2), (2, 0), (0, 2), (1, 1)):
            sems = ['TEXTANGENT'] * nt + ['TEXBINORMAL'] * nb
            for victim in [None] + list(range(len(sems))):
                faults = [None] if victim is None else ['oor1-first', 'oor1-last', 'far-first', 'far-last', 'comps']
                for fi, fault in enumerate(faults):
                    for via in (('create', 'xml') if fault in (None, 'oor1-last', 'comps') else
                                (('create',) if fi % 2 else ('xml',))):
                        # source 0: positions (4 rows); source 1+j: the j-th tangent-space input (3 rows)
                        srcs = [[4, 3]] + [[3, 3] for _ in sems]
                        inputs = [[0, 'VERTEX', ['src', 0]]] + [[1 + j, sm, ['src', 1 + j]] for j, sm in enumerate(sems)]
                        if via == 'create':
                            inputs.sort(key=lambda i: SEMS.index(i[1]))
                        nind = 1 + len(sems)
                        flat = []
                        for c in range(ncorn):
                            flat += [c % 4] + [(c + j) % 3 for j in range(len(sems))]
                        if victim is not None:
                            off = 1 + victim
                            if fault == 'comps':
                                srcs[1 + victim][1] = 2
                            else:
                                c = 0 if fault.endswith('first') else ncorn - 1
                                flat[c * nind + off] = 3 if fault.startswith('oor1') else 3 + 1000 * (1 + victim)
                        case = {'kind': kind, 'via': via, 'srcs': srcs, 'inputs': inputs, 'material': None,
                                'mode': 'unpaired-tangents', 'dtype': 'int32', 'vcform': 'array'}
                        if kind == 'polygons':
                            case['polys'] = [flat[:2 * nind], flat[2 * nind:]]
                        else:
                            case['flat'] = flat
                            if kind == 'polylist':
                                case['vcounts'] = [2, 3]
                        yield case


def polygon_remainder_cases(rng):
    """<polygons> with two or three <p> whose lengths are q*nind + r for EVERY combination of
    remainders r (not all zero), nind = 1..4; the totals divide evenly for the combinations whose
    remainders add up to a multiple of nind - only the per-<p> lengths give the defect away"""
    import itertools
    layout = [(0, 'VERTEX', 3), (1, 'NORMAL', 3), (2, 'TEXCOORD', 2), (3, 'TEXCOORD', 2)]
    for nind in (1, 2, 3, 4):
        for m in (2, 3):
            for rem in itertools.product(range(nind), repeat=m):
                if not any(rem) and nind > 1:
                    continue
                for variant in range(2):
                    srcs = [[3, nc] for _, _, nc in layout[:nind]]
                    inputs = [[o, sem, ['src', i]] for i, (o, sem, _) in enumerate(layout[:nind])]
                    polys = [[rng.randint(0, 2) for _ in range(rng.choice([0, 1, 2, 3]) * nind + r)] for r in rem]
                    yield {'kind': 'polygons', 'via': 'create' if variant == 0 else 'xml', 'srcs': srcs,
                           'inputs': inputs, 'material': None, 'mode': 'premainder', 'polys': polys,
                           'dtype': 'int32', 'vcform': 'array'}


def exhaustive_cases():
    """<= 2 inputs over 2 offsets, <= 2 rows of the kind, source length <= 2, indices <= 2."""
    for kind in KINDS:
        k = KK[kind]
        for layout in ([(0, 'VERTEX')], [(0, 'VERTEX'), (0, 'NORMAL')], [(0, 'VERTEX'), (1, 'NORMAL')],
                       [(0, 'VERTEX'), (1, 'TEXCOORD')], [(1, 'VERTEX'), (0, 'TEXCOORD')]):
            nind = max(o for o, _ in layout) + 1
            for lens in itertools.product([0, 1, 2], repeat=len(layout)):
                srcs = [[n, WANT[s]] for n, (_, s) in zip(lens, layout)]
                inputs = [[o, s, ['src', i]] for i, (o, s) in enumerate(layout)]
                for rows in (0, 1) if k * nind > 3 else (0, 1, 2):
                    n = rows * k * nind
                    if n > 6:
                        continue
                    for flat in itertools.product([0, 1, 2], repeat=n):
                        case = {'kind': kind, 'via': 'create', 'srcs': srcs, 'inputs': inputs, 'material': None,
                                'mode': 'exh'}
                        if kind == 'polygons':
                            case['polys'] = [list(flat)] if rows else []
                        else:
                            case['flat'] = list(flat)
                            if kind == 'polylist':
                                case['vcounts'] = [rows] if rows else []
                        yield case


# ---------------------------------------------------------------- encoding into Coq

KIND_C = {'tri': 'KTri', 'line': 'KLine', 'polylist': 'KPolylist', 'polygons': 'KPolygons'}


def c_tgt(t):
    if t[0] == 'src':
        return '(CSrc %s)' % cnat(t[1])
    if t[0] == 'verts':
        return '(CVerts %s)' % clist([ctuple('VPosition' if vs == 'POSITION' else '(VSem %s)' % vs, cnat(i))
                                       for vs, i in t[1]])
    return 'CMissing' if t[0] == 'missing' else 'CBad'


def c_inputs(case):
    return clist([ctuple(cnat(o), s, c_tgt(t)) for o, s, t in case['inputs']])


def c_srcs(case):
    return clist([ctuple(cnat(n), cnat(nc)) for n, nc in case['srcs']])


def c_stream(case):
    if case['kind'] == 'polygons':
        return '(SPolygons %s)' % clist([clist([cN(x) for x in p]) for p in case['polys']])
    if case['kind'] == 'polylist':
        return '(SPolylist %s %s)' % (clist([cN(x) for x in case['flat']]), clist([cnat(x) for x in case['vcounts']]))
    return '(SFlat %s)' % clist([cN(x) for x in case['flat']])


def c_mat(case):
    return copt(None if case.get('material') is None else cN(case['material']))


def c_acc(acc):
    if acc is None:
        return 'None'
    nind, nrows, plen, views = acc
    vs = [ctuple(cnat(t), cnat(r), cnat(c), clist([cnat(x) for x in sh]), clist([cN(x) for x in ix]))
          for t, r, c, sh, ix in views]
    return '(Some %s)' % ctuple(cnat(nind), cnat(nrows), cnat(plen), clist(vs))


def c_case(case, res):
    if case['kind'] == 'source' and case['via'] == 'xml':
        acc = res.get('acc')
        acc_c = 'None' if acc is None else '(Some %s)' % ctuple(
            cnat(acc[0]), cnat(acc[1]), clist([clist([core.cZ(x) for x in row]) for row in acc[2]]))
        return '(CSourceLoad %s %s %s %s %s)' % (core.cbool(case.get('form') == 'stp'), cnat(case['n']),
                                                 cnat(case['ncomp']), cnat(res['code']), acc_c)
    if case['kind'] == 'source':
        return '(CSource %s %s %s)' % (cnat(case['n']), cnat(case['ncomp']), cnat(res['code']))
    if case['via'] == 'xml':
        pn = case.get('pnames') or {}
        at = case.get('acc_attrs') or {}
        srcs = []
        for i, (n, nc) in enumerate(case['srcs']):
            stp = pn.get(str(i)) == ['S', 'T', 'P']
            a = at.get(str(i)) or [3 if stp else nc, 0, n]
            srcs.append(ctuple(cnat(n), cnat(nc), core.cbool(stp), ctuple(cnat(a[0]), cnat(a[1]), cnat(a[2]))))
        return '(CPrimLoad %s %s %s %s %s %s %s)' % (KIND_C[case['kind']], clist(srcs), c_inputs(case), c_mat(case),
                                                     c_stream(case), cnat(res['code']), c_acc(res['acc']))
    return '(CPrim %s %s %s %s %s %s %s)' % (KIND_C[case['kind']], c_srcs(case), c_inputs(case), c_mat(case),
                                             c_stream(case), cnat(res['code']), c_acc(res['acc']))


# ---------------------------------------------------------------- running

def crashed(case, reason):
    return {'code': 99, 'acc': None, 'bad': None,
            'fails': [{'clause': 'crash-or-hang', 'defect': 'worker', 'site': case.get('kind'), 'got': 'died',
                       'detail': 'the implementation worker crashed or hung on this case: %s' % reason}]}


def run_impl_cases(cases, chunk=300):
    from concurrent.futures import ThreadPoolExecutor
    chunks = [cases[i:i + chunk] for i in range(0, len(cases), chunk)]

    def one(ch):
        return core.run_cases_bisect('c09', ch, lambda cs: {'cases': cs}, crashed, timeout=120)
    with ThreadPoolExecutor(max_workers=core.NCPU) as ex:
        outs = list(ex.map(one, chunks))
    return [r for out in outs for r in out]


def signature(f):
    return 'C09:%s:%s:%s:%s' % (f['clause'], f['defect'], f['site'], f['got'])


def failure_of(case, f):
    return {'signature': signature(f), 'clause': f['clause'],
            'what': '%s via %s: %s' % (case['kind'], case.get('via'), f['detail']),
            'input': case, 'detail': f}


def first_failures(cases, results, limit=8):
    out, seen = [], {}
    for c, r in zip(cases, results):
        for f in r['fails'][:1]:
            sig = signature(f)
            size = len(json.dumps(c))
            if sig not in seen or size < seen[sig][0]:
                seen[sig] = (size, failure_of(c, f))
    for sig in sorted(seen):
        out.append(seen[sig][1])
    return out[:limit]


def corpus_cases():
    d = os.path.join(core.VERIF, 'corpus', 'C09')
    out = []
    if os.path.isdir(d):
        for fn in sorted(os.listdir(d)):
            if fn.endswith('.json'):
                out.append(json.load(open(os.path.join(d, fn))))
    return out


def run(ctx):
    build_ok, obl, regen = core.std_setup(ctx)
    quick = ctx.quick()
    cases = corpus_cases()
    ncorpus = len(cases)
    nrand = 2000 if quick else 40000
    for _ in range(nrand):
        cases.append(gen_case(ctx.rng))
    for _ in range(60 if quick else 600):
        cases.append(gen_source_case(ctx.rng))
    systematic = list(systematic_source_cases()) + list(polygon_remainder_cases(ctx.rng)) + list(multiset_cases()) + \
        list(unpaired_tangent_cases())
    cases.extend(systematic)
    nexh = 0
    if not quick:
        ex = list(exhaustive_cases())
        nexh = len(ex)
        cases.extend(ex)
    ctx.log('building %d primitives/sources through the public API' % len(cases))
    results = run_impl_cases(cases)
    terms = [c_case(c, r) for c, r in zip(cases, results)]
    ctx.log('evaluating the constructor model on the same inputs inside Coq')
    bad, errors = core.coq_eval_cases(ctx, HEADER, CASE_TYPE, terms, 'C09.mismatches', chunk=250)
    failures = first_failures(cases, results)
    mismatches = [{'case_index': i, 'input': cases[i],
                   'implementation_observed': {k: results[i].get(k) for k in ('code', 'acc', 'exc')},
                   'explained_by_known': False} for i in bad[:20]]
    seen = set()
    dist = {'by_kind': {}, 'by_via': {}, 'by_mode': {}, 'accepted': 0, 'rejected_by_code': {},
            'judged_bad': {}, 'inputs_histogram': {}, 'zero_rows': 0, 'corpus_cases': ncorpus,
            'with_prelude_constructions': 0, 'with_param_name_forms': 0, 'index_dtypes': {},
            'with_source_data_forms': 0, 'vcounts_forms': {}, 'saved_before_construction': 0, 'mixed_polygon_dtypes': 0,
            'exhaustive_slice_cases': nexh, 'systematic_source_and_polygon_remainder_cases': len(systematic)}
    for c, r in zip(cases, results):
        dist['by_kind'][c['kind']] = dist['by_kind'].get(c['kind'], 0) + 1
        dist['by_via'][c.get('via')] = dist['by_via'].get(c.get('via'), 0) + 1
        dist['by_mode'][c.get('mode', 'source')] = dist['by_mode'].get(c.get('mode', 'source'), 0) + 1
        if r['code'] == 0:
            dist['accepted'] += 1
            if c['kind'] != 'source' and r['acc'] and r['acc'][1] == 0:
                dist['zero_rows'] += 1
        else:
            dist['rejected_by_code'][str(r['code'])] = dist['rejected_by_code'].get(str(r['code']), 0) + 1
        for b in (r.get('bad') or []):
            dist['judged_bad'][b] = dist['judged_bad'].get(b, 0) + 1
        if c['kind'] != 'source':
            dist['with_prelude_constructions'] += 1 if c.get('prelude') else 0
            dist['with_param_name_forms'] += 1 if c.get('pnames') else 0
            dist['with_source_data_forms'] += 1 if c.get('dforms') else 0
            dist['saved_before_construction'] += 1 if c.get('saves') else 0
            dist['mixed_polygon_dtypes'] += 1 if c.get('pdtypes') and len(set(c['pdtypes'])) > 1 else 0
            if c['kind'] == 'polylist' and c['via'] == 'create':
                dist['vcounts_forms'][c.get('vcform')] = dist['vcounts_forms'].get(c.get('vcform'), 0) + 1
            if c['via'] == 'create':
                dist['index_dtypes'][c.get('dtype', 'int32')] = dist['index_dtypes'].get(c.get('dtype', 'int32'), 0) + 1
            n = str(len(c['inputs']))
            dist['inputs_histogram'][n] = dist['inputs_histogram'].get(n, 0) + 1
        nontrivial = r['code'] != 0 or bool(r['acc'] and (r['acc'][0] > 0 if c['kind'] == 'source' else r['acc'][1] > 0))
        if nontrivial:
            seen.add(core.canon_hash({k: v for k, v in c.items() if k != 'mode'}))
    corr = {
        'evaluations': len(cases),
        'distinct_nontrivial': len(seen),
        'rule': 'random layouts (1-8 inputs over the 8 semantics, shared/distinct/gapped/mixed offsets, several texcoord/'
                'tangent sets, sources of 0-8 rows, occasionally wrong component counts, unresolved references, a '
                '<vertices> indirection on the load path) x index streams in range, out of range by 1/2/3 and by a lot '
                '(up to 2^31-1; 2^32-1 / 2^40 with uint32 / int64 arrays) at the first, last or a random corner of one input, ragged '
                'streams, vcount mismatches (incl. no vcounts at all); accessor <param> naming forms on the load path; earlier '
                'constructions on the same geometry (create path); '
                'built through create* (65%) or by loading a generated document (35%); plus FloatSource stride cases. '
                'non-trivial = rejected, or accepted with at least one row; distinct = different canonical case',
        'samples': [{'case': c, 'observed': {k: r.get(k) for k in ('code', 'acc')}}
                    for c, r in list(zip(cases, results))[ncorpus:ncorpus + 3]],
        'distribution': dist,
        'mismatches': mismatches,
        'errors': errors,
        'exhaustive': bool(nexh),
    }

    def search(mm):
        extra = [m['input'] for m in mm if m.get('input')]
        extra += [gen_case(ctx.rng, max_rows=6) for _ in range(6000)]
        extra += [gen_source_case(ctx.rng) for _ in range(200)]
        extra += list(polygon_remainder_cases(ctx.rng)) + list(multiset_cases()) + list(unpaired_tangent_cases())
        res = run_impl_cases(extra)
        return first_failures(extra, res)

    return core.finish(
        ctx, obligations=obl, regen=regen, build_ok=build_ok, corr=corr, failures=failures, search=search,
        trusted_base=core.BASE_TRUST + [
            'hand-written models Model/IndexTable.v, Model/PrimCtor.v of the four primitive constructors, '
            '_getInputsFromList, checkSource and the FloatSource stride check, tied to the code by the correspondence '
            '(exception class; nindices, len, and shape/contents of every exposed index array and rows/components of its data array)',
            'the harness writes the small COLLADA document for the load path itself (element text and attributes only)',
        ],
        assumptions=['index values are unsigned (negative indices are outside the property\'s quantifier)',
                     'layouts without any vertex input and a non-empty stream (raw IndexError today) and empty input '
                     'lists are not generated: the property lists no demand for them',
                     'COLOR/TANGENT/BINORMAL inputs (and TEXTANGENT/TEXBINORMAL on non-triangle kinds, second NORMAL '
                     'inputs) are neither checked nor exposed by the library; the property speaks of exposed arrays'])


def replay(ctx, body):
    case = body.get('input') or (body.get('mismatching_cases') or [{}])[0].get('input')
    if not case:
        print('replay: nothing to re-run (%s)' % body.get('no_longer_checks'))
        return 1
    r = run_impl_cases([case])[0]
    print(json.dumps({k: r.get(k) for k in ('code', 'acc', 'bad', 'fails', 'exc')}, indent=1))
    if r['fails']:
        print('VIOLATION property=C09 replay=%s' % body.get('replay_cmd', '').split()[-1])
        return 1
    print('replay: the property clauses hold on this input now')
    return 0
