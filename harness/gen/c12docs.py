"""C12: generated COLLADA documents with scene graphs (pure Python, no pycollada).

A *library* (materials, geometries with primitives of every kind, lights, cameras, skin and
morph controllers) is drawn once per run; a *case* is a set of library nodes and a visual
scene over it.  All numbers are small integers, so float32 results are exact.

Also here: the plain-integer reference traversal used by the worker's direct oracle
(paths in document order, product of the node matrices down each path, R.v + t, R.n,
material of the last binding of a symbol)."""

NS = 'http://www.collada.org/2005/11/COLLADASchema'
KINDS = ['geometry', 'controller', 'camera', 'light']
LIMIT = 2 ** 20


# ------------------------------------------------------------------ integer matrices

def ident():
    return [[1 if i == j else 0 for j in range(4)] for i in range(4)]


def mmul(A, B):
    return [[sum(A[i][k] * B[k][j] for k in range(4)) for j in range(4)] for i in range(4)]


COS = {0: 1, 90: 0, 180: -1, 270: 0}
SIN = {0: 0, 90: 1, 180: 0, 270: -1}


def transform_matrix(t):
    k = t[0]
    M = ident()
    if k == 'translate':
        for i in range(3):
            M[i][3] = t[1 + i]
    elif k == 'scale':
        for i in range(3):
            M[i][i] = t[1 + i]
    elif k == 'matrix':
        M = [list(t[1][4 * i:4 * i + 4]) for i in range(4)]
    elif k == 'rotate':
        x, y, z, a = t[1:5]
        c, s = COS[a % 360], SIN[a % 360]
        u = 1 - c
        M = [[u * x * x + c, u * x * y - s * z, u * x * z + s * y, 0],
             [u * x * y + s * z, u * y * y + c, u * y * z - s * x, 0],
             [u * x * z - s * y, u * y * z + s * x, u * z * z + c, 0],
             [0, 0, 0, 1]]
    return M


def node_matrix(ts):
    M = ident()
    for t in ts:
        M = mmul(M, transform_matrix(t))
    return M


def norm_inf(M):
    return max(sum(abs(v) for v in row) for row in M)


# ------------------------------------------------------------------ library

def gen_library(rng):
    # symbols and material ids live in different namespaces; some spellings coincide on purpose
    # (a symbol spelled like a material id, a material whose id is spelled like a symbol)
    mats = ['matA', 'matB', 'matC', 's1']
    symbols = ['s1', 'matB', 's3']
    geoms = []
    prim_kinds = ['triangles', 'polylist', 'polygons', 'lines']
    for gi in range(6):
        nv = rng.randint(3, 5)
        verts = [[rng.randint(-4, 4) for _ in range(3)] for _ in range(nv)]
        normals = None
        share = False
        if gi % 3 == 1:
            # ONE source feeds both POSITION and NORMAL (each point is its own normal)
            normals = [list(v) for v in verts]
            share = True
        elif gi % 3 != 2:
            nn = rng.randint(1, 4)
            normals = [[rng.randint(-2, 2) for _ in range(3)] for _ in range(nn)]
        prims = []
        for pi in range(rng.randint(1, 3)):
            kind = prim_kinds[(gi + pi) % 4]
            sym = rng.choice(symbols + [None]) if not (gi == 0 and pi == 0) else 's1'
            use_normals = normals is not None and rng.random() < 0.8
            if kind == 'lines':
                counts = [2] * rng.randint(1, 3)
            elif kind == 'triangles':
                counts = [3] * rng.randint(1, 3)
            else:
                counts = [rng.choice([3, 4]) for _ in range(rng.randint(1, 3))]
            rows = []
            for c in counts:
                rows.append([[rng.randrange(nv)] + ([rng.randrange(len(normals))] if use_normals else []) for _ in range(c)])
            prims.append({'kind': kind, 'symbol': sym, 'normals': use_normals, 'polys': rows})
        if gi == 5:
            prims = []          # a geometry without primitives: its bound object is empty (and falsy) but must be yielded
        geoms.append({'id': 'geom%d' % (gi + 1), 'verts': verts, 'normals': normals, 'share': share, 'prims': prims})
    lights = [{'id': 'lightP', 'kind': 'point'}, {'id': 'lightD', 'kind': 'directional'},
              {'id': 'lightS', 'kind': 'spot'}, {'id': 'lightA', 'kind': 'ambient'}]
    cams = [{'id': 'camP', 'kind': 'perspective'}, {'id': 'camO', 'kind': 'orthographic'}]

    def small_affine():
        p = [0, 1, 2]
        rng.shuffle(p)
        m = [0] * 16
        for i in range(3):
            m[4 * i + p[i]] = rng.choice([1, -1, 2])
            m[4 * i + 3] = rng.randint(-3, 3)
        m[15] = 1
        return m
    ctrls = [{'id': 'skin1', 'kind': 'skin', 'geometry': 'geom1', 'bsm': small_affine()},
             {'id': 'skin2', 'kind': 'skin', 'geometry': rng.choice(geoms)['id'], 'bsm': small_affine()},
             {'id': 'morph1', 'kind': 'morph', 'geometry': 'geom2', 'targets': ['geom3', 'geom1']},
             # valid library objects that are FALSY in Python (len() == 0): a skin that weights no vertex
             {'id': 'skin0', 'kind': 'skin', 'geometry': 'geom3', 'bsm': small_affine(), 'empty': True}]
    return {'materials': mats, 'symbols': symbols, 'geoms': geoms, 'lights': lights, 'cameras': cams, 'controllers': ctrls}


# ------------------------------------------------------------------ scene graphs

def gen_transform(rng):
    # no <rotate>: cos/sin of a multiple of 90 degrees leave 1e-7 residues in float32, and these graphs
    # must be exact (signed permutation matrices cover the same rotations; rotate itself is C13's)
    k = rng.choices(['matrix', 'translate', 'scale'], [5, 3, 1])[0]
    if k == 'translate':
        return [k] + [rng.randint(-5, 5) for _ in range(3)]
    if k == 'scale':
        return [k] + [rng.choice([1, -1, 2]) for _ in range(3)]
    if k == 'rotate':
        ax = [0, 0, 0]
        ax[rng.randrange(3)] = rng.choice([1, -1])
        return [k] + ax + [90 * rng.randint(-4, 4)]
    p = [0, 1, 2]
    rng.shuffle(p)
    m = [0] * 16
    for i in range(3):
        m[4 * i + p[i]] = rng.choice([1, 1, -1, 2]) if rng.random() < 0.9 else 3
        m[4 * i + 3] = rng.randint(-4, 4)
    m[15] = 1
    if rng.random() < 0.15:
        m[4 * rng.randrange(3) + rng.randrange(3)] += rng.choice([1, -1])    # a shear
    return [k, m]


def gen_binds(rng, lib):
    n = rng.choice([0, 1, 1, 2, 2, 3, 4])
    syms = lib['symbols'] + ['surplus1', 'surplus2']
    return [[rng.choice(syms), rng.choice(lib['materials'])] for _ in range(n)]


def gen_leaf(rng, lib, inst_targets):
    r = rng.random()
    if r < 0.40:
        return {'t': 'geom', 'ref': rng.choice(lib['geoms'])['id'], 'binds': gen_binds(rng, lib)}
    if r < 0.52:
        return {'t': 'ctrl', 'ref': rng.choice(lib['controllers'])['id'], 'binds': gen_binds(rng, lib)}
    if r < 0.66:
        return {'t': 'light', 'ref': rng.choice(lib['lights'])['id']}
    if r < 0.78:
        return {'t': 'cam', 'ref': rng.choice(lib['cameras'])['id']}
    if r < 0.83:
        return {'t': 'extra'}
    if r < 0.84 and lib.get('allow_broken'):
        return {'t': 'broken', 'what': rng.choice(['geometry', 'light', 'camera', 'controller'])}
    if inst_targets:
        return {'t': 'inst', 'ref': rng.choice(inst_targets)}
    return {'t': 'geom', 'ref': rng.choice(lib['geoms'])['id'], 'binds': gen_binds(rng, lib)}


class Counter(object):
    def __init__(self):
        self.n = 0

    def next(self, prefix):
        self.n += 1
        return '%s%d' % (prefix, self.n)


def gen_chain(rng, lib, length, inst_targets, ids, nid=None):
    """a deep, narrow chain of nodes (translations and sign flips only, so magnitudes stay small)"""
    def tr():
        return rng.choice([['translate', rng.randint(-2, 2), rng.randint(-2, 2), rng.randint(-2, 2)],
                           ['scale', rng.choice([1, -1]), rng.choice([1, -1]), 1],
                           ['matrix', [0, 1, 0, 1, -1, 0, 0, 0, 0, 0, 1, -1, 0, 0, 0, 1]]])
    top = node = {'t': 'node', 'id': nid or ids.next('n'), 'transforms': [tr()], 'children': []}
    for i in range(length):
        if rng.random() < 0.3:
            node['children'].append(gen_leaf(rng, lib, inst_targets))
        nxt = {'t': 'node', 'id': ids.next('n'), 'transforms': [tr()] if rng.random() < 0.8 else [], 'children': []}
        node['children'].append(nxt)
        if rng.random() < 0.3:
            node['children'].append(gen_leaf(rng, lib, inst_targets))
        node = nxt
    node['children'].append(gen_leaf(rng, lib, inst_targets))
    return top


def gen_node(rng, lib, depth, maxdepth, inst_targets, ids, nid=None):
    node = {'t': 'node', 'id': nid or ids.next('n'), 'transforms': [gen_transform(rng) for _ in range(rng.choice([0, 1, 1, 1, 2, 3]))],
            'children': []}
    fan = rng.randint(0, 4) if depth > 0 else rng.randint(1, 4)
    if rng.random() < 0.04:
        fan = rng.randint(6, 12)            # an unusually wide node
    for _ in range(fan):
        if depth + 1 < maxdepth and rng.random() < 0.45:
            node['children'].append(gen_node(rng, lib, depth + 1, maxdepth, inst_targets, ids))
        else:
            node['children'].append(gen_leaf(rng, lib, inst_targets))
    return node


def gen_case(rng, lib, forward_refs=False):
    ids = Counter()
    nlib = rng.choice([0, 1, 2, 2, 3, 4])
    libnodes = []
    for i in range(nlib):
        targets = [n['id'] for n in libnodes]           # acyclic: only earlier library nodes
        libnodes.append(gen_node(rng, lib, 0, rng.randint(1, 3), targets, ids, nid='lib%d' % (i + 1)))
    order = list(range(nlib))
    if rng.random() < 0.5:
        rng.shuffle(order)                              # file order: forward references inside library_nodes
    roots = []
    web = rng.random() < 0.3
    nroots = rng.randint(2, 6) if web else rng.choice([1, 1, 2, 3])
    root_ids = ['root%d' % (i + 1) for i in range(nroots)]
    # top-level scene nodes instantiate one another (instance_node resolves them through the scene's own
    # scope): a random dependency order, independent of the document order, so that chains of backward
    # and FORWARD references of every length occur (a forward reference defers the node to a retry pass)
    rank = list(range(nroots))
    rng.shuffle(rank)
    lib = dict(lib, allow_broken=(rng.random() < 0.2))
    for i in range(nroots):
        if web:
            targets = [n['id'] for n in libnodes if rng.random() < 0.5] + [root_ids[j] for j in range(nroots) if rank[j] < rank[i]]
        else:
            targets = [n['id'] for n in libnodes] + root_ids[:i]      # earlier top-level scene nodes can be instantiated too
            if forward_refs:
                targets = targets + root_ids[i + 1:]
        if rng.random() < 0.06:
            roots.append(gen_chain(rng, lib, rng.randint(8, 25), targets, ids, nid=root_ids[i]))
        else:
            roots.append(gen_node(rng, lib, 0, rng.randint(1, 3) if web else rng.randint(1, 5), targets, ids, nid=root_ids[i]))
        if web:
            lower = [root_ids[j] for j in range(nroots) if rank[j] < rank[i]]
            if lower and rng.random() < 0.8:
                # make the dependency real: instantiate the node just below in the dependency order (chains)
                below = max(lower, key=lambda r: rank[root_ids.index(r)])
                kids = roots[-1]['children']
                kids.insert(rng.randint(0, len(kids)), {'t': 'inst', 'ref': below})
    case = {'libnodes': libnodes, 'liborder': order, 'roots': roots, 'ignore': bool(lib.get('allow_broken'))}
    # follow-ups evaluated by the direct oracle: a root's subtree entered with a given matrix, and a second
    # traversal after one node's transform list was extended and saved
    case['build'] = 'construct' if (rng.random() < 0.4 and not case['ignore']) else 'load'
    case['form'] = rng.randrange(1000)
    if rng.random() < 0.5:
        case['enter'] = [rng.randrange(nroots), gen_transform(rng)]
    if rng.random() < 0.5:
        case['edit_after'] = rng.choice([n['id'] for n in roots + libnodes])
    return case


# ------------------------------------------------------------------ reference traversal (document order)

def resolve(case):
    table = {}
    for n in case['libnodes'] + case['roots']:
        table[n['id']] = n
    return table


def acyclic(case):
    """instance_node references among top-level scene nodes must not form a cycle"""
    table = resolve(case)
    state = {}

    def visit(n):
        if n['t'] == 'inst':
            return visit_id(n['ref'])
        if n['t'] == 'node':
            return all(visit(c) for c in n['children'])
        return True

    def visit_id(i):
        if state.get(i) == 1:
            return False
        if state.get(i) == 2:
            return True
        state[i] = 1
        ok = visit(table[i])
        state[i] = 2
        return ok
    return all(visit_id(n['id']) for n in case['roots'])


def paths(case, only_root=None, prefix=None):
    """[(list of node matrices root..leaf, leaf dict)] in document (pre-order) order; with only_root = i just the
    subtree of the i-th root, entered with the matrices in prefix"""
    table = resolve(case)
    out = []

    def walk(n, mats):
        t = n['t']
        if t == 'node':
            m2 = mats + [node_matrix(n['transforms'])]
            for c in n['children']:
                walk(c, m2)
        elif t == 'inst':
            walk(table[n['ref']], mats)
        elif t not in ('extra', 'broken'):
            out.append((mats, n))
    if only_root is not None:
        walk(case['roots'][only_root], list(prefix or []))
        return out
    for r in case['roots']:
        walk(r, [])
    return out


EDIT_TRANSFORM = ['translate', 1, -2, 3]


def edited(case, node_id):
    """the case after appending EDIT_TRANSFORM to the transforms of the root / library node node_id"""
    import json
    c = json.loads(json.dumps(case))
    for n in c['roots'] + c['libnodes']:
        if n['id'] == node_id:
            n['transforms'].append(list(EDIT_TRANSFORM))
    return c


def path_bound(case):
    """(16 * largest absolute entry of any product of node matrices along a prefix of an instance path,
    number of instance paths): every number the implementation computes on the way stays below it"""
    big = 1
    ps = paths(case)
    for mats, leaf in ps:
        M = ident()
        for m in mats:
            M = mmul(M, m)
            big = max(big, max(abs(v) for row in M for v in row), max(abs(v) for row in m for v in row))
    return 16 * big, len(ps)


def expected(lib, case, plist=None):
    """{kind: [structured bound object]} by the plain reading of the property"""
    A = atoms(lib)
    geoms = {g['id']: g for g in lib['geoms']}
    ctrls = {c['id']: c for c in lib['controllers']}
    lights = {l['id']: l for l in lib['lights']}
    out = {k: [] for k in KINDS}

    def flatM(M):
        return [v for row in M for v in row]

    def material(binds, sym):
        m = None
        for s, t in binds:
            if s == sym:
                m = t
        return 0 if (m is None or sym is None) else A[m]

    def prims(M, binds, g):
        o = []
        for p in g['prims']:
            bv = [[sum(M[i][j] * v[j] for j in range(3)) + M[i][3] for i in range(3)] for v in g['verts']]
            bn = None if not p['normals'] else [[sum(M[i][j] * n[j] for j in range(3)) for i in range(3)] for n in g['normals']]
            # the individual shapes (triangles / polygons / lines) seen by iterating the bound primitive
            shapes = [{'verts': [bv[r[0]] for r in poly], 'normals': None if bn is None else [bn[r[1]] for r in poly]}
                      for poly in p['polys']]
            o.append({'kind': p['kind'], 'material': material(binds, p['symbol']), 'verts': bv, 'normals': bn, 'shapes': shapes})
        return o
    for mats, leaf in (paths(case) if plist is None else plist):
        M = ident()
        for m in mats:
            M = mmul(M, m)
        t = leaf['t']
        col = lambda j, sgn=1: [sgn * M[i][j] for i in range(3)]
        if t == 'geom':
            out['geometry'].append({'target': A[leaf['ref']], 'M': flatM(M), 'prims': prims(M, leaf['binds'], geoms[leaf['ref']])})
        elif t == 'ctrl':
            c = ctrls[leaf['ref']]
            o = {'target': A[c['id']], 'M': flatM(M), 'skin': None}
            if c['kind'] == 'skin':
                Mg = mmul(M, [list(c['bsm'][4 * i:4 * i + 4]) for i in range(4)])
                o['skin'] = {'M': flatM(Mg), 'prims': prims(Mg, leaf['binds'], geoms[c['geometry']])}
            out['controller'].append(o)
        elif t == 'cam':
            out['camera'].append({'target': A[leaf['ref']], 'M': flatM(M), 'pos': col(3), 'dir': col(2, -1), 'up': col(1)})
        elif t == 'light':
            kind = LIGHT_KINDS.index(lights[leaf['ref']]['kind'])
            o = {'target': A[leaf['ref']], 'kind': kind, 'pos': None, 'dir': None, 'up': None}
            if kind == 0:
                o['pos'] = col(3)
            elif kind == 1:
                o['dir'] = col(2, -1)
            elif kind == 2:
                o['pos'], o['dir'], o['up'] = col(3), col(2, -1), col(1)
            out['light'].append(o)
    return out


def flat_prims(ps):
    o = [len(ps)]
    for p in ps:
        o += [p['material'], len(p['verts'])] + [x for v in p['verts'] for x in v]
        o += [-1] if p['normals'] is None else [len(p['normals'])] + [x for v in p['normals'] for x in v]
    return o


def optvec(v):
    return [0] if v is None else [1] + list(v)


def flatten(kind, s):
    """the integer list Check/C12.v computes for one bound object"""
    if kind == 'geometry':
        return [s['target']] + s['M'] + flat_prims(s['prims'])
    if kind == 'controller':
        return [s['target']] + s['M'] + ([0] if s['skin'] is None else [1] + s['skin']['M'] + flat_prims(s['skin']['prims']))
    if kind == 'camera':
        return [s['target']] + s['M'] + s['pos'] + s['dir'] + s['up']
    return [s['target'], s['kind']] + optvec(s['pos']) + optvec(s['dir']) + optvec(s['up'])


LIGHT_KINDS = ['point', 'directional', 'spot', 'ambient']


def atoms(lib):
    A = {}
    for i, g in enumerate(lib['geoms']):
        A[g['id']] = 1 + i
    for i, m in enumerate(lib['materials']):
        A[m] = 101 + i
    for i, l in enumerate(lib['lights']):
        A[l['id']] = 201 + i
    for i, c in enumerate(lib['cameras']):
        A[c['id']] = 301 + i
    for i, c in enumerate(lib['controllers']):
        A[c['id']] = 401 + i
    return A


def sym_atoms(lib):
    """material symbols are a namespace of their own"""
    return {s: 501 + i for i, s in enumerate(lib['symbols'] + ['surplus1', 'surplus2'])}


# ------------------------------------------------------------------ XML

def el(tag, attrs, body=''):
    a = ''.join(' %s="%s"' % (k, v) for k, v in attrs if v is not None)
    return '<%s%s>%s</%s>' % (tag, a, body, tag) if body != '' else '<%s%s/>' % (tag, a)


def nums(xs):
    return ' '.join(str(x) for x in xs)


def render_geometry(g):
    gid = g['id']
    nv = len(g['verts'])
    body = el('source', [('id', gid + '-pos')],
              el('float_array', [('id', gid + '-pos-array'), ('count', 3 * nv)], nums(v for p in g['verts'] for v in p)) +
              el('technique_common', [], el('accessor', [('source', '#%s-pos-array' % gid), ('count', nv), ('stride', 3)],
                                            ''.join(el('param', [('name', c), ('type', 'float')]) for c in 'XYZ'))))
    if g['normals'] is not None and not g.get('share'):
        nn = len(g['normals'])
        body += el('source', [('id', gid + '-nrm')],
                   el('float_array', [('id', gid + '-nrm-array'), ('count', 3 * nn)], nums(v for p in g['normals'] for v in p)) +
                   el('technique_common', [], el('accessor', [('source', '#%s-nrm-array' % gid), ('count', nn), ('stride', 3)],
                                                 ''.join(el('param', [('name', c), ('type', 'float')]) for c in 'XYZ'))))
    body += el('vertices', [('id', gid + '-vtx')], el('input', [('semantic', 'POSITION'), ('source', '#%s-pos' % gid)]))
    for p in g['prims']:
        inputs = el('input', [('semantic', 'VERTEX'), ('source', '#%s-vtx' % gid), ('offset', 0)])
        if p['normals']:
            inputs += el('input', [('semantic', 'NORMAL'), ('source', '#%s-%s' % (gid, 'pos' if g.get('share') else 'nrm')), ('offset', 1)])
        k = p['kind']
        flat = lambda rows: nums(v for r in rows for v in r)
        if k in ('triangles', 'lines'):
            allrows = [r for poly in p['polys'] for r in poly]
            body += el(k, [('count', len(p['polys'])), ('material', p['symbol'])], inputs + el('p', [], flat(allrows)))
        elif k == 'polylist':
            allrows = [r for poly in p['polys'] for r in poly]
            body += el(k, [('count', len(p['polys'])), ('material', p['symbol'])],
                       inputs + el('vcount', [], nums(len(poly) for poly in p['polys'])) + el('p', [], flat(allrows)))
        else:
            body += el(k, [('count', len(p['polys'])), ('material', p['symbol'])],
                       inputs + ''.join(el('p', [], flat(poly)) for poly in p['polys']))
    return el('geometry', [('id', gid), ('name', gid)], el('mesh', [], body))


def render_light(L):
    k = L['kind']
    color = el('color', [], '1 1 1')
    if k == 'point':
        inner = el('point', [], color + el('constant_attenuation', [], '1') + el('linear_attenuation', [], '0') +
                   el('quadratic_attenuation', [], '0'))
    elif k == 'spot':
        inner = el('spot', [], color + el('constant_attenuation', [], '1') + el('linear_attenuation', [], '0') +
                   el('quadratic_attenuation', [], '0') + el('falloff_angle', [], '45') + el('falloff_exponent', [], '1'))
    else:
        inner = el(k, [], color)
    return el('light', [('id', L['id']), ('name', L['id'])], el('technique_common', [], inner))


def render_camera(C):
    if C['kind'] == 'perspective':
        inner = el('perspective', [], el('xfov', [], '45') + el('aspect_ratio', [], '1') + el('znear', [], '1') + el('zfar', [], '100'))
    else:
        inner = el('orthographic', [], el('xmag', [], '2') + el('aspect_ratio', [], '1') + el('znear', [], '1') + el('zfar', [], '100'))
    return el('camera', [('id', C['id']), ('name', C['id'])], el('optics', [], el('technique_common', [], inner)))


def render_controller(c):
    cid = c['id']
    if c['kind'] == 'morph':
        nt = len(c['targets'])
        body = el('source', [('id', cid + '-targets')],
                  el('IDREF_array', [('id', cid + '-targets-array'), ('count', nt)], ' '.join(c['targets'])) +
                  el('technique_common', [], el('accessor', [('source', '#%s-targets-array' % cid), ('count', nt), ('stride', 1)],
                                                el('param', [('name', 'MORPH_TARGET'), ('type', 'IDREF')]))))
        body += el('source', [('id', cid + '-weights')],
                   el('float_array', [('id', cid + '-weights-array'), ('count', nt)], nums([1] * nt)) +
                   el('technique_common', [], el('accessor', [('source', '#%s-weights-array' % cid), ('count', nt), ('stride', 1)],
                                                 el('param', [('name', 'MORPH_WEIGHT'), ('type', 'float')]))))
        body += el('targets', [], el('input', [('semantic', 'MORPH_TARGET'), ('source', '#%s-targets' % cid)]) +
                   el('input', [('semantic', 'MORPH_WEIGHT'), ('source', '#%s-weights' % cid)]))
        return el('controller', [('id', cid)], el('morph', [('source', '#' + c['geometry']), ('method', 'NORMALIZED')], body))
    body = el('bind_shape_matrix', [], nums(c['bsm']))
    body += el('source', [('id', cid + '-joints')],
               el('Name_array', [('id', cid + '-joints-array'), ('count', 1)], 'joint1') +
               el('technique_common', [], el('accessor', [('source', '#%s-joints-array' % cid), ('count', 1), ('stride', 1)],
                                             el('param', [('name', 'JOINT'), ('type', 'Name')]))))
    body += el('source', [('id', cid + '-poses')],
               el('float_array', [('id', cid + '-poses-array'), ('count', 16)], nums([1, 0, 0, 0, 0, 1, 0, 0, 0, 0, 1, 0, 0, 0, 0, 1])) +
               el('technique_common', [], el('accessor', [('source', '#%s-poses-array' % cid), ('count', 1), ('stride', 16)],
                                             el('param', [('name', 'TRANSFORM'), ('type', 'float4x4')]))))
    body += el('source', [('id', cid + '-weights')],
               el('float_array', [('id', cid + '-weights-array'), ('count', 1)], '1') +
               el('technique_common', [], el('accessor', [('source', '#%s-weights-array' % cid), ('count', 1), ('stride', 1)],
                                             el('param', [('name', 'WEIGHT'), ('type', 'float')]))))
    body += el('joints', [], el('input', [('semantic', 'JOINT'), ('source', '#%s-joints' % cid)]) +
               el('input', [('semantic', 'INV_BIND_MATRIX'), ('source', '#%s-poses' % cid)]))
    body += el('vertex_weights', [('count', 0 if c.get('empty') else 1)],
               el('input', [('semantic', 'JOINT'), ('source', '#%s-joints' % cid), ('offset', 0)]) +
               el('input', [('semantic', 'WEIGHT'), ('source', '#%s-weights' % cid), ('offset', 1)]) +
               ('<vcount></vcount><v></v>' if c.get('empty') else el('vcount', [], '1') + el('v', [], '0 0')))
    return el('controller', [('id', cid)], el('skin', [('source', '#' + c['geometry'])], body))


def render_transform(t):
    if t[0] == 'matrix':
        return el('matrix', [], nums(t[1]))
    return el(t[0], [], nums(t[1:]))


def render_binds(binds):
    if not binds:
        return ''
    return el('bind_material', [], el('technique_common', [], ''.join(
        el('instance_material', [('symbol', s), ('target', '#' + m)]) for s, m in binds)))


def render_node(n):
    t = n['t']
    if t == 'node':
        return el('node', [('id', n['id']), ('name', n['id'])],
                  ''.join(render_transform(x) for x in n['transforms']) + ''.join(render_node(c) for c in n['children']) or ' ')
    if t == 'inst':
        return el('instance_node', [('url', '#' + n['ref'])])
    if t == 'geom':
        return el('instance_geometry', [('url', '#' + n['ref'])], render_binds(n['binds']))
    if t == 'ctrl':
        return el('instance_controller', [('url', '#' + n['ref'])], render_binds(n['binds']))
    if t == 'light':
        return el('instance_light', [('url', '#' + n['ref'])])
    if t == 'cam':
        return el('instance_camera', [('url', '#' + n['ref'])])
    if t == 'broken':
        # an instance of something that is not in the document: dropped when loading with errors ignored
        return el('instance_' + n['what'], [('url', '#no_such_' + n['what'])])
    return el('extra', [], el('technique', [('profile', 'verif')], el('note', [], 'x')))


def render_library(lib):
    out = el('asset', [], el('created', [], '2020-01-01T00:00:00') + el('modified', [], '2020-01-01T00:00:00'))
    out += el('library_effects', [], el('effect', [('id', 'fx')], el('profile_COMMON', [], el('technique', [('sid', 'common')], el(
        'phong', [], el('diffuse', [], el('color', [], '1 1 1 1')))))))
    out += el('library_materials', [], ''.join(el('material', [('id', m), ('name', m)], el('instance_effect', [('url', '#fx')]))
                                               for m in lib['materials']))
    out += el('library_geometries', [], ''.join(render_geometry(g) for g in lib['geoms']))
    out += el('library_lights', [], ''.join(render_light(L) for L in lib['lights']))
    out += el('library_cameras', [], ''.join(render_camera(C) for C in lib['cameras']))
    out += el('library_controllers', [], ''.join(render_controller(c) for c in lib['controllers']))
    return out


def render_document(lib, case):
    body = render_library(lib)
    if case['libnodes']:
        body += el('library_nodes', [], ''.join(render_node(case['libnodes'][i]) for i in case['liborder']))
    body += el('library_visual_scenes', [], el('visual_scene', [('id', 'vs')], ''.join(render_node(r) for r in case['roots'])))
    body += el('scene', [], el('instance_visual_scene', [('url', '#vs')]))
    return ('<?xml version="1.0" encoding="utf-8"?>\n' + el('COLLADA', [('xmlns', NS), ('version', '1.4.1')], body)).encode()
