"""Base COLLADA documents for the load-path properties (C07 reference graphs use refdocs.py;
this module gives the C08 fault enumeration its bases).  Pure text generation: no pycollada.

`base_documents()` returns {name: xml text}.  'full' exercises every loader (images, effects with
surface/sampler/texture, materials, animations, the six primitive kinds, skin and morph
controllers, the four lights, the two cameras, library nodes with instance_node, a visual scene
with every instance kind and every transform, default scene); the small ones have at most 60
elements so that single faults can be enumerated exhaustively."""

NS = 'http://www.collada.org/2005/11/COLLADASchema'


def _doc(body):
    return ('<?xml version="1.0" encoding="utf-8"?>\n'
            '<COLLADA xmlns="%s" version="1.4.1">\n'
            '<asset><contributor><author>J\u00f6rg \u2713 \u65e5\u672c</author></contributor><created>2020-01-01T00:00:00Z</created><modified>2020-01-01T00:00:00Z</modified>'
            '<up_axis>Y_UP</up_axis></asset>\n%s</COLLADA>\n' % (NS, body))


def fsource(sid, values, params):
    stride = len(params)
    return ('<source id="%s"><float_array id="%s-array" count="%d">%s</float_array>'
            '<technique_common><accessor source="#%s-array" count="%d" stride="%d">%s</accessor>'
            '</technique_common></source>'
            % (sid, sid, len(values), ' '.join(str(v) for v in values), sid, len(values) // stride, stride,
               ''.join('<param name="%s" type="float"/>' % p for p in params)))


def nsource(sid, names, kind='Name_array', param='JOINT'):
    return ('<source id="%s"><%s id="%s-array" count="%d">%s</%s>'
            '<technique_common><accessor source="#%s-array" count="%d" stride="1">'
            '<param name="%s" type="%s"/></accessor></technique_common></source>'
            % (sid, kind, sid, len(names), ' '.join(names), kind, sid, len(names), param,
               'IDREF' if kind == 'IDREF_array' else 'name'))


QUAD = [0, 0, 0, 1, 0, 0, 1, 1, 0, 0, 1, 0]
NRM = [0, 0, 1, 0, 1, 0]
UV = [0, 0, 1, 0, 1, 1, 0, 1]


def geometry(gid, prims, with_uv=True, extra=True):
    """prims: list of xml snippets using #<gid>-v (vertices, offset 0), #<gid>-n, #<gid>-uv"""
    s = '<geometry id="%s" name="%s"><mesh>' % (gid, gid)
    s += fsource(gid + '-p', QUAD, 'XYZ')
    s += fsource(gid + '-n', NRM, 'XYZ')
    if with_uv:
        s += fsource(gid + '-uv', UV, 'ST')
    s += '<vertices id="%s-v"><input semantic="POSITION" source="#%s-p"/></vertices>' % (gid, gid)
    s += ''.join(prims)
    s += '</mesh>'
    if extra:
        # vendor content that Geometry.load reads
        s += ('<extra><technique profile="GOOGLEEARTH"><double_sided>1</double_sided></technique>'
              '<technique profile="MAX3D"><double_sided>0</double_sided></technique></extra>')
    s += '</geometry>'
    return s


def triangles(gid, mat='m0'):
    return ('<triangles count="2" material="%s"><input semantic="VERTEX" source="#%s-v" offset="0"/>'
            '<input semantic="NORMAL" source="#%s-n" offset="1"/>'
            '<p>0 0 1 0 2 1 0 0 2 1 3 1</p></triangles>' % (mat, gid, gid))


def triangles_uv(gid, mat='m0'):
    return ('<triangles count="2" material="%s"><input semantic="VERTEX" source="#%s-v" offset="0"/>'
            '<input semantic="NORMAL" source="#%s-n" offset="1"/>'
            '<input semantic="TEXCOORD" source="#%s-uv" offset="2" set="0"/>'
            '<p>0 0 0 1 0 1 2 1 2 0 0 0 2 1 2 3 1 3</p></triangles>' % (mat, gid, gid, gid))


def polylist(gid, mat='m0'):
    return ('<polylist count="1" material="%s"><input semantic="VERTEX" source="#%s-v" offset="0"/>'
            '<input semantic="NORMAL" source="#%s-n" offset="1"/>'
            '<vcount>4</vcount><p>0 0 1 0 2 1 3 1</p></polylist>' % (mat, gid, gid))


def polygons(gid, mat='m0'):
    return ('<polygons count="2" material="%s"><input semantic="VERTEX" source="#%s-v" offset="0"/>'
            '<p>0 1 2</p><p>0 2 3</p></polygons>' % (mat, gid))


def lines(gid, mat='m0'):
    return ('<lines count="2" material="%s"><input semantic="VERTEX" source="#%s-v" offset="0"/>'
            '<p>0 1 2 3</p></lines>' % (mat, gid))


def tristrips(gid, mat='m0'):
    return ('<tristrips count="1" material="%s"><input semantic="VERTEX" source="#%s-v" offset="0"/>'
            '<p>0 1 3 2</p></tristrips>' % (mat, gid))


def trifans(gid, mat='m0'):
    return ('<trifans count="1" material="%s"><input semantic="VERTEX" source="#%s-v" offset="0"/>'
            '<p>0 1 2 3</p></trifans>' % (mat, gid))


def effect_plain(eid, shader='phong'):
    return ('<effect id="%s"><profile_COMMON><technique sid="common"><%s>'
            '<emission><color>0 0 0 1</color></emission>'
            '<diffuse><color>0.5 0.25 0.125 1</color></diffuse>'
            '<shininess><float>8</float></shininess>'
            '<transparent opaque="RGB_ZERO"><color>0 0 0 1</color></transparent>'
            '<transparency><float>0.5</float></transparency>'
            '</%s></technique></profile_COMMON></effect>' % (eid, shader, shader))


def effect_textured(eid, imgid):
    return ('<effect id="%s"><profile_COMMON>'
            '<newparam sid="%s-f0"><float>0.5</float></newparam>'
            '<newparam sid="%s-surf"><surface type="2D"><init_from>%s</init_from><format>A8R8G8B8</format></surface></newparam>'
            '<newparam sid="%s-samp"><sampler2D><source>%s-surf</source><minfilter>LINEAR</minfilter></sampler2D></newparam>'
            '<newparam sid="%s-samp2"><sampler2D><source>%s-surf</source></sampler2D></newparam>'
            '<newparam sid="%s-f"><float>2</float></newparam>'
            '<technique sid="common"><lambert>'
            '<ambient><color>0.5 0.5 0.5 1</color></ambient>'
            '<diffuse><texture texture="%s-samp" texcoord="UV0"/></diffuse>'
            '<reflectivity><param ref="%s-f"/></reflectivity>'
            '</lambert></technique></profile_COMMON>'
            '<extra><technique profile="GOOGLEEARTH"><double_sided>1</double_sided></technique>'
            '<technique profile="FCOLLADA"><bump><texture texture="%s-samp" texcoord="UV0"/></bump></technique></extra>'
            '</effect>' % (eid, eid, eid, imgid, eid, eid, eid, eid, eid, eid, eid, eid))


def material(mid, eid):
    # the name is free text: it differs from every id
    return '<material id="%s" name="%s-label"><instance_effect url="#%s"/></material>' % (mid, mid, eid)


def image(iid, path):
    return '<image id="%s" name="%s-\u00fc"><init_from>%s</init_from></image>' % (iid, iid, path)


def lights():
    return ('<library_lights>'
            '<light id="l-dir"><technique_common><directional><color>1 1 1</color></directional></technique_common>'
            '<technique profile="MAYA"><intensity>2</intensity></technique><extra><technique profile="X"><decay>1</decay></technique></extra></light>'
            '<light id="l-amb"><technique_common><ambient><color>0.5 0.5 0.5</color></ambient></technique_common></light>'
            '<light id="l-pt"><technique_common><point><color>1 0.5 0.25</color><constant_attenuation>1</constant_attenuation>'
            '<linear_attenuation>0.5</linear_attenuation><quadratic_attenuation>0.25</quadratic_attenuation><zfar>100</zfar></point></technique_common></light>'
            '<light id="l-spot"><technique_common><spot><color>1 1 0.5</color><constant_attenuation>1</constant_attenuation>'
            '<linear_attenuation>0</linear_attenuation><quadratic_attenuation>0</quadratic_attenuation>'
            '<falloff_angle>45</falloff_angle><falloff_exponent>2</falloff_exponent></spot></technique_common></light>'
            '</library_lights>')


def cameras():
    return ('<library_cameras>'
            '<camera id="c-persp"><optics><technique_common><perspective><xfov>45</xfov><aspect_ratio>1.5</aspect_ratio>'
            '<znear>0.5</znear><zfar>1000</zfar></perspective></technique_common><technique profile="MAYA"><film_fit>0</film_fit></technique>'
            '</optics><extra><technique profile="X"><shutter>0.5</shutter></technique></extra></camera>'
            '<camera id="c-ortho"><optics><technique_common><orthographic><xmag>2</xmag><ymag>4</ymag>'
            '<znear>0.25</znear><zfar>500</zfar></orthographic></technique_common></optics></camera>'
            '</library_cameras>')


IDENT = '1 0 0 0 0 1 0 0 0 0 1 0 0 0 0 1'


def skin(cid, gid):
    return ('<controller id="%s"><skin source="#%s"><bind_shape_matrix>%s</bind_shape_matrix>' % (cid, gid, IDENT)
            + nsource(cid + '-j', ['b0', 'b1'])
            + ('<source id="%s-m"><float_array id="%s-m-array" count="32">%s %s</float_array><technique_common>'
               '<accessor source="#%s-m-array" count="2" stride="16"><param name="TRANSFORM" type="float4x4"/></accessor>'
               '</technique_common></source>' % (cid, cid, IDENT, IDENT, cid))
            + fsource(cid + '-w', [1, 0.5, 0.25], ['WEIGHT'])
            + '<joints><input semantic="JOINT" source="#%s-j"/><input semantic="INV_BIND_MATRIX" source="#%s-m"/></joints>' % (cid, cid)
            + '<vertex_weights count="4"><input semantic="JOINT" source="#%s-j" offset="0"/>'
              '<input semantic="WEIGHT" source="#%s-w" offset="1"/><vcount>1 1 2 1</vcount>'
              '<v>0 0 1 0 0 1 1 1 1 2</v></vertex_weights></skin></controller>' % (cid, cid))


def skin_empty(cid, gid):
    """a skin that influences no vertex: empty <vcount> and <v> (len(skin) == 0)"""
    return skin(cid, gid).replace('<vertex_weights count="4">', '<vertex_weights count="0">') \
        .replace('<vcount>1 1 2 1</vcount>', '<vcount></vcount>').replace('<v>0 0 1 0 0 1 1 1 1 2</v>', '<v></v>')


def morph(cid, base, targets):
    return ('<controller id="%s"><morph source="#%s" method="NORMALIZED">' % (cid, base)
            + nsource(cid + '-t', targets, 'IDREF_array', 'MORPH_TARGET')
            + fsource(cid + '-w', [0.5] * len(targets), ['MORPH_WEIGHT'])
            + '<targets><input semantic="MORPH_TARGET" source="#%s-t"/><input semantic="MORPH_WEIGHT" source="#%s-w"/></targets>' % (cid, cid)
            + '</morph></controller>')


def inst_geom(gid, mats=(('m0', 'mat0'),), with_bvi=False):
    bind = ''
    if mats:
        bind = '<bind_material><technique_common>' + ''.join(
            '<instance_material symbol="%s" target="#%s">%s</instance_material>' % (
                sym, mid, '<bind_vertex_input semantic="UV0" input_semantic="TEXCOORD" input_set="0"/>' if with_bvi else '')
            for sym, mid in mats) + '</technique_common></bind_material>'
    return '<instance_geometry url="#%s">%s</instance_geometry>' % (gid, bind)


def inst_ctrl(cid, mats=(('m0', 'mat0'),)):
    bind = '<bind_material><technique_common>' + ''.join(
        '<instance_material symbol="%s" target="#%s"/>' % (sym, mid) for sym, mid in mats) + '</technique_common></bind_material>'
    return '<instance_controller url="#%s">%s</instance_controller>' % (cid, bind)


def animation():
    return ('<library_animations><animation id="anim0">'
            + fsource('anim0-in', [0, 1], ['TIME']) + fsource('anim0-out', [0, 2], ['X'])
            + '<animation id="anim0-child">' + fsource('anim0c-in', [0, 1], ['TIME']) + '</animation>'
            + '</animation></library_animations>')


def doc_full():
    body = ''
    body += '<library_images>' + image('img0', 'tex0.png') + image('img1', 'tex1.png') + '</library_images>\n'
    body += ('<library_effects>' + effect_plain('fx0', 'phong') + effect_textured('fx1', 'img0')
             + effect_plain('fx2', 'blinn') + '</library_effects>\n')
    body += ('<library_materials>' + material('mat0', 'fx0') + material('mat1', 'fx1') + material('mat2', 'fx2')
             + '</library_materials>\n')
    body += animation() + '\n'
    body += ('<library_geometries>'
             + geometry('g0', [triangles_uv('g0'), polylist('g0', 'm1')])
             + geometry('g1', [polygons('g1'), lines('g1', 'm1')], with_uv=False)
             + geometry('g2', [tristrips('g2'), trifans('g2')], with_uv=False)
             + '</library_geometries>\n')
    body += '<library_controllers>' + skin('sk0', 'g0') + morph('mo0', 'g1', ['g2', 'g0']) + '</library_controllers>\n'
    body += lights() + '\n' + cameras() + '\n'
    body += ('<library_nodes>'
             '<node id="ln0" name="ln0"><instance_node url="#ln1"/><translate>1 2 3</translate></node>'
             '<node id="ln1" name="ln1"><scale>2 2 2</scale>' + inst_geom('g1', (('m0', 'mat2'), ('m1', 'mat0')))
             + '<node id="ln1c"><instance_light url="#l-amb"/></node></node>'
             '</library_nodes>\n')
    body += ('<library_visual_scenes><visual_scene id="vs0">'
             '<node id="n0" name="n0"><translate>1 0 0</translate><rotate>0 0 1 90</rotate><scale>1 2 4</scale>'
             + inst_geom('g0', (('m0', 'mat1'), ('m1', 'mat0')), with_bvi=True) + '</node>'
             '<node id="n1" name="n1"><matrix>%s</matrix>' % IDENT + inst_ctrl('sk0') + inst_ctrl('mo0', (('m0', 'mat2'),))
             + '<node id="n1a"><instance_light url="#l-dir"/><instance_light url="#l-pt"/></node></node>'
             '<node id="n2" name="n2"><lookat>0 0 5 0 0 0 0 1 0</lookat><instance_camera url="#c-persp"/>'
             '<instance_camera url="#c-ortho"/><instance_light url="#l-spot"/></node>'
             '<node id="n3" name="n3"><instance_node url="#ln0"/><instance_node url="#n0"/>'
             + inst_geom('g2', (('m0', 'mat0'),)) + '<extra><technique profile="X"><foo>1</foo></technique></extra></node>'
             '</visual_scene><visual_scene id="vs1"><node id="v1n0"><instance_node url="#ln1"/></node></visual_scene>'
             '</library_visual_scenes>\n')
    body += '<scene><instance_visual_scene url="#vs0"/></scene>\n'
    return _doc(body)


def doc_small_mesh():
    body = '<library_effects>' + effect_plain('fx0') + '</library_effects>\n'
    body += '<library_materials>' + material('mat0', 'fx0') + '</library_materials>\n'
    body += '<library_geometries>' + geometry('g0', [triangles('g0')], with_uv=False) + '</library_geometries>\n'
    body += ('<library_visual_scenes><visual_scene id="vs0"><node id="n0" name="\u00e9t\u00e9"><translate>1 2 3</translate>'
             + inst_geom('g0') + '</node></visual_scene></library_visual_scenes>\n')
    body += '<scene><instance_visual_scene url="#vs0"/></scene>\n'
    return _doc(body)


def doc_small_scene():
    """lights, cameras, library nodes, forward instance_node, two scenes; no geometry"""
    body = ('<library_lights><light id="l0"><technique_common><point><color>1 1 1</color>'
            '<constant_attenuation>1</constant_attenuation><zfar>10</zfar></point></technique_common></light>'
            '<light id="l1"><technique_common><directional><color>1 0 0</color></directional></technique_common></light>'
            '</library_lights>\n')
    body += ('<library_cameras><camera id="c0"><optics><technique_common><perspective><yfov>30</yfov>'
             '<znear>1</znear><zfar>10</zfar></perspective></technique_common></optics></camera></library_cameras>\n')
    body += ('<library_nodes><node id="a" name="n\u0153ud-\u65e5\u672c"><instance_node url="#b"/><instance_light url="#l1"/></node>'
             '<node id="b"><rotate>1 0 0 45</rotate><instance_light url="#l0"/></node>'
             '<node id="c"><instance_camera url="#c0"/></node></library_nodes>\n')
    body += ('<library_visual_scenes><visual_scene id="vs0"><node id="r0"><instance_node url="#a"/></node>'
             '<node id="r1"><matrix>%s</matrix><instance_node url="#c"/><instance_node url="#r0"/></node></visual_scene>'
             '<visual_scene id="vs1"><node id="s0"><instance_light url="#l0"/></node></visual_scene>'
             '</library_visual_scenes>\n' % IDENT)
    body += '<scene><instance_visual_scene url="#vs1"/></scene>\n'
    return _doc(body)


def doc_small_tex():
    """image -> surface -> sampler -> texture chain and two materials sharing one effect"""
    body = '<library_images>' + image('img0', 'a.png') + '</library_images>\n'
    body += '<library_effects>' + effect_textured('fx0', 'img0') + '</library_effects>\n'
    body += '<library_materials>' + material('mat0', 'fx0') + material('mat1', 'fx0') + '</library_materials>\n'
    body += ('<library_visual_scenes><visual_scene id="vs0"><node id="n0"/></visual_scene></library_visual_scenes>\n')
    body += '<scene><instance_visual_scene url="#vs0"/></scene>\n'
    return _doc(body)


def doc_small_ctrl():
    body = '<library_geometries>' + geometry('g0', [polylist('g0')], with_uv=False) + '</library_geometries>\n'
    body += '<library_controllers>' + skin('sk0', 'g0') + '</library_controllers>\n'
    body += ('<library_visual_scenes><visual_scene id="vs0"><node id="n0">' + inst_ctrl('sk0', ())
             + '</node></visual_scene></library_visual_scenes>\n')
    return _doc(body)


def doc_scopes():
    """several scopes of every scoped kind, so that a name can be defined elsewhere: two textured effects
    (own surface / sampler / float sids), two geometries (own sources), two skins (own sources), two
    scenes (own top-level node ids) and a library node"""
    body = '<library_images>' + image('imgA', 'a.png') + image('imgB', 'b.png') + '</library_images>\n'
    body += ('<library_effects>' + effect_textured('fxA', 'imgA') + effect_plain('fxP') + effect_textured('fxB', 'imgB')
             + '</library_effects>\n')
    body += '<library_materials>' + material('matA', 'fxA') + material('matB', 'fxB') + '</library_materials>\n'
    body += ('<library_geometries>' + geometry('gA', [triangles('gA')], with_uv=False)
             + geometry('gB', [polylist('gB')], with_uv=False) + '</library_geometries>\n')
    body += ('<library_controllers>' + skin('skA', 'gA') + skin('skB', 'gB') + morph('moE', 'gA', []) + skin_empty('skE', 'gB')
             + '</library_controllers>\n')
    body += ('<library_nodes><node id="lnA" name="lnA">' + inst_geom('gA', (('m0', 'matA'),)) + '</node>'
             '<node id="lnB"><scale>1 2 3</scale>' + inst_geom('gB', (('m0', 'matB'),)) + '<instance_node url="#lnA"/></node>'
             '</library_nodes>\n')
    body += ('<library_visual_scenes>'
             '<visual_scene id="vsA"><node id="a0">' + inst_geom('gB', (('m0', 'matB'),)) + '</node>'
             '<node id="a1"><translate>1 2 3</translate>' + inst_ctrl('skA', (('m0', 'matB'),))
             + '<node id="a1sub"><rotate>0 0 1 90</rotate><instance_node url="#a0"/></node>'
             '<instance_node url="#lnA"/></node></visual_scene>'
             '<visual_scene id="vsB"><node id="b0">' + inst_ctrl('skB', (('m0', 'matA'),)) + inst_ctrl('moE', ())
             + inst_ctrl('skE', (('m0', 'matB'),)) + '</node>'
             '<node id="b1"><instance_node url="#b0"/></node></visual_scene>'
             '</library_visual_scenes>\n')
    body += '<scene><instance_visual_scene url="#vsB"/></scene>\n'
    return _doc(body)


def base_documents():
    return {
        'scopes': doc_scopes(),
        'full': doc_full(),
        'small_mesh': doc_small_mesh(),
        'small_scene': doc_small_scene(),
        'small_tex': doc_small_tex(),
        'small_ctrl': doc_small_ctrl(),
    }
