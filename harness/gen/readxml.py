"""Independent reading of an existing COLLADA file (xml.etree only, never pycollada) into the same
description format harness/gen/xmldocs.py produces, for the sections whose expectations
harness/gen/expect.py can derive: geometries (float sources, <vertices>, the six primitive
elements), lights, cameras, library nodes, visual scenes and the default scene.  Used for the
shipped data files.  A section containing a construct this reader does not know is left out
(expect.Any), never guessed."""
import xml.etree.ElementTree as ET

from harness.gen import expect

PRIMS = ('triangles', 'tristrips', 'trifans', 'lines', 'polylist', 'polygons')
TRANSFORMS = ('translate', 'rotate', 'scale', 'matrix', 'lookat')


class Unsupported(Exception):
    pass


def local(e):
    return e.tag.split('}')[-1] if isinstance(e.tag, str) else None


class Reader(object):
    def __init__(self, data):
        self.root = ET.fromstring(data)
        self.ns = self.root.tag[1:].split('}')[0] if self.root.tag.startswith('{') else ''

    def q(self, name):
        return '{%s}%s' % (self.ns, name) if self.ns else name

    def path(self, *names):
        return '/'.join(self.q(n) for n in names)

    def ref(self, v):
        if v is None or not v.startswith('#'):
            raise Unsupported('reference %r' % v)
        return v[1:]

    def items(self, libname, name):
        out = []
        for lib in self.root.findall(self.q(libname)):
            out.extend(lib.findall(self.q(name)))
        return out

    # ---- geometry
    def geometry(self, g):
        mesh = g.find(self.q('mesh'))
        sources = []
        for s in mesh.findall(self.q('source')):
            fa = s.find(self.q('float_array'))
            if fa is None:
                raise Unsupported('non-float source in mesh')
            params = [p.get('name') for p in s.findall(self.path('technique_common', 'accessor', 'param'))]
            if not params:
                raise Unsupported('source without params')
            sources.append({'id': s.get('id'), 'kind': 'float', 'tokens': (fa.text or '').split(), 'params': params})
        v = mesh.find(self.q('vertices'))
        if v is None:
            raise Unsupported('mesh without vertices')
        vertices = {'id': v.get('id'), 'inputs': [(i.get('semantic'), self.ref(i.get('source'))) for i in v.findall(self.q('input'))]}
        prims = []
        for c in mesh:
            t = local(c)
            if t in PRIMS:
                ins = [[int(i.get('offset')), i.get('semantic'), self.ref(i.get('source')), i.get('set')]
                       for i in c.findall(self.q('input'))]
                ps = [None if (p.text is None or not p.text.strip()) else [int(x) for x in p.text.split()]
                      for p in c.findall(self.q('p'))]
                vc = c.find(self.q('vcount'))
                prims.append({'tag': t, 'material': c.get('material'), 'inputs': ins, 'ps': ps,
                              'vcount': None if vc is None else [int(x) for x in (vc.text or '').split()],
                              'nind': max(i[0] for i in ins) + 1})
                if any(i[1] not in expect.KNOWN for i in ins):
                    raise Unsupported('unknown input semantic')
            elif t not in ('source', 'vertices', 'extra'):
                raise Unsupported('mesh child %s' % t)
        return {'id': g.get('id') or '', 'name': g.get('name'), 'sources': sources, 'vertices': vertices, 'prims': prims,
                'double_sided': None}

    # ---- lights / cameras
    def light(self, L):
        tc = L.find(self.q('technique_common'))
        k = local(tc[0])
        if k not in expect.LIGHT_CLS:
            raise Unsupported('light kind')
        node = tc[0]
        params = [[local(c), c.text.strip()] for c in node if local(c) in expect.LIGHT_ATTR]
        return {'id': L.get('id'), 'kind': k, 'color': node.find(self.q('color')).text.split(), 'params': params}

    def camera(self, C):
        tc = C.find(self.path('optics', 'technique_common'))
        k = local(tc[0])
        if k not in ('perspective', 'orthographic'):
            raise Unsupported('camera kind')
        node = tc[0]
        names = ('xfov', 'yfov', 'aspect_ratio') if k == 'perspective' else ('xmag', 'ymag', 'aspect_ratio')
        return {'id': C.get('id') or '', 'kind': k, 'params': [[local(c), c.text.strip()] for c in node if local(c) in names],
                'znear': node.find(self.q('znear')).text.strip(), 'zfar': node.find(self.q('zfar')).text.strip()}

    # ---- nodes
    def mats(self, e):
        out = []
        for m in e.findall(self.path('bind_material', 'technique_common', 'instance_material')):
            out.append({'symbol': m.get('symbol'), 'target': self.ref(m.get('target')),
                        'binds': [[b.get('semantic'), b.get('input_semantic'), b.get('input_set')]
                                  for b in m.findall(self.q('bind_vertex_input'))]})
        return out

    def node(self, n):
        N = {'id': n.get('id'), 'name': n.get('name'), 'items': []}
        for c in n:
            t = local(c)
            if c.tag != self.q(t):
                raise Unsupported('foreign element in node')
            if t in TRANSFORMS:
                N['items'].append({'t': 'transform', 'kind': t, 'tokens': (c.text or '').split()})
            elif t == 'node':
                N['items'].append({'t': 'node', 'node': self.node(c)})
            elif t in ('instance_geometry', 'instance_controller'):
                N['items'].append({'t': t[9:], 'url': self.ref(c.get('url')), 'materials': self.mats(c)})
            elif t in ('instance_light', 'instance_camera'):
                N['items'].append({'t': t[9:], 'url': self.ref(c.get('url'))})
            elif t == 'instance_node':
                N['items'].append({'t': 'instance_node', 'url': self.ref(c.get('url'))})
            elif t == 'extra':
                N['items'].append({'t': 'extra'})
            elif t == 'asset':
                N['items'].append({'t': 'asset'})
            else:
                raise Unsupported('node child %s' % t)
        return N


def section(fn):
    try:
        return fn()
    except (Unsupported, AttributeError, TypeError, ValueError, IndexError):
        return expect.Any


def relax(p):
    """a source whose <param> elements carry no name: pycollada names the components after the use; not demanded"""
    if isinstance(p, dict):
        if 'components' in p and isinstance(p['components'], list) and any(c is None for c in p['components']):
            p['components'] = expect.Any
        for v in p.values():
            relax(v)
    elif isinstance(p, list):
        for v in p:
            relax(v)
    elif isinstance(p, expect.Subset):
        relax(p.items)
    return p


def expected_from_xml(data):
    r = Reader(data)
    P = {'errors': []}
    geoms = [g for g in r.items('library_geometries', 'geometry') if g.find(r.q('mesh')) is not None]
    P['geometries'] = section(lambda: [relax(expect.geometry_pattern(r.geometry(g))) for g in geoms])
    P['lights'] = section(lambda: [expect.light_pattern(r.light(x)) for x in r.items('library_lights', 'light')])
    P['cameras'] = section(lambda: [expect.camera_pattern(r.camera(x)) for x in r.items('library_cameras', 'camera')])

    def libnodes():
        nodes = []
        for lib in r.root.findall(r.q('library_nodes')):
            nodes.extend(expect.library_node_order([r.node(n) for n in lib.findall(r.q('node'))]))
        return [expect.node_pattern(n) for n in nodes]
    P['nodes'] = section(libnodes)
    P['scenes'] = section(lambda: [{'id': s.get('id'), 'nodes': [expect.node_pattern(r.node(n)) for n in s.findall(r.q('node'))]}
                                   for s in r.items('library_visual_scenes', 'visual_scene')])
    P['materials'] = section(lambda: [{'id': m.get('id'), 'name': m.get('name'),
                                       'effect': {'id': r.ref(m.find(r.q('instance_effect')).get('url')), 'same': True}}
                                      for m in r.items('library_materials', 'material')])
    P['images'] = section(lambda: [{'id': i.get('id'), 'path': i.find(r.q('init_from')).text} for i in r.items('library_images', 'image')])

    def default_scene():
        i = r.root.find(r.path('scene', 'instance_visual_scene'))
        return None if i is None else {'id': r.ref(i.get('url')), 'same': True}
    P['scene'] = section(default_scene)
    return P
