"""Fault sites, fault application and the dependency closure used by the C08 containment clause.
Works on xml.etree only (never pycollada), so it can be used by the harness and by the worker."""
import io
import re
import xml.etree.ElementTree as ET

NS = 'http://www.collada.org/2005/11/COLLADASchema'
ET.register_namespace('', NS)

KINDS = ['dangling', 'nohash', 'nonnum', 'emptytext', 'rmchild', 'rmattr', 'truncate', 'crossref', 'extref', 'droptok', 'addtok']

LIBS = {  # library tag -> (item tag, Collada attribute)
    'library_images': ('image', 'images'),
    'library_effects': ('effect', 'effects'),
    'library_materials': ('material', 'materials'),
    'library_animations': ('animation', 'animations'),
    'library_geometries': ('geometry', 'geometries'),
    'library_controllers': ('controller', 'controllers'),
    'library_lights': ('light', 'lights'),
    'library_cameras': ('camera', 'cameras'),
    'library_nodes': ('node', 'nodes'),
    'library_visual_scenes': ('visual_scene', 'scenes'),
}
REF_ATTRS = ('url', 'target', 'source')


def bare(tag):
    return tag.split('}')[-1]


def parse(text):
    if isinstance(text, str):
        text = text.encode('utf-8')
    return ET.fromstring(text)


def elements(root):
    return list(root.iter())


def parent_map(root):
    return {c: p for p in root.iter() for c in p}


def is_num(tok):
    try:
        float(tok)
        return True
    except ValueError:
        return False


def text_ref_kind(el, parents):
    """elements whose text is a reference: surface/init_from (image id), sampler2D/source (surface sid)"""
    t = bare(el.tag)
    p = parents.get(el)
    if p is None:
        return None
    if t == 'init_from' and bare(p.tag) == 'surface':
        return 'image'
    if t == 'source' and bare(p.tag) == 'sampler2D':
        return 'surface'
    if t == 'IDREF_array':
        return 'idref'
    return None


# offending text with characters that are special to string formatting, quoting or encoding
SPECIAL_NAMES = ['wheel%20front', 'no%such', 'a{0}b', "it's", 'caf\u00e9-\u65e5', 'x%(y)s']
SPECIAL_TOKENS = ['50%', '1%s', '{1}', "1'", '\u00bd', '%d']


def with_special_payloads(sites):
    """every dangling / non-numeric site once more with a payload from the special alphabets"""
    out = []
    k = 0
    for f in sites:
        if f['kind'] == 'dangling':
            g = dict(f)
            g['payload'] = SPECIAL_NAMES[k % len(SPECIAL_NAMES)]
            out.append(g)
            k += 1
        elif f['kind'] == 'nonnum' and (f.get('tok') in (0, None)):
            g = dict(f)
            g['payload'] = SPECIAL_TOKENS[k % len(SPECIAL_TOKENS)]
            out.append(g)
            k += 1
    return out


def enumerate_sites(root, token_cap=None):
    """every (kind, element index, attribute, token index) that applies; token_cap bounds the
    numeric tokens tried per element (first, second, middle, last) when given"""
    els = elements(root)
    parents = parent_map(root)
    out = []
    for i, el in enumerate(els):
        if i == 0:
            continue
        tg = bare(el.tag)
        out.append({'kind': 'rmchild', 'elem': i, 'tag': tg})
        for a, v in sorted(el.attrib.items()):
            out.append({'kind': 'rmattr', 'elem': i, 'attr': a, 'tag': tg})
            if v.startswith('#') and a in REF_ATTRS:
                out.append({'kind': 'dangling', 'elem': i, 'attr': a, 'tag': tg})
                out.append({'kind': 'nohash', 'elem': i, 'attr': a, 'tag': tg})
            elif a == 'texture':
                out.append({'kind': 'dangling', 'elem': i, 'attr': a, 'tag': tg})
            elif a in ('offset', 'count', 'stride', 'set') and is_num(v):
                out.append({'kind': 'nonnum', 'elem': i, 'attr': a, 'tag': tg})
        txt = el.text
        if txt is not None and txt.strip():
            out.append({'kind': 'emptytext', 'elem': i, 'tag': tg})
            toks = txt.split()
            trk = text_ref_kind(el, parents)
            if trk == 'idref':
                for t in sorted({0, len(toks) - 1}):
                    out.append({'kind': 'dangling', 'elem': i, 'tok': t, 'tag': tg})
            elif trk is not None:
                out.append({'kind': 'dangling', 'elem': i, 'tok': 0, 'tag': tg})
            elif all(is_num(t) for t in toks):
                idx = list(range(len(toks)))
                if token_cap is not None and len(toks) > token_cap:
                    idx = sorted({0, 1, len(toks) // 2, len(toks) - 1})
                for t in idx:
                    out.append({'kind': 'nonnum', 'elem': i, 'tok': t, 'tag': tg})
                # a token too few / too many: the count checks of the loaders
                out.append({'kind': 'droptok', 'elem': i, 'tok': len(toks) - 1, 'tag': tg})
                out.append({'kind': 'addtok', 'elem': i, 'tok': 0, 'tag': tg})
    return out


def apply_faults(text, faults):
    """-> bytes of the faulted document.  Element faults are applied on the parsed tree (element
    indices always refer to the *base* document), truncation on the serialised bytes."""
    root = parse(text)
    els = elements(root)
    parents = parent_map(root)
    trunc = None
    removed = []
    bytelevel = []
    for f in faults:
        k = f['kind']
        if k == 'truncate':
            trunc = f['pos']
            continue
        if k in ('prefix', 'badbyte', 'reencode'):
            bytelevel.append(f)
            continue
        el = els[f['elem']]
        if k == 'rmchild':
            removed.append(el)
        elif k == 'rmattr':
            el.attrib.pop(f['attr'], None)
        elif k == 'dangling':
            # (a fault that no longer applies because an earlier fault of the same list removed
            # its site is a no-op)
            name = f.get('payload') or 'nosuch-zz'
            if f.get('attr'):
                v = el.get(f['attr'])
                if v is not None:
                    el.set(f['attr'], ('#' if v.startswith('#') else '') + name)
            else:
                toks = (el.text or '').split()
                if f['tok'] < len(toks):
                    toks[f['tok']] = name
                    el.text = ' '.join(toks)
        elif k == 'nohash':
            v = el.get(f['attr'])
            if v is not None and v.startswith('#'):
                el.set(f['attr'], v[1:])
        elif k == 'nonnum':
            if f.get('attr'):
                if el.get(f['attr']) is not None:
                    el.set(f['attr'], f.get('payload') or 'x1y')
            else:
                toks = (el.text or '').split()
                if f['tok'] < len(toks):
                    toks[f['tok']] = f.get('payload') or 'x1y'
                    el.text = ' '.join(toks)
        elif k == 'emptytext':
            el.text = ''
        elif k in ('droptok', 'addtok'):
            toks = (el.text or '').split()
            if k == 'droptok' and f['tok'] < len(toks):
                del toks[f['tok']]
                el.text = ' '.join(toks) if toks else None
            elif k == 'addtok' and toks:
                el.text = ' '.join(toks + [toks[0]])
        elif k in ('crossref', 'extref'):
            if f.get('attr'):
                el.set(f['attr'], f['value'])
            else:
                el.text = f['value']
        else:
            raise ValueError(k)
    for el in removed:
        p = parents.get(el)
        if p is not None and el in list(p):
            p.remove(el)
    enc = next((f['enc'] for f in bytelevel if f['kind'] == 'reencode'), 'utf-8')
    data = ET.tostring(root, encoding=enc, xml_declaration=True)
    for f in bytelevel:
        if f['kind'] == 'prefix':
            data = bytes.fromhex(f['hex']) + data
    for f in bytelevel:
        if f['kind'] == 'badbyte' and 0 <= f['pos'] < len(data):
            data = data[:f['pos']] + bytes([f.get('byte', 0xFF)]) + data[f['pos'] + 1:]
    if trunc is not None:
        data = data[:max(0, min(len(data), trunc))]
    return data


def serialised_len(text):
    return len(apply_faults(text, []))


def well_formed(data):
    try:
        ET.fromstring(data)
        return True
    except ET.ParseError:
        return False


# ---------------------------------------------------------------- library items and dependencies

def library_items(root):
    """[(collada attribute, item index within that attribute's document order, element)] for the
    elements the loader treats as library objects"""
    out = []
    counters = {}
    for lib in root:
        lt = bare(lib.tag)
        if lt in LIBS:
            itag, attr = LIBS[lt]
            for it in lib:
                if bare(it.tag) == itag:
                    n = counters.get(attr, 0)
                    counters[attr] = n + 1
                    out.append((attr, n, it))
    return out


def item_refs(el):
    """ids an item's subtree refers to (anything that may name another library object)"""
    refs = set()
    parents = parent_map(el)
    for e in el.iter():
        for a in REF_ATTRS:
            v = e.get(a)
            if v and v.startswith('#'):
                refs.add(v[1:])
        k = text_ref_kind(e, parents)
        if k in ('image', 'idref') and e.text:
            refs.update(e.text.split())
    return refs


def item_ids(el):
    """ids defined inside an item (its own id and ids of nested elements: nested nodes can be
    instance_node targets inside a scene)"""
    return {e.get('id') for e in el.iter() if e.get('id')}


def affected_items(root, fault_elems):
    """keys (attr, index) of the library items that contain a damaged element or depend
    (transitively, through any reference) on an item that does.  The default-scene reference is
    the pseudo item ('scene', 0)."""
    items = library_items(root)
    dam = set()
    fe = set(fault_elems)
    whole_doc = False
    for attr, n, it in items:
        if any(e in fe for e in it.iter()):
            dam.add((attr, n))
    # a fault outside every item (a library element itself, the root's asset, ...) may affect all
    # of that library's items
    for lib in root:
        if lib in fe:
            lt = bare(lib.tag)
            if lt in LIBS:
                for attr, n, it in items:
                    if attr == LIBS[lt][1]:
                        dam.add((attr, n))
            elif lt == 'scene':
                dam.add(('scene', 0))
    sc = [e for e in root if bare(e.tag) == 'scene']
    for s in sc:
        if any(e in fe for e in s.iter()):
            dam.add(('scene', 0))
    ids = {(attr, n): item_ids(it) for attr, n, it in items}
    refs = {(attr, n): item_refs(it) for attr, n, it in items}
    if sc:
        refs[('scene', 0)] = item_refs(sc[0])
        ids[('scene', 0)] = set()
    changed = True
    while changed:
        changed = False
        bad_ids = set()
        for k in dam:
            bad_ids |= ids.get(k, set())
        for k, r in refs.items():
            if k not in dam and r & bad_ids:
                dam.add(k)
                changed = True
    return dam


def site_label(f):
    """stable, narrow description of a fault site: kind + element tag (+ attribute / 'text')"""
    if f['kind'] == 'truncate':
        return 'truncate'
    if f['kind'] == 'prefix':
        return 'prefix:' + f['hex']
    if f['kind'] == 'reencode':
        return 'reencode:' + f['enc']
    if f['kind'] == 'badbyte':
        return 'badbyte'
    where = f.get('tag', '?')
    if f.get('attr'):
        where += '@' + f['attr']
    elif f['kind'] in ('nonnum', 'emptytext', 'dangling', 'crossref', 'extref', 'droptok', 'addtok'):
        where += '/text'
    return '%s:%s' % (f['kind'], where)


def nonascii_positions(data):
    """byte positions inside or next to a multi-byte UTF-8 sequence"""
    out = set()
    for i, b in enumerate(data):
        if b >= 0x80:
            out.update((i - 1, i, i + 1))
    return sorted(p for p in out if 0 <= p <= len(data))


# ---------------------------------------------------------------- names defined in ANOTHER scope

SCOPE_TAGS = ('effect', 'geometry', 'controller', 'visual_scene', 'animation')


def crossref_sites(root):
    """scoped references re-pointed at a name of the same role that is defined only in a different
    scope of the same kind (another effect's sampler / surface / value sid, another geometry's or
    controller's source or vertices id, another scene's top-level node id).  Such a reference is as
    dangling as a reference to an undefined name."""
    els = elements(root)
    parents = parent_map(root)

    def scope_of(e):
        while e is not None:
            if bare(e.tag) in SCOPE_TAGS and bare(parents.get(e, e).tag).startswith('library_'):
                return e
            e = parents.get(e)
        return None

    defs = {}          # (scope tag, role) -> [(scope element, name)]
    for e in els:
        sc = scope_of(e)
        if sc is None:
            continue
        st, t = bare(sc.tag), bare(e.tag)
        if t == 'newparam' and e.get('sid'):
            kid = [bare(c.tag) for c in e]
            role = 'sampler' if 'sampler2D' in kid else 'surface' if 'surface' in kid else 'value'
            defs.setdefault((st, role), []).append((sc, e.get('sid')))
        elif t in ('source', 'vertices') and e.get('id') and st in ('geometry', 'controller', 'animation'):
            defs.setdefault((st, 'source'), []).append((sc, e.get('id')))
        elif t == 'node' and st == 'visual_scene' and parents.get(e) is sc and e.get('id'):
            defs.setdefault((st, 'node'), []).append((sc, e.get('id')))
    out = []
    for i, e in enumerate(els):
        sc = scope_of(e)
        if sc is None:
            continue
        st, t = bare(sc.tag), bare(e.tag)
        site = None
        if t == 'texture' and e.get('texture') is not None:
            site = ('sampler', 'texture', '')
        elif t == 'source' and bare(parents[e].tag) == 'sampler2D':
            site = ('surface', None, '')
        elif t == 'param' and e.get('ref') is not None:
            site = ('value', 'ref', '')
        elif t == 'input' and (e.get('source') or '').startswith('#') and st in ('geometry', 'controller', 'animation'):
            site = ('source', 'source', '#')
        elif t == 'instance_node' and st == 'visual_scene' and (e.get('url') or '').startswith('#'):
            site = ('node', 'url', '#')
        if site is None:
            continue
        role, attr, pre = site
        own = {n for s_, n in defs.get((st, role), []) if s_ is sc}
        for s_, name in defs.get((st, role), []):
            if s_ is sc or name in own:
                continue
            f = {'kind': 'crossref', 'elem': i, 'tag': t, 'value': pre + name}
            if attr:
                f['attr'] = attr
            else:
                f['tok'] = 0
            out.append(f)
    return out


def dangling_twin(f):
    """the same fault with an undefined name"""
    g = dict(f)
    if f['kind'] == 'extref':
        g['value'] = f['pattern'] % 'nosuch-zz'
    else:
        g['value'] = ('#' if f['value'].startswith('#') else '') + 'nosuch-zz'
    return g


# references that are not '#'+id although their fragment (or their whole text) coincides with a
# local id: another document, a doubled or trailing '#', white space, the bare id
EXTREF_PATTERNS = ['parts.dae#%s', './lib/x.dae#%s', 'http://example.org/a.dae#%s', '##%s', '#%s#x', '# %s', '%s', '#%s ']


def extref_sites(root, rng=None, per_site=None):
    """every reference attribute whose value is '#'+id, rewritten with each pattern (or per_site
    random ones), keeping the local id as the fragment.  The result must not depend on the id
    being a local one: the twin uses an undefined id in the same pattern."""
    out = []
    for i, el in enumerate(elements(root)):
        for a in REF_ATTRS:
            v = el.get(a)
            if v and v.startswith('#') and len(v) > 1:
                pats = EXTREF_PATTERNS
                if per_site is not None and rng is not None:
                    pats = rng.sample(EXTREF_PATTERNS, per_site)
                for p in pats:
                    out.append({'kind': 'extref', 'elem': i, 'attr': a, 'tag': bare(el.tag), 'pattern': p, 'value': p % v[1:]})
        if el.get('url') is not None or el.get('target') is not None:
            for a in ('url', 'target'):
                if el.get(a) is not None:
                    out.append({'kind': 'extref', 'elem': i, 'attr': a, 'tag': bare(el.tag), 'pattern': '%s', 'value': '', 'empty': True})
                    out.append({'kind': 'extref', 'elem': i, 'attr': a, 'tag': bare(el.tag), 'pattern': '%s', 'value': '#', 'empty': True})
    return out


def deferral_pairs(root, sites):
    """[(B, A)]: A makes an <instance_node> of a top-level node dangling (the whole node is deferred and
    finally reported), B is another fault in an earlier part of the same top-level node - B's error
    is reached, and must be recorded, on every attempt to load the node"""
    els = elements(root)
    parents = parent_map(root)
    idx = {id(e): i for i, e in enumerate(els)}
    out = []
    for top in els:
        p = parents.get(top)
        if bare(top.tag) != 'node' or p is None or bare(p.tag) not in ('library_nodes', 'visual_scene'):
            continue
        inside = {idx[id(e)] for e in top.iter()}
        for inode in top.iter():
            if bare(inode.tag) != 'instance_node' or not (inode.get('url') or '').startswith('#'):
                continue
            i = idx[id(inode)]
            anc = set()
            e = inode
            while e is not None:
                anc.add(idx[id(e)])
                e = parents.get(e)
            a = {'kind': 'dangling', 'elem': i, 'attr': 'url', 'tag': 'instance_node'}
            for b in sites:
                j = b.get('elem')
                if j is None or j not in inside or j >= i or j in anc:
                    continue
                if b['kind'] in ('nonnum', 'dangling', 'nohash', 'emptytext') or (b['kind'] == 'rmattr' and b.get('attr') in ('url', 'target')):
                    if bare(els[j].tag) == 'instance_node':
                        continue
                    out.append((b, a))
    return out


# ---------------------------------------------------------------- single loader sites (C08 site model)

SITE_TAGS = {'translate': 'KTransform', 'rotate': 'KTransform', 'scale': 'KTransform', 'matrix': 'KTransform',
             'lookat': 'KTransform', 'material': 'KMaterial', 'light': 'KLight', 'camera': 'KCamera', 'source': 'KFloatSource'}


def site_item(text, fault):
    """the faulted element tree of the loader object (transform, material, light, camera, float
    source) that contains the fault site -> (kind, xml text of that element) or None"""
    if 'elem' not in fault:
        return None
    root = parse(text)
    els = elements(root)
    parents = parent_map(root)
    e = els[fault['elem']]
    item = None
    while e is not None:
        t = bare(e.tag)
        p = parents.get(e)
        pt = bare(p.tag) if p is not None else ''
        if t in ('translate', 'rotate', 'scale', 'matrix', 'lookat') and pt == 'node':
            item = e
        elif t in ('material', 'light', 'camera') and pt == 'library_' + t + 's':
            item = e
        elif t == 'source' and pt == 'mesh' and any(bare(c.tag) == 'float_array' for c in e):
            item = e
        if item is not None:
            break
        e = p
    if item is None or (fault['kind'] == 'rmchild' and els[fault['elem']] is item):
        return None
    data = apply_faults(text, [fault])
    froot = ET.fromstring(data)
    # the item keeps its position among the elements that precede the fault site's subtree
    path = []
    e = item
    while parents.get(e) is not None:
        p = parents[e]
        path.append(list(p).index(e))
        e = p
    cur = froot
    try:
        for i in reversed(path):
            cur = list(cur)[i]
    except IndexError:
        return None
    if bare(cur.tag) != bare(item.tag):
        return None
    return SITE_TAGS[bare(item.tag)], ET.tostring(cur, encoding='unicode')


def wrongkind_sites(root):
    """references re-pointed at a name that IS defined, but as something else: another role of the same
    effect scope (a sampler source naming a sampler or a float parameter, a texture naming a surface or
    a float parameter), the id of an object of a different library, or the value of a name / sid /
    symbol attribute that is nobody's id.  Such a reference is as dangling as an undefined name."""
    els = elements(root)
    parents = parent_map(root)
    ids = {}
    for e in els:
        if e.get('id'):
            ids.setdefault(e.get('id'), bare(e.tag))
    labels = sorted({e.get(a) for e in els for a in ('name', 'sid', 'symbol') if e.get(a)} - set(ids))
    by_tag = {}
    for i_, t_ in ids.items():
        by_tag.setdefault(t_, []).append(i_)
    target_tag = {'instance_geometry': 'geometry', 'instance_controller': 'controller', 'instance_light': 'light',
                  'instance_camera': 'camera', 'instance_node': 'node', 'instance_material': 'material',
                  'instance_effect': 'effect', 'instance_visual_scene': 'visual_scene', 'skin': 'geometry', 'morph': 'geometry'}
    out = []
    for i, e in enumerate(els):
        t = bare(e.tag)
        # effect scope: other roles of the same effect
        fx = e
        while fx is not None and bare(fx.tag) != 'effect':
            fx = parents.get(fx)
        if fx is not None:
            roles = {'sampler': [], 'surface': [], 'value': []}
            for np_ in fx.iter():
                if bare(np_.tag) == 'newparam' and np_.get('sid'):
                    kid = [bare(c.tag) for c in np_]
                    roles['sampler' if 'sampler2D' in kid else 'surface' if 'surface' in kid else 'value'].append(np_.get('sid'))
            if t == 'texture' and e.get('texture') is not None:
                for name in roles['surface'] + roles['value']:
                    out.append({'kind': 'crossref', 'elem': i, 'tag': t, 'attr': 'texture', 'value': name, 'wrongkind': True})
            elif t == 'source' and bare(parents[e].tag) == 'sampler2D':
                for name in roles['sampler'] + roles['value']:
                    out.append({'kind': 'crossref', 'elem': i, 'tag': t, 'tok': 0, 'value': name, 'wrongkind': True})
        # library references: the id of an object of another kind, and labels that are nobody's id
        for a in ('url', 'target', 'source'):
            v = e.get(a)
            if v and v.startswith('#') and t in target_tag:
                want = target_tag[t]
                other = sorted(i_ for i_, t_ in ids.items() if t_ != want and t_ in target_tag.values())
                for name in other[:2] + labels[:3]:
                    out.append({'kind': 'crossref', 'elem': i, 'tag': t, 'attr': a, 'value': '#' + name, 'wrongkind': True})
    return out


def item_key_of(root, el):
    """the library item (attr, index) whose subtree contains el, or ('scene', 0), or None"""
    for attr, n, it in library_items(root):
        if any(x is el for x in it.iter()):
            return (attr, n)
    for s_ in root:
        if bare(s_.tag) == 'scene' and any(x is el for x in s_.iter()):
            return ('scene', 0)
    return None
