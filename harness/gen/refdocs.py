"""Reference-graph documents for C07.  A *spec* is a plain dict describing libraries (in document
order), their objects and every reference as the literal attribute/text value written into the
XML ('#id', 'id' without '#', '#nosuch').  `build(spec)` returns the XML bytes plus, for every
object, the index of its element in document order (the uid shared by model and observation).
No pycollada here."""
import copy
import xml.etree.ElementTree as ET

from harness.gen import c08docs as D

NS = D.NS
ET.register_namespace('', NS)

KIND_TAG = {'images': 'library_images', 'effects': 'library_effects', 'materials': 'library_materials',
            'geometries': 'library_geometries', 'controllers': 'library_controllers', 'lights': 'library_lights',
            'cameras': 'library_cameras', 'nodes': 'library_nodes', 'scenes': 'library_visual_scenes',
            'default': 'scene'}
LIBNAME = {'images': 'LImages', 'effects': 'LEffects', 'materials': 'LMaterials', 'geometries': 'LGeometry',
           'controllers': 'LControllers', 'lights': 'LLights', 'cameras': 'LCameras', 'nodes': 'LNodes',
           'scenes': 'LScenes', 'default': 'LDefaultScene'}
INST_TAG = {'geom': 'instance_geometry', 'ctrl': 'instance_controller', 'light': 'instance_light', 'cam': 'instance_camera'}
INST_LIB = {'geom': 'geometries', 'ctrl': 'controllers', 'light': 'lights', 'cam': 'cameras'}


def q(t):
    return '{%s}%s' % (NS, t)


def frag(xml):
    return ET.fromstring('<x xmlns="%s">%s</x>' % (NS, xml))[0]


# ------------------------------------------------------------------ random specs

def gen_spec(rng, clean=False, max_nodes=5):
    """clean=True: every reference is well-formed and defined and instance_node edges are acyclic"""
    n = {'images': rng.randint(0, 2), 'effects': rng.randint(1, 3), 'materials': rng.randint(1, 3),
         'geometries': rng.randint(1, 3), 'controllers': rng.randint(0, 2), 'lights': rng.randint(0, 2),
         'cameras': rng.randint(0, 2)}
    ids = {k: ['%s%d' % (k[:3], i) for i in range(v)] for k, v in n.items()}

    def ref(kind, pbad=0.12):
        pool = ids.get(kind, [])
        r = rng.random()
        if clean or r > pbad:
            return ('#' + rng.choice(pool)) if pool else None
        if r < pbad / 3 or not pool:
            if kind == 'materials' and pool and rng.random() < 0.5:
                # dangling by id, but the text is the NAME of a material (names are free text, not ids)
                return '#name-of-' + rng.choice(pool)
            return rng.choice(['#nosuch%d' % rng.randint(0, 2), '#no%%such%d' % rng.randint(0, 2), '#nosuch%20x'])
        if r < 2 * pbad / 3:
            return rng.choice(pool)          # '#' missing
        # not of the form '#'+id although the fragment is a local id: another document, '##id', ...
        return rng.choice(['parts.dae#%s', './x.dae#%s', 'http://example.org/a.dae#%s', '##%s', '#%s#x', '# %s', '#%s ',
                           '', '#']) .replace('%s', rng.choice(pool))
    libs = {}
    libs['images'] = [{'id': i} for i in ids['images']]
    libs['effects'] = []
    for i in ids['effects']:
        e = {'id': i, 'image': None, 'bump': rng.random() < 0.4}
        if rng.random() < 0.4:
            if ids['images'] and (clean or rng.random() > 0.15):
                e['image'] = rng.choice(ids['images'])
            elif not clean:
                e['image'] = 'nosuchimg'
        libs['effects'].append(e)
    # effect-internal links: sampler -> surface, texture -> sampler, bump -> sampler; sometimes dangling or
    # re-pointed at a sid that only ANOTHER effect defines
    tex_fx = [e for e in libs['effects'] if e['image'] is not None]
    for e in tex_fx:
        others = [x['id'] for x in tex_fx if x is not e]
        if not clean and rng.random() < 0.35:
            which = rng.choice(['samp_src', 'samp2_src', 'tex', 'bump_tex'])
            if which == 'samp_src':
                # undefined, another effect's surface, or something of THIS scope that is not a surface
                # (a float parameter defined before the sampler; one defined after it is not in the scope yet)
                e['samp_src'] = rng.choice(['nosuchsurf', e['id'] + '-f0', e['id'] + '-f', e['id'] + '-samp'] + [x + '-surf' for x in others])
            elif which == 'samp2_src':
                e['samp2_src'] = rng.choice([e['id'] + '-samp', e['id'] + '-f0', 'nosuchsurf'])
            elif which == 'tex':
                e['tex'] = rng.choice(['nosuchsamp', e['id'] + '-surf', e['id'] + '-f', e['id'] + '-samp2'] + [x + '-samp' for x in others])
            else:
                e['bump'] = True
                e['bump_tex'] = rng.choice(['nosuchsamp'] + [x + '-samp' for x in others])
    libs['materials'] = [{'id': i, 'effect': ref('effects')} for i in ids['materials']]
    libs['geometries'] = [{'id': i} for i in ids['geometries']]
    libs['controllers'] = []
    for i in ids['controllers']:
        if rng.random() < 0.5:
            libs['controllers'].append({'id': i, 'kind': 'skin', 'source': ref('geometries')})
        else:
            tg = [rng.choice(ids['geometries']) for _ in range(rng.randint(0, 2))]
            if not clean and rng.random() < 0.15:
                tg.append('nosuchgeo')
            libs['controllers'].append({'id': i, 'kind': 'morph', 'source': ref('geometries'), 'targets': tg})
    libs['lights'] = [{'id': i} for i in ids['lights']]
    libs['cameras'] = [{'id': i} for i in ids['cameras']]
    # ---- library nodes
    nn = rng.randint(0, max_nodes)
    nids = ['ln%d' % i for i in range(nn)]
    ids['nodes'] = nids
    rank = list(range(nn))
    rng.shuffle(rank)          # clean graphs: edges only towards smaller rank

    def inst_children(k=None):
        out = []
        for _ in range(rng.randint(0, 3) if k is None else k):
            t = rng.choice(['geom', 'geom', 'ctrl', 'light', 'cam'])
            if not ids[INST_LIB[t]]:
                continue
            c = {'t': t, 'url': ref(INST_LIB[t])}
            if t in ('geom', 'ctrl'):
                c['mats'] = [ref('materials') for _ in range(rng.randint(0, 2))]
                c['mats'] = [m for m in c['mats'] if m]
            out.append(c)
        return out

    def node_children(me, targets, allow_self):
        ch = inst_children()
        for _ in range(rng.choice([0, 0, 1, 1, 2])):
            if clean:
                cand = [t for t in targets if t in nids and rank[nids.index(t)] < rank[nids.index(me)]] if me in nids else list(targets)
                if not cand:
                    continue
                url = '#' + rng.choice(cand)
            else:
                r = rng.random()
                if r < 0.08:
                    url = '#nosuchnode'
                elif r < 0.11 and targets:
                    url = rng.choice(targets)          # '#' missing
                elif r < 0.14 and targets:
                    url = rng.choice(['parts.dae#%s', '##%s', '#%s#x', '# %s', '']).replace('%s', rng.choice(targets))
                elif r < 0.2 and allow_self:
                    url = '#' + me
                elif targets:
                    url = '#' + rng.choice(targets)
                else:
                    continue
            ch.append({'t': 'inode', 'url': url})
        if rng.random() < 0.3:
            sub = {'t': 'node', 'id': None if rng.random() < 0.5 else me + '-sub', 'children': inst_children(rng.randint(0, 2))}
            if rng.random() < 0.4 and targets:
                cand = targets
                if clean and me in nids:
                    cand = [t for t in targets if t in nids and rank[nids.index(t)] < rank[nids.index(me)]]
                if cand:
                    sub['children'].append({'t': 'inode', 'url': '#' + rng.choice(cand)})
            ch.insert(rng.randint(0, len(ch)), sub)
        rng.shuffle(ch)
        return ch
    libs['nodes'] = [{'id': i, 'children': node_children(i, nids, True)} for i in nids]
    # names: a permutation of the ids, so that a lookup by name binds another object
    names = list(nids)
    rng.shuffle(names)
    for nd, nm in zip(libs['nodes'], names):
        nd['name'] = nm
    # ---- scenes
    libs['scenes'] = []
    for s in range(rng.randint(1, 2)):
        sn = rng.randint(1, 4)
        sids = ['s%dn%d' % (s, i) for i in range(sn)]
        srank = list(range(sn))
        rng.shuffle(srank)
        nodes = []
        for j, i in enumerate(sids):
            if clean:
                targets = nids + [t for k, t in enumerate(sids) if srank[k] < srank[j]]
            else:
                targets = nids + sids
                if rng.random() < 0.25:
                    # a top-level node of ANOTHER scene: defined, but not in this scene's scope
                    targets = targets + ['s%dn%d' % (1 - s, rng.randint(0, 1))]
            nd = {'id': i if rng.random() < 0.9 else None, 'children': None, 'name': rng.choice(sids)}
            if nd['id'] is None:
                targets = [t for t in targets if t != i]
            if clean:
                ch = inst_children()
                for _ in range(rng.choice([0, 1, 1, 2])):
                    if targets:
                        ch.append({'t': 'inode', 'url': '#' + rng.choice(targets)})
                rng.shuffle(ch)
                nd['children'] = ch
            else:
                nd['children'] = node_children(i, targets, nd['id'] is not None)
            nodes.append(nd)
        if clean:
            # references to a scene node without id cannot resolve: drop them
            noid = {sids[j] for j, x in enumerate(nodes) if x['id'] is None}
            for x in nodes:
                x['children'] = [c for c in x['children'] if not (c['t'] == 'inode' and c['url'][1:] in noid)]
        libs['scenes'].append({'id': 'vs%d' % s, 'nodes': nodes})
    sc_ids = [s['id'] for s in libs['scenes']]
    r = rng.random()
    if clean or r > 0.2:
        default = '#' + rng.choice(sc_ids) if (clean or r > 0.1) and rng.random() < 0.9 else None
    elif r < 0.1:
        default = '#nosuchscene'
    else:
        default = rng.choice(['%s', 'other.dae#%s', '##%s', '#%s#x', '']).replace('%s', rng.choice(sc_ids))
    order = [k for k in ['images', 'effects', 'materials', 'geometries', 'controllers', 'lights', 'cameras', 'nodes', 'scenes']
             if libs[k]]
    rng.shuffle(order)
    top = [{'kind': k, 'items': libs[k]} for k in order]
    # sometimes split a library into two elements of the same kind
    if not clean and rng.random() < 0.25:
        cand = [t for t in top if len(t['items']) >= 2]
        if cand:
            t = rng.choice(cand)
            cut = rng.randint(1, len(t['items']) - 1)
            a, b = t['items'][:cut], t['items'][cut:]
            t['items'] = a
            top.insert(rng.randint(0, len(top)), {'kind': t['kind'], 'items': b})
    if clean and nn >= 2 and rng.random() < 0.45:
        # several <library_nodes> elements: a node may instantiate nodes of its own, of an earlier and of a LATER
        # element, in any definition order (one retry loop over all of them since the /repo fix of round 8)
        idxs = list(range(nn))
        rng.shuffle(idxs)
        cut = rng.randint(1, nn - 1)
        first = [libs['nodes'][i] for i in idxs[:cut]]
        second = [libs['nodes'][i] for i in idxs[cut:]]
        k = [i for i, t in enumerate(top) if t['kind'] == 'nodes'][0]
        top[k]['items'] = first
        top.insert(rng.randint(k + 1, len(top)), {'kind': 'nodes', 'items': second})
    if clean and rng.random() < 0.6:
        # a library kind that occurs SEVERAL times in the document (two or three <library_lights>, ... - schema-valid,
        # merging tools produce it): objects of the later elements are instantiated like any other
        cand = [t for t in top if t['kind'] != 'nodes' and len(t['items']) >= 2]
        rng.shuffle(cand)
        for t in cand[:rng.randint(1, 2)]:
            parts = 3 if len(t['items']) >= 3 and rng.random() < 0.4 else 2
            cuts = sorted(rng.sample(range(1, len(t['items'])), parts - 1))
            chunks = [t['items'][a:b] for a, b in zip([0] + cuts, cuts + [len(t['items'])])]
            t['items'] = chunks[0]
            for ch in chunks[1:]:
                top.insert(rng.randint(0, len(top)), {'kind': t['kind'], 'items': ch})
    if default is not None:
        top.insert(rng.randint(0, len(top)), {'kind': 'default', 'url': default})
    return {'top': top}


def defined_ids(spec):
    out = {}
    for t in spec['top']:
        if t['kind'] == 'default':
            continue
        out.setdefault(t['kind'], [])
        out[t['kind']] += [x['id'] for x in t['items']]
    return out


# ------------------------------------------------------------------ XML

def build(spec):
    """-> (xml bytes, uid map {id(spec object): element index})"""
    root = ET.Element(q('COLLADA'), {'version': '1.4.1'})
    root.append(frag('<asset><created>2020-01-01T00:00:00Z</created><modified>2020-01-01T00:00:00Z</modified>'
                     '<up_axis>Y_UP</up_axis></asset>'))
    owner = []          # (spec object, element)
    nps = []            # (effect spec, its newparam elements)

    def add_inst(parent, c):
        if c['t'] == 'inode':
            el = ET.SubElement(parent, q('instance_node'), {'url': c['url']})
        elif c['t'] == 'node':
            el = add_node(parent, c)
        else:
            el = ET.SubElement(parent, q(INST_TAG[c['t']]), {'url': c['url']})
            if c.get('mats') or c['t'] == 'ctrl':
                tc = ET.SubElement(ET.SubElement(el, q('bind_material')), q('technique_common'))
                for k, m in enumerate(c.get('mats', [])):
                    ET.SubElement(tc, q('instance_material'), {'symbol': 'm%d' % k, 'target': m})
        return el

    def add_node(parent, nd):
        at = {}
        if nd.get('id') is not None:
            at['id'] = nd['id']
        if nd.get('name') is not None:
            at['name'] = nd['name']
        el = ET.SubElement(parent, q('node'), at)
        if nd.get('xform'):
            ET.SubElement(el, q('translate')).text = '1 2 3'
        for c in nd['children']:
            add_inst(el, c)
        return el

    for t in spec['top']:
        k = t['kind']
        if k == 'default':
            sc = ET.SubElement(root, q('scene'))
            el = ET.SubElement(sc, q('instance_visual_scene'), {'url': t['url']})
            owner.append((t, el))
            continue
        lib = ET.SubElement(root, q(KIND_TAG[k]))
        for x in t['items']:
            if k == 'images':
                el = frag(D.image(x['id'], x['id'] + '.png'))
            elif k == 'effects':
                el = frag(D.effect_textured(x['id'], x['image']) if x['image'] is not None else D.effect_plain(x['id']))
                if x['image'] is not None:
                    for np_ in el.iter(q('newparam')):
                        sm = np_.find(q('sampler2D'))
                        if sm is not None and np_.get('sid').endswith('-samp') and x.get('samp_src'):
                            sm.find(q('source')).text = x['samp_src']
                        if sm is not None and np_.get('sid').endswith('-samp2') and x.get('samp2_src'):
                            sm.find(q('source')).text = x['samp2_src']
                    for tx in el.iter(q('texture')):
                        in_extra = any(tx in list(b) for b in el.iter(q('bump')))
                        if in_extra and x.get('bump_tex'):
                            tx.set('texture', x['bump_tex'])
                        elif not in_extra and x.get('tex'):
                            tx.set('texture', x['tex'])
                    nps.append((x, list(el.iter(q('newparam')))))
                if x['image'] is not None and not x.get('bump'):
                    # (the textured effect of c08docs carries a bump map under <extra>; drop it here)
                    ex = el.find(q('extra'))
                    for tech in list(ex):
                        if tech.find(q('bump')) is not None:
                            ex.remove(tech)
            elif k == 'materials':
                el = frag(D.material(x['id'], 'X'))
                el.find(q('instance_effect')).set('url', x['effect'])
                el.set('name', 'name-of-' + x['id'])
            elif k == 'geometries':
                el = frag(D.geometry(x['id'], [D.triangles(x['id'])], with_uv=False))
            elif k == 'controllers':
                if x['kind'] == 'skin':
                    el = frag(D.skin(x['id'], 'X'))
                    el.find(q('skin')).set('source', x['source'])
                else:
                    el = frag(D.morph(x['id'], 'X', x['targets']))
                    el.find(q('morph')).set('source', x['source'])
            elif k == 'lights':
                el = frag('<light id="%s"><technique_common><directional><color>1 1 1</color></directional></technique_common></light>' % x['id'])
            elif k == 'cameras':
                el = frag('<camera id="%s"><optics><technique_common><perspective><yfov>30</yfov><znear>1</znear>'
                          '<zfar>10</zfar></perspective></technique_common></optics></camera>' % x['id'])
            elif k == 'nodes':
                el = add_node(lib, x)
                owner.append((x, el))
                continue
            elif k == 'scenes':
                at = {'id': x['id']}
                el = ET.SubElement(lib, q('visual_scene'), at)
                for nd in x['nodes']:
                    owner.append((nd, add_node(el, nd)))
                owner.append((x, el))
                continue
            lib.append(el)
            owner.append((x, el))
    idx = {id(e): i for i, e in enumerate(root.iter())}
    uids = {id(o): idx[id(e)] for o, e in owner}
    for x, els_ in nps:
        for k, e in enumerate(els_):
            uids[('np', id(x), k)] = idx[id(e)]
    data = ET.tostring(root, encoding='utf-8', xml_declaration=True)
    return data, uids


# ------------------------------------------------------------------ the model's document

def flat_children(children):
    """instance_* descendants in document (depth-first) order"""
    out = []
    for c in children:
        if c['t'] == 'node':
            out.extend(flat_children(c['children']))
        else:
            out.append(c)
    return out


def split_ref(v):
    """literal attribute value -> (id string, has '#')"""
    if v.startswith('#'):
        return v[1:], True
    return v, False


class Interner(object):
    def __init__(self):
        self.d = {None: 0}

    def __call__(self, s):
        if s not in self.d:
            self.d[s] = 1000 + len(self.d)
        return self.d[s]


def c_ref(I, lib, v, site):
    i, h = split_ref(v) if site != 'SText' else (v, True)
    return '(Ref %s %d%%N %s %s)' % (lib, I(i), 'true' if h else 'false', site)


def c_list(xs):
    return '[' + '; '.join(xs) + ']'


def c_tnode(I, nd, uid):
    ch = []
    for c in flat_children(nd['children']):
        if c['t'] == 'inode':
            i, h = split_ref(c['url'])
            ch.append('(NNode %d%%N %s)' % (I(i), 'true' if h else 'false'))
        else:
            ch.append('(NInst %s %s)' % (c_ref(I, LIBNAME[INST_LIB[c['t']]], c['url'], 'SUrl'),
                                       c_list([c_ref(I, 'LMaterials', m, 'SUrl') for m in c.get('mats', [])])))
    return '(TNode %d%%N %d%%N %s)' % (uid, I(nd.get('id')), c_list(ch))


def c_doc(spec, uids, I):
    out = []
    for t in spec['top']:
        k = t['kind']
        if k == 'default':
            out.append('(LDefaultScene, CDefault %s)' % c_ref(I, 'LScenes', t['url'], 'SUrl'))
        elif k == 'nodes':
            out.append('(LNodes, CNodes %s)' % c_list([c_tnode(I, x, uids[id(x)]) for x in t['items']]))
        elif k == 'scenes':
            out.append('(LScenes, CScenes %s)' % c_list(
                ['(Scene %d%%N %d%%N %s)' % (uids[id(x)], I(x['id']), c_list([c_tnode(I, nd, uids[id(nd)]) for nd in x['nodes']]))
                 for x in t['items']]))
        else:
            items = []
            for x in t['items']:
                refs = []
                fx = 'None'
                if k == 'effects' and x['image'] is not None:
                    eid = x['id']
                    ps = ['(PValue %d%%N)' % I(eid + '-f0'),
                          '(PSurface %d%%N %d%%N %d%%N)' % (I(eid + '-surf'), uids[('np', id(x), 1)], I(x['image'])),
                          '(PSampler %d%%N %d%%N %d%%N)' % (I(eid + '-samp'), uids[('np', id(x), 2)], I(x.get('samp_src') or eid + '-surf')),
                          '(PSampler %d%%N %d%%N %d%%N)' % (I(eid + '-samp2'), uids[('np', id(x), 3)], I(x.get('samp2_src') or eid + '-surf')),
                          '(PValue %d%%N)' % I(eid + '-f')]
                    bump = '(Some %d%%N)' % I(x.get('bump_tex') or eid + '-samp') if x.get('bump') else 'None'
                    fx = '(Some (FX %s [%d%%N] %s))' % (c_list(ps), I(x.get('tex') or eid + '-samp'), bump)
                elif k == 'materials':
                    refs.append(c_ref(I, 'LEffects', x['effect'], 'SUrl'))
                elif k == 'controllers':
                    refs.append(c_ref(I, 'LGeometry', x['source'], 'SCtrl'))
                    for tg in x.get('targets', []):
                        refs.append(c_ref(I, 'LGeometry', tg, 'SText'))
                items.append('(Item %d%%N %d%%N %s %s)' % (uids[id(x)], I(x['id']), c_list(refs), fx))
            out.append('(%s, CItems %s)' % (LIBNAME[k], c_list(items)))
    return c_list(out)


def permuted(spec, perm):
    s = copy.deepcopy(spec)
    s['top'] = [s['top'][i] for i in perm]
    return s


def with_node_order(spec, perm, which=0):
    s = copy.deepcopy(spec)
    k = 0
    for t in s['top']:
        if t['kind'] == 'nodes':
            if k == which:
                t['items'] = [t['items'][i] for i in perm]
                break
            k += 1
    return s


def with_scene_node_order(spec, perm):
    s = copy.deepcopy(spec)
    for t in s['top']:
        if t['kind'] == 'scenes':
            t['items'][0]['nodes'] = [t['items'][0]['nodes'][i] for i in perm]
            break
    return s
