"""Independent COLLADA document generator (string templates only; never pycollada's writer).

    gen_document(rng, size, ns=NS_141, **options) -> (xml_bytes, description)

`description` is the generator's own ground truth: a JSON-able dict that says, library by
library and in document order, exactly what was written (numbers as the literal tokens that
appear in the text).  What a loader should expose for such a document is derived from this
description by `harness/gen/expect.py` (direct indexing, the documented normalisations) without
looking at pycollada.

The generator deliberately emits what pycollada's writer never does: tristrips / trifans /
several <p>, inputs in arbitrary order with shared and gapped offsets, several texcoord sets,
NORMAL / TEXCOORD / COLOR inside <vertices>, instance_node with forward references, <param ref>,
odd whitespace and number formats (1e0, +1, .5, 1.), U/V and S/T/P texcoord params, NaN tokens,
cameras with one, two or three parameters, all four lights, nested nodes with all five
transforms, bind_material with bind_vertex_input, <extra> holding foreign-namespace elements,
controllers (skin with Name_array or IDREF_array joints, morph) and animations.

options: controllers (bool/None=random), animations (bool/None), foreign (bool/None: foreign-namespace
extras), prefixed (bool/None: write the COLLADA namespace with a prefix instead of as default).
"""
import random

NS_141 = 'http://www.collada.org/2005/11/COLLADASchema'
NS_15 = 'http://www.collada.org/2008/03/COLLADASchema'
FOREIGN_NS = 'urn:x-verif:foreign'

NUM_TOKENS = ['0', '1', '-1', '2', '3', '0.5', '.5', '+1', '1.', '1e0', '-2.5', '3.25', '1E1', '-0', '1e-1',
              '0.1', '7.125', '100', '-.75', '+.5e1', '0.3333333', '2.0', '-4', '1.5e+1', '0.0', '12.5', '6',
              '0.7', '-3.1415927', '1e-3', '42', '0.25', '8', '16777217.0', '1e39', '1e-46', '3.4028235e38',
              '0.30000001192092896', '-1e-45', '123456.789']
POS_TOKENS = ['1', '2', '0.5', '.5', '+1', '1.', '1e0', '3.25', '1E1', '0.1', '7.125', '100', '+.5e1', '2.0',
              '1.5e+1', '12.5', '45', '60', '0.7', '30.5']
NAN_TOKENS = ['nan', 'NaN', 'NAN', '-nan', '+nan']
INF_TOKENS = ['INF', '-INF', 'inf', '-inf', 'Infinity', '+INF']
WORDS = ['alpha', 'Beta', 'gamma3', 'delta_x', 'eps', 'zeta', 'Eta', 'theta', 'iota', 'kappa', 'lam', 'mu']
ODD_WORDS = ['50%25', 'a%20b', 'c+d', 'back\\slash', '\u00dcn\u00ef-c\u00f6de', 'a.b-c', 'x&y', 'p<q>r', 'quo"te', "it's", '\u4e2d\u6587']


def esc(v):
    return v.replace('&', '&amp;').replace('<', '&lt;').replace('>', '&gt;').replace('"', '&quot;')


class G(object):
    def __init__(self, rng, size, ns, opts):
        self.rng = rng
        self.size = size
        self.ns = ns
        self.opts = opts
        self.nid = 0
        self.odd_ws = rng.random() < 0.5
        self.special = rng.random() < 0.4        # NaN / INF / denormal / out-of-range tokens outside the float arrays too
        self.comments = rng.random() < 0.3       # XML comments / processing instructions sprinkled in
        self.odd_names = rng.random() < 0.3     # names / symbols / texts with non-ASCII and escaped characters
        self.foreign = opts.get('foreign') if opts.get('foreign') is not None else rng.random() < 0.4
        self.foreign_ns = opts.get('foreign_ns') or (ns + '/extensions/acme' if rng.random() < 0.3 else FOREIGN_NS)
        self.prefix = ''
        pf = opts.get('prefixed')
        if pf or (pf is None and rng.random() < 0.1):
            self.prefix = 'c:'

    # ---- small helpers
    def fid(self, stem):
        self.nid += 1
        return '%s%d' % (stem, self.nid)

    def chance(self, p):
        return self.rng.random() < p

    def sep(self):
        if not self.odd_ws:
            return ' '
        if self.comments and self.rng.random() < 0.02:
            return ' <!-- %s --> ' % self.rng.choice(WORDS)       # a comment between two tokens
        return self.rng.choice([' ', ' ', ' ', '  ', '\n', '\t', ' \n ', '\r\n', '\n\t\t'])

    def note(self, p=0.06):
        """now and then a comment or a processing instruction between two elements"""
        if self.comments and self.rng.random() < p:
            return self.rng.choice(['<!-- %s -->', '<?verif %s?>', '\n<!--%s-->\n']) % self.rng.choice(WORDS)
        return ''

    def join(self, toks):
        toks = list(toks)
        if not toks:
            return self.rng.choice(['', ' ', '\n']) if self.odd_ws else ''
        s = toks[0]
        for t in toks[1:]:
            s += self.sep() + t
        if self.odd_ws:
            s = self.rng.choice(['', '', ' ', '\n', '\t ']) + s + self.rng.choice(['', '', ' ', '\n  '])
        return s

    def int_tok(self, x):
        """an index as text: plain, or (odd formats) with a sign or a leading zero"""
        if self.odd_ws and x >= 0 and self.rng.random() < 0.08:
            return self.rng.choice(['+%d', '0%d', '00%d']) % x
        return str(x)

    def num(self, pos=False):
        # every numeric text (transforms, light / camera / effect parameters, unit, bind_shape_matrix, ...) now and
        # then holds a special value: they are read as float32(float(token)) like any other (NaN -> 0 is a
        # normalisation of <float_array> data only)
        if self.special and self.rng.random() < 0.04:
            return self.rng.choice(NAN_TOKENS + INF_TOKENS + ['-0', '1e39', '-1e39', '1e-46', '-1e-45', '1e-40'])
        return self.rng.choice(POS_TOKENS if pos else NUM_TOKENS)

    def nums(self, n, nan=0.0, inf=0.0):
        out = []
        for _ in range(n):
            r = self.rng.random()
            if nan and r < nan:
                out.append(self.rng.choice(NAN_TOKENS))
            elif inf and r < nan + inf:
                out.append(self.rng.choice(INF_TOKENS))
            else:
                out.append(self.num())
        return out

    def word(self):
        if self.odd_names and self.rng.random() < 0.25:
            return self.rng.choice(ODD_WORDS)
        return self.rng.choice(WORDS)

    def phrase(self):
        if self.rng.random() < 0.05:
            return ''                                 # an empty element: no text
        return ' '.join(self.word() for _ in range(self.rng.randint(1, 3)))

    # ---- XML text helpers
    def t(self, name):
        return self.prefix + name

    def el(self, name, attrs=None, body=None, extra_decl=''):
        a = ''
        for k, v in (attrs or []):
            if v is not None:
                a += ' %s="%s"' % (k, esc(v))
        if body is None:
            return '<%s%s%s/>' % (self.t(name), a, extra_decl)
        return '<%s%s%s>%s</%s>' % (self.t(name), a, extra_decl, body, self.t(name))

    def extra(self):
        """an <extra> in the COLLADA namespace; with foreign-namespace content when enabled"""
        if self.foreign and self.chance(0.7):
            inner = ('<f:data f:mark="%s" plain="1">%s</f:data><f:empty/>' % (esc(self.word()), esc(self.phrase())))
            tech = self.el('technique', [('profile', 'FOREIGN')], inner)
            if not self.prefix and self.chance(0.3):
                # the same thing with the foreign namespace as the default one of a subtree
                tech = self.el('technique', [('profile', 'FOREIGN')],
                               '<data xmlns="%s" mark="%s"><empty/></data>' % (esc(self.foreign_ns), esc(self.word())))
            return self.el('extra', [], tech, extra_decl=' xmlns:f="%s"' % esc(self.foreign_ns))
        return self.el('extra', [], self.el('technique', [('profile', 'OTHER')],
                                            self.el('param', [('name', 'k'), ('type', 'float')], self.num())))

    def asset_child(self, p=0.08):
        """most COLLADA elements may start with an <asset> of their own; a loader must look past it"""
        if self.chance(p):
            return self.el('asset', [], self.el('revision', [], esc(self.word())))
        return ''

    def pad(self, tok):
        return tok if not self.odd_ws else self.rng.choice(['', ' ', '\n']) + tok + self.rng.choice(['', ' ', '\t'])

    def mimic_extra(self, p=0.2):
        """an <extra> whose foreign-namespace content looks like what the loader searches <extra> for
        (double_sided, bump texture): it is not COLLADA content and must not leak into the model"""
        if not (self.foreign and self.chance(p)):
            return ''
        inner = ('<m:double_sided>1</m:double_sided><m:bump><m:texture texture="nosuchsampler" texcoord="LEAK"/></m:bump>'
                 '<m:technique><m:double_sided>1</m:double_sided></m:technique>')
        return self.el('extra', [], self.el('technique', [('profile', 'MIMIC')], inner),
                       extra_decl=' xmlns:m="%s"' % esc(self.foreign_ns))

    def maybe_extra(self, p=0.15):
        return self.extra() if self.chance(p) else ''


# --------------------------------------------------------------------------- sources

def float_source(g, sid, params, count, nan=0.0, ptype='float', inf=0.0):
    toks = g.nums(count * len(params), nan, inf)
    return {'id': sid, 'kind': 'float', 'tokens': toks, 'params': list(params), 'ptype': ptype}


def render_source(g, s):
    aid = s['id'] + '-array'
    arrtag = {'float': 'float_array', 'Name': 'Name_array', 'IDREF': 'IDREF_array'}[s['kind']]
    text = g.join(s['tokens']) if s['tokens'] or 'blank' not in s else s['blank']
    arr = g.el(arrtag, [('id', aid), ('count', str(len(s['tokens'])))], text)
    stride = len(s['params'])
    params = ''.join(g.el('param', [('name', p), ('type', s.get('ptype', 'float'))]) for p in s['params'])
    acc = g.el('accessor', [('source', '#' + aid), ('count', str(len(s['tokens']) // max(stride, 1))),
                            ('stride', str(stride))], params)
    return g.el('source', [('id', s['id'])] + ([('name', s['name'])] if s.get('name') else []),
                arr + g.el('technique_common', [], acc))


# --------------------------------------------------------------------------- geometry

TEX_PARAM_FORMS = [['S', 'T'], ['S', 'T'], ['U', 'V'], ['S', 'T', 'P']]


def src_len(s):
    """number of elements a loader exposes for this source (S,T,P is read as S,T)"""
    return len(s['tokens']) // len(s['params'])


def gen_geometry(g):
    rng = g.rng
    gid = g.fid('geom')
    geom = {'id': gid, 'name': g.word() if g.chance(0.6) else None, 'sources': [], 'vertices': None, 'prims': [],
            'double_sided': None}
    srcs = geom['sources']
    nan = 0.12 if g.chance(0.4) else 0.0
    inf = 0.08 if g.chance(0.25) else 0.0       # infinities are values like any other: they must come through unchanged

    def add_src(stem, params, lo=2, hi=5):
        s = float_source(g, g.fid(gid + '-' + stem), params, rng.randint(lo, hi), nan, inf=inf)
        srcs.append(s)
        return s

    big = g.opts.get('big')
    large = True
    if big:
        pos = add_src('pos', ['X', 'Y', 'Z'], big, big)          # indices beyond 16 bits
    elif g.chance(0.04):
        pos = add_src('pos', ['X', 'Y', 'Z'], 260, 400)          # indices beyond 8 bits
    else:
        pos = add_src('pos', ['X', 'Y', 'Z'], 3, 6)
        large = False
    normals = [add_src('nrm', ['X', 'Y', 'Z']) for _ in range(rng.choice([0, 1, 1, 2]))]
    texs = [add_src('tex', rng.choice(TEX_PARAM_FORMS)) for _ in range(rng.choice([0, 1, 2, 3]))]
    cols = [add_src('col', rng.choice([['R', 'G', 'B'], ['R', 'G', 'B', 'A']])) for _ in range(rng.choice([0, 0, 1]))]
    tans = [add_src('tan', ['X', 'Y', 'Z']) for _ in range(rng.choice([0, 0, 0, 1, 2]))]
    if g.chance(0.12):
        # a source nothing refers to, without any value (absent, empty or blank text)
        srcs.append({'id': g.fid(gid + '-void'), 'kind': 'float', 'tokens': [], 'params': ['X', 'Y', 'Z'], 'ptype': 'float',
                     'blank': rng.choice([None, '', ' ', '\n\t '])})
    rng.shuffle(srcs)
    # <vertices>
    vid = g.fid(gid + '-vtx')
    vin = [('POSITION', pos['id'])]
    if large:
        pass          # nothing else at the VERTEX offset: the indices can then reach the end of the large source
    elif normals and g.chance(0.45):
        vin.append(('NORMAL', rng.choice(normals)['id']))
    if not large and texs and g.chance(0.3):
        vin.append(('TEXCOORD', rng.choice(texs)['id']))
    if not large and cols and g.chance(0.3):
        vin.append(('COLOR', rng.choice(cols)['id']))
    rng.shuffle(vin)
    geom['vertices'] = {'id': vid, 'inputs': vin}
    byid = {s['id']: s for s in srcs}
    vlevel = dict(vin)

    nprims = rng.choice([0, 1, 1, 2, 3]) if g.size > 0 else rng.choice([0, 1, 1, 1, 2])
    if large:
        nprims = max(nprims, 2)
    if big:
        nprims = 7
    for _ in range(nprims):
        tag = rng.choice(['triangles', 'triangles', 'tristrips', 'trifans', 'lines', 'polylist', 'polylist', 'polygons'])
        if big:
            tag = ['triangles', 'polylist', 'lines', 'polygons', 'tristrips', 'trifans', 'polylist'][len(geom['prims']) % 7]
        elif large and len(geom['prims']) < 2:
            tag = ['triangles', 'polylist'][len(geom['prims'])]
        inputs = [['VERTEX', vid, None]]
        if normals and g.chance(0.6):
            inputs.append(['NORMAL', rng.choice(normals)['id'], None])
            if g.chance(0.15):
                inputs.append(['NORMAL', rng.choice(normals)['id'], None])
        ntex = rng.choice([0, 1, 1, 2, 3]) if texs else 0
        for k in range(ntex):
            setv = rng.choice([str(k), str(k), None, str(k + 1)])
            inputs.append(['TEXCOORD', rng.choice(texs)['id'], setv])
        if cols and g.chance(0.4):
            inputs.append(['COLOR', rng.choice(cols)['id'], rng.choice([None, '0'])])
        if tans and g.chance(0.6):
            inputs.append(['TEXTANGENT', rng.choice(tans)['id'], rng.choice([None, '0'])])
            if g.chance(0.7):
                inputs.append(['TEXBINORMAL', rng.choice(tans)['id'], rng.choice([None, '0'])])
            if g.chance(0.2):
                inputs.append(['TANGENT', rng.choice(tans)['id'], None])
                inputs.append(['BINORMAL', rng.choice(tans)['id'], None])
        rng.shuffle(inputs)
        # offsets: arbitrary, shared, gapped; the maximum is always used by some input
        style = rng.choice(['distinct', 'shared', 'gapped', 'allzero', 'random'])
        n = len(inputs)
        if style == 'distinct':
            offs = list(range(n))
            rng.shuffle(offs)
        elif style == 'shared':
            offs = [rng.randint(0, max(0, n // 2)) for _ in range(n)]
        elif style == 'gapped':
            offs = rng.sample(range(0, 2 * n + 1), n)
        elif style == 'allzero':
            offs = [0] * n
        else:
            offs = [rng.randint(0, n + 1) for _ in range(n)]
        ins = [[offs[i], inputs[i][0], inputs[i][1], inputs[i][2]] for i in range(n)]
        nind = max(offs) + 1
        # per offset, the largest index that every source read through that offset allows
        limit = {}
        for o, sem, ref, _set in ins:
            if ref == vid:
                ls = [src_len(byid[sidd]) for sidd in vlevel.values()]
            else:
                ls = [src_len(byid[ref])]
            limit[o] = min([limit.get(o, 10 ** 6)] + ls)

        # large sources: every primitive draws most of its indices just below a cap of its own - the end of the
        # source, or the last value of a narrower integer type (signed / unsigned 8 and 16 bits) and the band behind it
        caps = {}

        def cap_for(o, hi_):
            if o not in caps:
                cands = [hi_] + [c for c in (127, 128, 255, 256, 32767, 32768, 33000, 40000, 65535, 65536) if c <= hi_]
                caps[o] = rng.choice(cands)
            return caps[o]

        def rows(k):
            out = []
            for _ in range(k):
                for o in range(nind):
                    hi_ = limit.get(o, 9) - 1
                    if hi_ > 100 and rng.random() < 0.7:
                        top = cap_for(o, hi_)
                        out.append(rng.randint(max(0, top - 3), top))
                    else:
                        out.append(rng.randint(0, hi_))
            return out

        prim = {'tag': tag, 'material': g.word() if g.chance(0.7) else None, 'inputs': ins, 'ps': [], 'vcount': None,
                'count_attr': None}
        small = g.size == 0
        if tag == 'triangles':
            nt = rng.choice([0, 1, 1, 2, 3]) if small else rng.choice([0, 1, 2, 3, 5])
            if large:
                nt = max(nt, 2)
            prim['ps'] = [rows(3 * nt)]
            if nt == 0 and g.chance(0.5):
                prim['ps'] = [None]          # <p/>
            if g.chance(0.1):
                prim['ps'].append(rows(3))   # a second <p> (ignored by the convention: only the first is read)
            prim['count_attr'] = nt
        elif tag == 'tristrips':
            prim['ps'] = [rows(rng.choice([0, 1, 2, 3, 3, 4, 4, 5, 6, 7])) for _ in range(rng.choice([1, 1, 2, 3]))]
            prim['count_attr'] = len(prim['ps'])
        elif tag == 'trifans':
            prim['ps'] = [rows(rng.choice([2, 3, 3, 4, 5, 6])) for _ in range(rng.choice([1, 1, 2, 3]))]
            prim['count_attr'] = len(prim['ps'])
        elif tag == 'lines':
            nl = rng.choice([0, 1, 2, 3, 4])
            prim['ps'] = [rows(2 * nl)]
            prim['count_attr'] = nl
        elif tag == 'polylist':
            vc = [rng.choice([0, 1, 2, 3, 3, 4, 5]) for _ in range(rng.choice([0, 1, 2, 3, 4]))]
            if large:
                vc = vc + [3, 4]
            prim['vcount'] = vc
            prim['ps'] = [rows(sum(vc))]
            prim['count_attr'] = len(vc)
        else:
            prim['ps'] = [rows(rng.choice([1, 2, 3, 3, 4, 5])) for _ in range(rng.choice([0, 1, 2, 3]))]
            prim['count_attr'] = len(prim['ps'])
        prim['nind'] = nind
        geom['prims'].append(prim)
    if g.chance(0.15):
        geom['double_sided'] = rng.choice(['1', '0'])
    return geom


def render_geometry(g, geom):
    parts = []
    srcxml = [render_source(g, s) for s in geom['sources']]
    v = geom['vertices']
    vxml = g.el('vertices', [('id', v['id'])],
                ''.join(g.el('input', [('semantic', sem), ('source', '#' + sid)]) for sem, sid in v['inputs']))
    parts.extend(srcxml)
    parts.append(g.note())
    parts.append(vxml)
    for p in geom['prims']:
        ins = ''.join(g.el('input', g.rng.sample([('offset', g.int_tok(o).lstrip('+')), ('semantic', sem), ('source', '#' + ref),
                                                  ('set', st)], 4))
                      for o, sem, ref, st in p['inputs'])
        body = ins
        if p['vcount'] is not None:
            body += g.el('vcount', [], g.join([g.int_tok(x) for x in p['vcount']]))
        for rowsv in p['ps']:
            body += g.el('p', [], None if rowsv is None else g.join([g.int_tok(x) for x in rowsv]))
        body += g.maybe_extra(0.08)
        parts.append(g.note() + g.el(p['tag'], [('material', p['material']), ('count', str(p['count_attr']))], body))
    if g.chance(0.15):
        parts.append(g.extra())
    if g.opts.get('unsupported_native') and g.chance(0.1):
        parts.append(g.el('unknown_primitive', [('count', '0')], None))   # a mesh child the loader does not know
    gextra = ''
    if geom['double_sided'] is not None:
        gextra = g.el('extra', [], g.el('technique', [('profile', 'MAYA')],
                                        g.el('double_sided', [], geom['double_sided'])))
    return g.el('geometry', [('id', geom['id']), ('name', geom['name'])],
                g.asset_child() + g.el('mesh', [], ''.join(parts)) + (g.mimic_extra() if g.chance(0.5) else '') + gextra + g.mimic_extra(0.1))


# --------------------------------------------------------------------------- lights, cameras, images, effects

def gen_light(g):
    kind = g.rng.choice(['ambient', 'directional', 'point', 'spot'])
    L = {'id': g.fid('light'), 'kind': kind, 'color': g.nums(3), 'params': []}
    if kind in ('point', 'spot'):
        names = ['constant_attenuation', 'linear_attenuation', 'quadratic_attenuation']
        names += ['zfar'] if kind == 'point' else ['falloff_angle', 'falloff_exponent']
        for nme in names:
            if g.chance(0.6):
                L['params'].append([nme, g.num()])
        if g.chance(0.3):
            g.rng.shuffle(L['params'])
    return L


def render_light(g, L):
    body = g.el('color', [], g.join(L['color']))
    for nme, tok in L['params']:
        body += g.el(nme, [], tok if not g.odd_ws else g.rng.choice(['', ' ']) + tok + g.rng.choice(['', '\n']))
    kind_tag = L['kind']
    if g.opts.get('unsupported_native') and g.chance(0.15):
        kind_tag = 'area'                                     # a light type the loader does not know
    return g.el('light', [('id', L['id']), ('name', g.word() if g.chance(0.5) else None)],
                g.asset_child() + g.el('technique_common', [], g.el(kind_tag, [], body)) +
                (g.el('technique', [('profile', 'OTHER')], g.el('param', [('name', 'intensity')], g.num())) if g.chance(0.1) else '') +
                g.maybe_extra())


def gen_camera(g):
    kind = g.rng.choice(['perspective', 'orthographic'])
    a, b = ('xfov', 'yfov') if kind == 'perspective' else ('xmag', 'ymag')
    combo = g.rng.choice([[a], [b], [a, b], [a, 'aspect_ratio'], [b, 'aspect_ratio'], [a, b, 'aspect_ratio'],
                          [a, b, 'aspect_ratio']])
    C = {'id': g.fid('cam'), 'kind': kind, 'params': [[n, g.num(pos=True)] for n in combo],
         'znear': g.num(pos=True), 'zfar': g.num(pos=True)}
    return C


def render_camera(g, C):
    def pad(tok):
        return tok if not g.odd_ws else g.rng.choice(['', ' ', '\n']) + tok + g.rng.choice(['', ' ', '\t'])
    parts = [g.el(n, [], pad(tok)) for n, tok in C['params']] + [g.el('znear', [], pad(C['znear'])), g.el('zfar', [], pad(C['zfar']))]
    if g.chance(0.3):
        g.rng.shuffle(parts)
    body = ''.join(parts)
    return g.el('camera', [('id', C['id']), ('name', g.word() if g.chance(0.5) else None)],
                g.asset_child() + g.el('optics', [], g.el('technique_common', [], g.el(C['kind'], [], body))) + g.maybe_extra())


def gen_image(g):
    path = g.rng.choice(['./tex/%s.png', '%s.jpg', '../images/%s.tga']) % g.word()
    if g.chance(0.3):
        # the path is exposed as written: percent-escapes, spaces, backslashes, '+', query / fragment characters
        path = g.rng.choice(['textures/wood%%20grain-%s.png', 'file:///C:/My%%20Models/%s.png', 'C:\\tex\\%s.png',
                             'tex/a+b %s.png', 'tex/%s.png?v=1#top', '%%41%%2F%s%%25.png', 'tex/100%%/%s.png',
                             'tex/caf%%C3%%A9-%s.png']) % g.word()
    r = g.rng.random()
    if r < 0.06:
        path = None                                   # <init_from/>
    elif r < 0.12:
        path = g.rng.choice(['', ' ', '\n  '])         # an empty / blank element
    elif g.odd_ws and r < 0.45:
        path = g.rng.choice([' ', '\n    ', '\t']) + path + g.rng.choice([' ', '\n  ', ''])
    return {'id': g.fid('img'), 'path': path}


def render_image(g, I):
    return g.el('image', [('id', I['id']), ('name', g.word() if g.chance(0.4) else None)],
                g.asset_child() + g.el('init_from', [], None if I['path'] is None else esc(I['path'])))


COLOR_PROPS = ['emission', 'ambient', 'diffuse', 'specular', 'reflective', 'transparent']
FLOAT_PROPS = ['shininess', 'reflectivity', 'transparency', 'index_of_refraction']
ALL_PROPS = ['emission', 'ambient', 'diffuse', 'specular', 'shininess', 'reflective', 'reflectivity',
             'transparent', 'transparency', 'index_of_refraction']


def gen_effect(g, images):
    rng = g.rng
    E = {'id': g.fid('fx'), 'shader': rng.choice(['phong', 'lambert', 'blinn', 'constant']), 'params': [],
         'floatparams': [], 'props': [], 'opaque': None, 'double_sided': None, 'bump': None}
    samplers = []
    for img in rng.sample(images, min(len(images), rng.choice([0, 1, 1, 2]))):
        sfid = g.fid('surf')
        E['params'].append({'kind': 'surface', 'sid': sfid, 'image': img['id'],
                            'format': rng.choice([None, 'A8R8G8B8', 'R8G8B8'])})
        smid = g.fid('samp')
        E['params'].append({'kind': 'sampler2D', 'sid': smid, 'surface': sfid,
                            'minfilter': rng.choice([None, 'LINEAR', 'NEAREST']),
                            'magfilter': rng.choice([None, 'LINEAR'])})
        samplers.append(smid)
    for _ in range(rng.choice([0, 0, 1, 2])):
        n = rng.choice([1, 4])
        E['floatparams'].append({'sid': g.fid('fp'), 'n': n, 'tokens': g.nums(n)})
    names = [p for p in ALL_PROPS if g.chance(0.55)]
    if g.chance(0.3):
        rng.shuffle(names)
    direct = images and not samplers and g.chance(0.3)      # the exporter shortcut: <texture texture="image id">
    E['direct_texture'] = bool(direct)
    for nme in names:
        r = rng.random()
        iscol = nme in COLOR_PROPS
        if direct and iscol and r < 0.5:
            val = ['texture', rng.choice(images)['id'], rng.choice(['UVSET0', 'CHANNEL1'])]
            E['uses_direct'] = True
        elif samplers and iscol and r < 0.3:
            val = ['texture', rng.choice(samplers), rng.choice(['UVSET0', 'CHANNEL1', 'TEX0'])]
        elif E['floatparams'] and r < 0.45:
            cands = [fp for fp in E['floatparams'] if fp['n'] == (4 if iscol else 1)]
            if cands:
                val = ['ref', rng.choice(cands)['sid']]
            else:
                val = ['ref', 'nosuchparam']
        elif iscol:
            val = ['color', g.nums(rng.choice([3, 4, 4]))]
        else:
            val = ['float', g.num()]
        E['props'].append([nme, val])
    if any(n == 'transparent' for n, _ in E['props']) and g.chance(0.5):
        E['opaque'] = rng.choice(['RGB_ZERO', 'A_ONE'])
    if g.chance(0.25):
        E['double_sided'] = rng.choice(['1', '0', '1'])
    if samplers and g.chance(0.25):
        E['bump'] = [rng.choice(samplers), 'BUMPUV']
    return E


def render_effect(g, E):
    body = ''
    for p in E['params']:
        if p['kind'] == 'surface':
            inner = g.el('init_from', [], p['image'])
            if p['format'] is not None:
                inner += g.el('format', [], p['format'])
            body += g.el('newparam', [('sid', p['sid'])], g.el('surface', [('type', '2D')], inner))
        else:
            inner = g.el('source', [], p['surface'])
            if p['minfilter'] is not None:
                inner += g.el('minfilter', [], p['minfilter'])
            if p['magfilter'] is not None:
                inner += g.el('magfilter', [], p['magfilter'])
            body += g.el('newparam', [('sid', p['sid'])], g.el('sampler2D', [], inner))
    for fp in E['floatparams']:
        body += g.el('newparam', [('sid', fp['sid'])], g.el('float' if fp['n'] == 1 else 'float4', [], g.join(fp['tokens'])))
    sh = ''
    for nme, val in E['props']:
        attrs = []
        if nme == 'transparent' and E['opaque'] is not None:
            attrs.append(('opaque', E['opaque']))
        if val[0] == 'color':
            inner = g.el('color', [], g.join(val[1]))
        elif val[0] == 'float':
            inner = g.el('float', [], g.pad(val[1]))
        elif val[0] == 'texture':
            inner = g.el('texture', [('texture', val[1]), ('texcoord', val[2])])
        else:
            inner = g.el('param', [('ref', val[1])])
        if g.opts.get('unsupported_native') and g.chance(0.08):
            inner = g.el('unknown_value', [], g.num())        # a shading parameter form the loader does not know
        sh += g.el(nme, attrs, inner)
    tech = g.el(E['shader'], [], sh)
    if E['bump'] is not None:
        tech += g.el('extra', [], g.el('technique', [('profile', 'FCOLLADA')],
                                       g.el('bump', [], g.el('texture', [('texture', E['bump'][0]), ('texcoord', E['bump'][1])]))))
    body += g.el('technique', [('sid', 'common')], tech + g.mimic_extra(0.1))
    body += g.mimic_extra()
    if E['double_sided'] is not None:
        body += g.el('extra', [], g.el('technique', [('profile', 'GOOGLEEARTH')], g.el('double_sided', [], g.pad(E['double_sided']))))
    return g.el('effect', [('id', E['id']), ('name', g.word() if g.chance(0.4) else None)],
                g.asset_child() + g.el('profile_COMMON', [], g.asset_child(0.05) + body))


# --------------------------------------------------------------------------- controllers, animations

def gen_skin(g, geom):
    rng = g.rng
    cid = g.fid('skin')
    nj = rng.randint(1, 3)
    kind = rng.choice(['Name', 'IDREF'])
    joints = {'id': cid + '-joints', 'kind': kind, 'tokens': ['joint%d' % (i + 1) for i in range(nj)], 'params': ['JOINT'],
              'ptype': kind}
    poses = {'id': cid + '-poses', 'kind': 'float', 'tokens': g.nums(16 * nj), 'params': ['TRANSFORM'], 'ptype': 'float4x4'}
    nw = rng.randint(1, 4)
    weights = {'id': cid + '-weights', 'kind': 'float', 'tokens': g.nums(nw), 'params': ['WEIGHT'], 'ptype': 'float'}
    vcount = [rng.choice([0, 1, 1, 2, 3]) for _ in range(rng.randint(1, 4))]
    if sum(vcount) == 0:
        vcount[rng.randrange(len(vcount))] = 1      # an empty <v> is the fault stream's business (C08)
    joff, woff = rng.choice([(0, 1), (1, 0), (0, 2)])
    nind = max(joff, woff) + 1
    v = []
    for _ in range(sum(vcount)):
        row = [0] * nind
        row[joff] = rng.randint(0, nj - 1)
        row[woff] = rng.randint(0, nw - 1)
        v.extend(row)
    sources = [joints, poses, weights]
    rng.shuffle(sources)
    return {'id': cid, 'kind': 'skin', 'geometry': geom['id'], 'bind_shape_matrix': g.nums(16) if g.chance(0.7) else None,
            'sources': sources, 'joint_source': joints['id'], 'matrix_source': poses['id'], 'weight_source': weights['id'],
            'joint_offset': joff, 'weight_offset': woff, 'vcount': vcount, 'v': v}


def render_skin(g, S):
    body = ''
    if S['bind_shape_matrix'] is not None:
        body += g.el('bind_shape_matrix', [], g.join(S['bind_shape_matrix']))
    body += ''.join(render_source(g, s) for s in S['sources'])
    jin = [g.el('input', [('semantic', 'JOINT'), ('source', '#' + S['joint_source'])]),
           g.el('input', [('semantic', 'INV_BIND_MATRIX'), ('source', '#' + S['matrix_source'])])]
    g.rng.shuffle(jin)
    body += g.el('joints', [], ''.join(jin))
    win = [g.el('input', [('semantic', 'JOINT'), ('source', '#' + S['joint_source']), ('offset', str(S['joint_offset']))]),
           g.el('input', [('semantic', 'WEIGHT'), ('source', '#' + S['weight_source']), ('offset', str(S['weight_offset']))])]
    g.rng.shuffle(win)
    body += g.el('vertex_weights', [('count', str(len(S['vcount'])))],
                 ''.join(win) + g.el('vcount', [], g.join(str(x) for x in S['vcount'])) + g.el('v', [], g.join(str(x) for x in S['v'])))
    return g.el('controller', [('id', S['id'])], g.asset_child() + g.el('skin', [('source', '#' + S['geometry'])], body) + g.maybe_extra())


def gen_morph(g, geoms):
    rng = g.rng
    cid = g.fid('morph')
    nt = rng.randint(1, 3)
    targets = {'id': cid + '-targets', 'kind': 'IDREF', 'tokens': [rng.choice(geoms)['id'] for _ in range(nt)],
               'params': ['MORPH_TARGET'], 'ptype': 'IDREF'}
    weights = {'id': cid + '-weights', 'kind': 'float', 'tokens': g.nums(nt), 'params': ['MORPH_WEIGHT'], 'ptype': 'float'}
    return {'id': cid, 'kind': 'morph', 'geometry': rng.choice(geoms)['id'], 'method': rng.choice([None, 'NORMALIZED', 'RELATIVE']),
            'sources': [targets, weights], 'target_source': targets['id'], 'weight_source': weights['id']}


def render_morph(g, M):
    body = ''.join(render_source(g, s) for s in M['sources'])
    body += g.el('targets', [], g.el('input', [('semantic', 'MORPH_TARGET'), ('source', '#' + M['target_source'])]) +
                 g.el('input', [('semantic', 'MORPH_WEIGHT'), ('source', '#' + M['weight_source'])]))
    return g.el('controller', [('id', M['id'])], g.el('morph', [('source', '#' + M['geometry']), ('method', M['method'])], body))


def gen_animation(g, depth=0):
    rng = g.rng
    aid = g.fid('anim')
    n = rng.randint(1, 3)
    A = {'id': aid if g.chance(0.85) else None, 'name': g.word() if g.chance(0.5) else None, 'sources': [], 'children': []}
    if g.chance(0.8):
        A['sources'].append({'id': aid + '-in', 'kind': 'float', 'tokens': g.nums(n), 'params': ['TIME'], 'ptype': 'float'})
        A['sources'].append({'id': aid + '-out', 'kind': 'float', 'tokens': g.nums(n * 3), 'params': ['X', 'Y', 'Z'], 'ptype': 'float'})
        A['sources'].append({'id': aid + '-interp', 'kind': 'Name', 'tokens': [rng.choice(['LINEAR', 'BEZIER', 'STEP']) for _ in range(n)],
                             'params': ['INTERPOLATION'], 'ptype': 'Name'})
    if depth < 2:
        for _ in range(rng.choice([0, 0, 1, 2])):
            A['children'].append(gen_animation(g, depth + 1))
    return A


def render_animation(g, A):
    body = ''.join(render_source(g, s) for s in A['sources'])
    if A['sources']:
        sid = (A['id'] or 'x') + '-sampler'
        body += g.el('sampler', [('id', sid)], ''.join(
            g.el('input', [('semantic', sem), ('source', '#' + s['id'])])
            for sem, s in zip(['INPUT', 'OUTPUT', 'INTERPOLATION'], A['sources'])))
        body += g.el('channel', [('source', '#' + sid), ('target', 'node1/translate')])
    kids = ''.join(render_animation(g, c) for c in A['children'])
    body = (kids + body) if g.chance(0.3) else (body + kids)
    return g.el('animation', [('id', A['id']), ('name', A['name'])], g.asset_child() + body)


# --------------------------------------------------------------------------- nodes and scenes

TRANSFORM_ARITY = {'translate': 3, 'rotate': 4, 'scale': 3, 'matrix': 16, 'lookat': 9}


def gen_node(g, ctx, depth, inst_targets):
    """ctx: dict of available library ids; inst_targets: ids of nodes an instance_node may name"""
    rng = g.rng
    N = {'id': g.fid('node') if g.chance(0.85) else None, 'name': (g.word() if g.chance(0.9) else '') if g.chance(0.5) else None,
         'sid': g.word() if g.chance(0.2) else None, 'type': rng.choice([None, None, 'NODE', 'JOINT']), 'items': []}
    if depth == 0 and g.chance(0.04):
        # a deep chain: forty nested nodes, one transform each, a light or geometry instance at the bottom
        cur = N
        for _ in range(40):
            nxt = {'id': g.fid('deep'), 'name': None, 'sid': None, 'type': None,
                   'items': [{'t': 'transform', 'kind': 'translate', 'tokens': g.nums(3), 'sid': None}]}
            cur['items'].append({'t': 'node', 'node': nxt})
            cur = nxt
        if ctx['lights']:
            cur['items'].append({'t': 'light', 'url': rng.choice(ctx['lights'])['id']})
        return N
    nitems = rng.choice([0, 1, 2, 3, 4]) if g.size == 0 else rng.choice([0, 1, 2, 3, 4, 5, 6])
    for _ in range(nitems):
        r = rng.random()
        if r < 0.4:
            k = rng.choice(list(TRANSFORM_ARITY))
            toks = g.nums(TRANSFORM_ARITY[k])
            if k == 'lookat':
                # a lookat whose eye equals its interest makes the loader divide by zero (warning only); avoid it
                toks = ['1', '2', '3', '0', '0', '0', '0', '1', '0'] if toks[0:3] == toks[3:6] else toks
            N['items'].append({'t': 'transform', 'kind': k, 'tokens': toks, 'sid': g.word() if g.chance(0.3) else None})
        elif r < 0.55 and depth < 3:
            N['items'].append({'t': 'node', 'node': gen_node(g, ctx, depth + 1, inst_targets)})
        elif r < 0.7 and ctx['geometries']:
            geom = rng.choice(ctx['geometries'])
            symbols = [p['material'] for p in geom['prims'] if p['material']]

            def some_binds():
                return [[g.word().upper(), rng.choice(['TEXCOORD', 'COLOR']), rng.choice(['0', '1', '2'])]
                        for _ in range(rng.choice([0, 0, 1, 2]))]
            mats = []
            if ctx['materials'] and g.chance(0.7):
                for _ in range(rng.choice([1, 1, 2])):
                    # mostly the symbols the primitives of this geometry use, so that the binding matters
                    sym = rng.choice(symbols) if symbols and g.chance(0.75) else g.word()
                    mats.append({'symbol': sym, 'target': rng.choice(ctx['materials'])['id'], 'binds': some_binds()})
            N['items'].append({'t': 'geometry', 'url': geom['id'], 'materials': mats})
            if mats and g.chance(0.3):
                # a variant of the same instance in the same node (same transform, same symbols), bound differently
                N['items'].append({'t': 'geometry', 'url': geom['id'],
                                   'materials': [{'symbol': m['symbol'], 'target': rng.choice(ctx['materials'])['id'],
                                                  'binds': some_binds()} for m in mats]})
        elif r < 0.77 and ctx['lights']:
            N['items'].append({'t': 'light', 'url': rng.choice(ctx['lights'])['id']})
        elif r < 0.84 and ctx['cameras']:
            N['items'].append({'t': 'camera', 'url': rng.choice(ctx['cameras'])['id']})
        elif r < 0.88 and ctx['controllers']:
            ctl = rng.choice(ctx['controllers'])
            mats = []
            if ctx['materials'] and g.chance(0.5):
                mats.append({'symbol': g.word(), 'target': rng.choice(ctx['materials'])['id'], 'binds': []})
            N['items'].append({'t': 'controller', 'url': ctl['id'], 'materials': mats})
        elif r < 0.95 and inst_targets:
            N['items'].append({'t': 'instance_node', 'url': rng.choice(inst_targets)})
        elif r < 0.98:
            N['items'].append({'t': 'extra'})
        else:
            N['items'].append({'t': 'asset'})
    return N


def render_node(g, N):
    body = ''
    if g.opts.get('unsupported_native') and g.chance(0.35):
        # a COLLADA element the scene loader does not support, directly inside <node>
        body += g.rng.choice([g.el('skew', [('sid', 'sk')], g.join(g.nums(7))),
                              g.el('instance_physics_model', [('url', '#none')]),
                              g.el('unknown_native_thing', [], None)])
    if g.opts.get('foreign_in_nodes') and g.chance(0.35):
        # a vendor element that is not wrapped in <extra> (the loader reports it: only for the namespace property)
        body += '<v:thing xmlns:v="%s" v:a="1"><v:inner/></v:thing>' % esc(g.foreign_ns)
    for it in N['items']:
        t = it['t']
        body += g.note(0.03)
        if t == 'transform':
            body += g.el(it['kind'], [('sid', it['sid'])], g.join(it['tokens']))
        elif t == 'node':
            body += render_node(g, it['node'])
        elif t in ('geometry', 'controller'):
            inner = ''
            if it['materials']:
                ims = ''
                for m in it['materials']:
                    bv = ''.join(g.el('bind_vertex_input', [('semantic', s), ('input_semantic', i), ('input_set', st)])
                                 for s, i, st in m['binds'])
                    ims += g.el('instance_material', [('symbol', m['symbol']), ('target', '#' + m['target'])], bv or None)
                inner = g.el('bind_material', [], g.el('technique_common', [], ims))
            body += g.el('instance_' + t, [('url', '#' + it['url'])], inner or None)
        elif t == 'light':
            body += g.el('instance_light', [('url', '#' + it['url'])])
        elif t == 'camera':
            body += g.el('instance_camera', [('url', '#' + it['url'])])
        elif t == 'instance_node':
            body += g.el('instance_node', [('url', '#' + it['url'])])
        elif t == 'extra':
            body += g.extra()
        else:
            body += g.el('asset', [], g.el('up_axis', [], 'Z_UP'))
    return g.el('node', [('id', N['id']), ('name', N['name']), ('sid', N['sid']), ('type', N['type'])], body or None)


# --------------------------------------------------------------------------- asset

def gen_asset(g):
    rng = g.rng
    A = {'contributors': [], 'created': None, 'modified': None, 'keywords': None, 'revision': None, 'subject': None,
         'title': None, 'unit': None, 'up_axis': None}
    for _ in range(rng.choice([0, 1, 1, 2])):
        c = {}
        for k in ['author', 'authoring_tool', 'comments', 'copyright', 'source_data']:
            if g.chance(0.5):
                c[k] = g.phrase()
        A['contributors'].append(c)
    def date():
        # xs:dateTime spellings (zone designators, fractions, a date alone) and, as the schema type collapses
        # whitespace, text set on its own line
        ymd = (2000 + rng.randint(0, 29), rng.randint(1, 12), rng.randint(1, 28))
        hms = (rng.randint(0, 23), rng.randint(0, 59), rng.randint(0, 59))
        form = rng.choice(['iso', 'iso', 'iso', 'space', 'compact', 'date'])
        if form == 'date':
            text = '%04d-%02d-%02d' % ymd
        elif form == 'compact':
            text = '%04d%02d%02dT%02d%02d%02d' % (ymd + hms) + rng.choice(['', 'Z'])
        else:
            text = '%04d-%02d-%02d' % ymd + ('T' if form == 'iso' else ' ') + '%02d:%02d:%02d' % hms
            text += rng.choice(['', '', 'Z', 'z', '+02:00', '-05:30', '.250', '.5Z'])
        if g.odd_ws and g.chance(0.5):
            text = rng.choice(['\n    ', ' ', '\t']) + text + rng.choice(['\n  ', ' ', ''])
        return text
    A['created'] = date()
    A['modified'] = date()
    for k in ['keywords', 'revision', 'subject', 'title']:
        if g.chance(0.5):
            A[k] = g.phrase()
    if g.chance(0.7):
        A['unit'] = [g.word(), g.num(pos=True)]
    if g.chance(0.8):
        A['up_axis'] = rng.choice(['X_UP', 'Y_UP', 'Z_UP'])
    return A


def render_asset(g, A):
    body = ''
    for c in A['contributors']:
        body += g.el('contributor', [], ''.join(g.el(k, [], esc(c[k])) for k in ['author', 'authoring_tool', 'comments', 'copyright', 'source_data'] if k in c) or None)
    body += g.el('created', [], A['created'])
    if A['keywords'] is not None:
        body += g.el('keywords', [], esc(A['keywords']))
    body += g.el('modified', [], A['modified'])
    for k in ['revision', 'subject', 'title']:
        if A[k] is not None:
            body += g.el(k, [], esc(A[k]))
    if A['unit'] is not None:
        body += g.el('unit', [('name', A['unit'][0]), ('meter', A['unit'][1])])
    if A['up_axis'] is not None:
        body += g.el('up_axis', [], A['up_axis'])
    return g.el('asset', [], body)


# --------------------------------------------------------------------------- document

def gen_document(rng, size=1, ns=NS_141, **opts):
    """-> (xml_bytes, description).  size: 0 tiny, 1 small, 2 medium."""
    g = G(rng, size, ns, opts)
    want_ctl = opts.get('controllers') if opts.get('controllers') is not None else rng.random() < 0.25
    want_anim = opts.get('animations') if opts.get('animations') is not None else rng.random() < 0.3
    hi = [1, 2, 3][min(size, 2)]
    D = {'ns': ns, 'asset': gen_asset(g) if g.chance(0.8) else None}
    D['images'] = [gen_image(g) for _ in range(rng.randint(0, hi))]
    D['effects'] = [gen_effect(g, D['images']) for _ in range(rng.randint(0, hi))]
    D['materials'] = [{'id': g.fid('mat'), 'name': g.word() if g.chance(0.6) else None, 'effect': rng.choice(D['effects'])['id']}
                      for _ in range(rng.randint(0, hi) if D['effects'] else 0)]
    D['animations'] = []
    if want_anim:
        # mostly two or more top-level animations; now and then a later one declares sources under the very ids
        # an earlier sibling uses (ids are looked up per <animation>: each one must see its own)
        D['animations'] = [gen_animation(g) for _ in range(max(rng.randint(1, hi), 2 if g.chance(0.6) else 1))]
        first = next((a for a in D['animations'] if a['sources']), None)
        if first is not None and g.chance(0.5):
            for a in D['animations']:
                if a is not first and a['sources'] and g.chance(0.7):
                    for mine, theirs in zip(a['sources'], first['sources']):
                        mine['id'] = theirs['id']
    D['geometries'] = [gen_geometry(g) for _ in range(rng.randint(0 if size == 0 else 1, hi))]
    D['controllers'] = []
    if want_ctl and D['geometries']:
        for _ in range(rng.randint(1, 2)):
            if g.chance(0.65):
                D['controllers'].append(gen_skin(g, rng.choice(D['geometries'])))
            else:
                D['controllers'].append(gen_morph(g, D['geometries']))
    D['lights'] = [gen_light(g) for _ in range(rng.randint(0, hi + 1))]
    D['cameras'] = [gen_camera(g) for _ in range(rng.randint(0, hi))]
    ctx = {k: D[k] for k in ('geometries', 'materials', 'lights', 'cameras', 'controllers')}
    # library nodes: ids are decided first so that instance_node can point forward (never in a cycle:
    # node i may instantiate a later node j > i, or an earlier one whose own references stay below it)
    nlib = rng.randint(0, hi + 1)
    D['nodes'] = []
    lib_ids = [g.fid('libnode') for _ in range(nlib)]
    for i in range(nlib):
        # only forward references (i -> j > i) or only backward ones would both be acyclic; mix per document
        fw = [lib_ids[j] for j in range(i + 1, nlib)]
        targets = fw if g.chance(0.6) else []
        n = gen_node(g, ctx, 1, targets)
        n['id'] = lib_ids[i]
        D['nodes'].append(n)
    D['scenes'] = []
    for _ in range(rng.randint(0 if size == 0 else 1, 2 if size > 0 else 1)):
        sc = {'id': g.fid('scene'), 'name': g.word() if g.chance(0.4) else None, 'nodes': []}
        # top-level scene nodes may instantiate one another through the scene's local scope: per scene either
        # only earlier ones or only later ones (forward references; never a cycle)
        ntop = rng.randint(0, hi + 1)
        top_ids = [g.fid('top') if g.chance(0.85) else None for _ in range(ntop)]
        forward = g.chance(0.4)
        for i in range(ntop):
            others = top_ids[i + 1:] if forward else top_ids[:i]
            n = gen_node(g, ctx, 0, lib_ids + [t for t in others if t])
            n['id'] = top_ids[i]
            sc['nodes'].append(n)
        sc['forward'] = forward
        D['scenes'].append(sc)
    D['scene'] = rng.choice(D['scenes'])['id'] if D['scenes'] and g.chance(0.85) else None

    # ---- render
    libs = []          # (text, key, part): a library may be written as two elements of the same name
    split = {}

    def lib(name, items, key=None):
        if key is not None and len(items) >= 2 and g.chance(0.25):
            cut = rng.randint(1, len(items) - 1)
            split[key] = cut
            libs.append((g.el(name, [], ''.join(items[:cut]) + g.maybe_extra(0.1)), key, 0))
            libs.append((g.el(name, [], ''.join(items[cut:])), key, 1))
        elif items or g.chance(0.15):
            libs.append((g.note() + g.el(name, [], g.note().join(items) + g.maybe_extra(0.1)), key, 0))
    lib('library_images', [render_image(g, x) for x in D['images']], 'images')
    lib('library_effects', [render_effect(g, x) for x in D['effects']], 'effects')
    lib('library_materials', [g.el('material', [('id', m['id']), ('name', m['name'])],
                                   g.asset_child() + g.el('instance_effect', [('url', '#' + m['effect'])])) for m in D['materials']], 'materials')
    lib('library_animations', [render_animation(g, x) for x in D['animations']], 'animations')
    geoms_xml = [render_geometry(g, x) for x in D['geometries']]
    if g.chance(0.12):
        # a geometry that is not a mesh is skipped by the loader (and is not in the description)
        geoms_xml.insert(rng.randint(0, len(geoms_xml)),
                         g.el('geometry', [('id', g.fid('spline'))],
                              g.el('spline', [], g.el('control_vertices', [], None))))
        lib('library_geometries', geoms_xml)
    else:
        lib('library_geometries', geoms_xml, 'geometries')
    lib('library_controllers', [render_skin(g, x) if x['kind'] == 'skin' else render_morph(g, x) for x in D['controllers']], 'controllers')
    lib('library_lights', [render_light(g, x) for x in D['lights']], 'lights')
    lib('library_cameras', [render_camera(g, x) for x in D['cameras']], 'cameras')
    lib('library_nodes', [render_node(g, x) for x in D['nodes']])
    lib('library_visual_scenes', [g.el('visual_scene', [('id', s['id']), ('name', s['name'])],
                                       g.asset_child() + ''.join(render_node(g, n) for n in s['nodes']) + g.maybe_extra(0.1)) for s in D['scenes']], 'scenes')
    if g.chance(0.5):
        rng.shuffle(libs)      # the order of libraries in the file is free
    # a library written in two parts lists its objects in the order of the parts in the file
    for key, cut in split.items():
        order = [part for (_t, k, part) in libs if k == key]
        if order == [1, 0]:
            D[key] = D[key][cut:] + D[key][:cut]
    D['split_libraries'] = sorted(split)
    body = (render_asset(g, D['asset']) if D['asset'] is not None else '') + ''.join(t for (t, _k, _p) in libs)
    if D['scene'] is not None:
        body += g.el('scene', [], (g.el('instance_physics_scene', [('url', '#nophysics')]) if g.chance(0.2) else '') +
                     g.el('instance_visual_scene', [('url', '#' + D['scene'])]) + g.maybe_extra(0.1))
    elif g.chance(0.3):
        body += g.el('scene', [])
    if g.chance(0.2):
        body += g.extra()
    decl = ' xmlns:c="%s"' % esc(ns) if g.prefix else ' xmlns="%s"' % esc(ns)
    # the root's own attributes: version present / absent / odd, xml:base, further namespace declarations
    version = rng.choice(['1.4.1', '1.4.1', '1.4.1', '1.4.0', '1.5.0', None, '', '1.5.0-draft', 'x'])
    rattrs = [('version', version)]
    if g.chance(0.15):
        rattrs.append(('xml:base', 'http://example.org/assets/'))
    if g.chance(0.15):
        decl += ' xmlns:xsi="http://www.w3.org/2001/XMLSchema-instance" xsi:schemaLocation="%s http://example.org/collada.xsd"' % esc(ns)
    if g.chance(0.1):
        decl += ' xmlns:unused="urn:x-verif:unused"'
    if g.chance(0.3):
        rng.shuffle(rattrs)
    D['root_version'] = version
    xml = '<?xml version="1.0" encoding="utf-8"?>\n' + g.el('COLLADA', rattrs, body, extra_decl=decl)
    D['prefixed'] = bool(g.prefix)
    D['repair_paths'] = any(e.get('uses_direct') for e in D['effects'])
    D['foreign'] = bool(g.foreign)
    return xml.encode('utf-8'), D


def with_namespace(data, old_ns, new_ns):
    """the same document with the COLLADA namespace URI replaced (textual: the URI occurs only in the
    root's namespace declaration)"""
    old = ('"%s"' % old_ns).encode()
    assert data.count(old) == 1
    return data.replace(old, ('"%s"' % new_ns).encode())


if __name__ == '__main__':
    import sys
    r = random.Random(int(sys.argv[1]) if len(sys.argv) > 1 else 0)
    x, d = gen_document(r, int(sys.argv[2]) if len(sys.argv) > 2 else 1)
    sys.stdout.write(x.decode())
