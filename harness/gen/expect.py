"""What a loader must expose for a document written by harness/gen/xmldocs.py, derived from the
generator's own description only (never from pycollada): direct indexing flat[(t*k+c)*nind+o],
the documented normalisations (U,V -> S,T; S,T,P -> S,T with the third component dropped; NaN -> 0;
colours padded to RGBA; node name defaults to id; aspect ratio dropped when all three camera
parameters are given) and the conventions DESIGN.md 7/C05 states where the property text is silent (library and scene nodes in document order).

`expected(D)` returns a *pattern*: a nested structure holding only the fields the property demands;
`compare(pattern, snapshot)` lists the places where the snapshot differs from the pattern.
Numbers are float32 keys computed here with numpy: fkey(float32(float(token)))."""
import numpy


def fkey(tok):
    with numpy.errstate(over='ignore'):
        v = numpy.float32(float(tok))
    if numpy.isnan(v):
        return 'nan'
    r = repr(float(v))
    return '0.0' if r == '-0.0' else r


def fk0(tok):
    k = fkey(tok)
    return '0.0' if k == 'nan' else k


class Any(object):
    """matches anything"""


class Text(object):
    """element text: equal up to surrounding whitespace; empty or blank text and no text at all are the same"""

    def __init__(self, value):
        self.value = value

    def matches(self, got):
        a = (self.value or '').strip()
        b = (got or '').strip() if isinstance(got, str) or got is None else None
        return b is not None and a == b


class Exact(object):
    """an association list (a dict in the implementation) that must hold exactly the listed keys, each with a
    matching value; the order of the keys is not demanded"""

    def __init__(self, items):
        self.items = items


class Subset(object):
    """an association list of which every listed key must be present with a matching value"""

    def __init__(self, items):
        self.items = items



# --------------------------------------------------------------------------- sources

def source_pattern(s, shape=True):
    if s['kind'] != 'float':
        return {'id': s['id'], 'kind': {'Name': 'NameSource', 'IDREF': 'IDRefSource'}[s['kind']],
                'components': list(s['params']), 'data': list(s['tokens'])}
    comps = list(s['params'])
    data = [fk0(t) for t in s['tokens']]
    if comps == ['U', 'V']:
        comps = ['S', 'T']
    elif comps == ['S', 'T', 'P']:
        comps = ['S', 'T']
        data = [d for i, d in enumerate(data) if i % 3 != 2]
    p = {'id': s['id'], 'kind': 'FloatSource', 'components': comps, 'data': data}
    if shape:
        p['shape'] = [len(data) // len(comps), len(comps)]
    return p


# --------------------------------------------------------------------------- primitives

KNOWN = ['VERTEX', 'NORMAL', 'TEXCOORD', 'TEXBINORMAL', 'TEXTANGENT', 'COLOR', 'TANGENT', 'BINORMAL']


def spec_inputs(prim, geom, sem):
    """inputs of one semantic: primitive-level ones first (document order), then the <vertices>-level
    ones of every VERTEX input that names the <vertices> element (POSITION counts as VERTEX)"""
    v = geom['vertices']
    out = []
    for o, s, ref, st in prim['inputs']:
        if s == sem and ref != v['id']:
            out.append([o, s, '#' + ref, st])
    for o, s, ref, st in prim['inputs']:
        if s == 'VERTEX' and ref == v['id']:
            for vsem, vsrc in v['inputs']:
                eff = 'VERTEX' if vsem == 'POSITION' else vsem
                if eff == sem:
                    out.append([o, eff, '#' + vsrc, st])
    return out


def strip_triangles(n):
    return [(2 * i, 2 * i + 1, 2 * i + 2) for i in range(max(0, (n - 1) // 2))] + \
           [(2 * i + 2, 2 * i + 1, 2 * i + 3) for i in range(max(0, (n - 2) // 2))]


def fan_triangles(n):
    return [(0, i + 1, i + 2) for i in range(max(0, n - 2))]


def flat_index(prim):
    nind = prim['nind']
    tag = prim['tag']
    ps = [(p or []) for p in prim['ps']]
    if tag in ('triangles', 'lines', 'polylist'):
        return list(ps[0])
    if tag == 'polygons':
        return [x for p in ps for x in p]
    out = []
    for p in ps:
        n = len(p) // nind
        tris = strip_triangles(n) if tag == 'tristrips' else fan_triangles(n)
        for tri in tris:
            for r in tri:
                out.extend(p[r * nind:(r + 1) * nind])
    return out


def prim_pattern(prim, geom):
    tag = prim['tag']
    nind = prim['nind']
    srcs = {s['id']: source_pattern(s) for s in geom['sources']}
    cls = {'triangles': 'TriangleSet', 'tristrips': 'TriangleSet', 'trifans': 'TriangleSet', 'lines': 'LineSet',
           'polylist': 'Polylist', 'polygons': 'Polygons'}[tag]
    k = {'TriangleSet': 3, 'LineSet': 2}.get(cls, 1)
    flat = flat_index(prim)
    rows = len(flat) // nind
    n = rows // k
    P = {'kind': cls, 'tag': tag, 'material': prim['material'], 'nindices': nind}
    # the input table is a dict: its key order is not something the property fixes
    P['sources'] = Subset([[sem, [[o, s, ref, st, {'id': ref[1:]}] for o, s, ref, st in spec_inputs(prim, geom, sem)]] for sem in KNOWN])

    def view(o):
        data = [flat[j * nind + o] for j in range(rows)]
        shape = [n, k] if k > 1 else [rows]
        return {'shape': shape, 'data': data}

    def data(ref):
        sp = srcs[ref[1:]]
        return {'src': {'id': sp['id']}, 'shape': sp['shape'], 'data': sp['data']}

    def first(sem, idx_key, data_key):
        ins = spec_inputs(prim, geom, sem)
        if ins and rows > 0:
            P[data_key] = data(ins[0][2])
            P[idx_key] = view(ins[0][0])
        else:
            P[data_key] = None
            P[idx_key] = None

    def every(sem, idx_key, data_key):
        ins = spec_inputs(prim, geom, sem) if rows > 0 else []
        P[data_key] = [data(i[2]) for i in ins]
        P[idx_key] = [view(i[0]) for i in ins]
    first('VERTEX', 'vertex_index', 'vertex')
    first('NORMAL', 'normal_index', 'normal')
    every('TEXCOORD', 'texcoord_indexset', 'texcoordset')
    if cls == 'TriangleSet':
        every('TEXTANGENT', 'textangent_indexset', 'textangentset')
        every('TEXBINORMAL', 'texbinormal_indexset', 'texbinormalset')
        P['ntriangles'] = n
        P['len'] = n
    elif cls == 'LineSet':
        P['nlines'] = n
        P['len'] = n
    else:
        if tag == 'polylist':
            vc = list(prim['vcount'])
        else:
            vc = [len(p) // nind for p in prim['ps']]
        ends, acc = [], 0
        for c in vc:
            acc += c
            ends.append(acc)
        P['vcounts'] = vc
        P['polyends'] = ends
        P['polystarts'] = [e - c for e, c in zip(ends, vc)]
        P['npolygons'] = len(vc)
        P['nvertices'] = sum(vc) if rows > 0 else 0
        P['len'] = len(vc)
    return P


def geometry_pattern(geom):
    v = geom['vertices']
    srcs = [[s['id'], source_pattern(s)] for s in geom['sources']]
    srcs.append([v['id'], {'vertices': [[sem, {'id': sid}] for sem, sid in v['inputs']]}])
    P = {'id': geom['id'], 'sources': Subset(srcs), 'prims': [prim_pattern(p, geom) for p in geom['prims']]}
    if geom['name'] is not None:
        P['name'] = geom['name']
    if geom['double_sided'] is not None:
        P['double_sided'] = geom['double_sided'] == '1'
    return P


# --------------------------------------------------------------------------- flat classes

LIGHT_CLS = {'ambient': 'AmbientLight', 'directional': 'DirectionalLight', 'point': 'PointLight', 'spot': 'SpotLight'}
LIGHT_ATTR = {'constant_attenuation': 'constant_att', 'linear_attenuation': 'linear_att', 'quadratic_attenuation': 'quad_att',
              'zfar': 'zfar', 'falloff_angle': 'falloff_ang', 'falloff_exponent': 'falloff_exp'}


def light_pattern(L):
    P = {'id': L['id'], 'kind': LIGHT_CLS[L['kind']], 'color': [fkey(t) for t in L['color']]}
    given = dict(L['params'])
    if L['kind'] == 'point':
        names = ['constant_attenuation', 'linear_attenuation', 'quadratic_attenuation', 'zfar']
    elif L['kind'] == 'spot':
        names = ['constant_attenuation', 'linear_attenuation', 'quadratic_attenuation', 'falloff_angle', 'falloff_exponent']
    else:
        names = []
    for n in names:
        P[LIGHT_ATTR[n]] = fkey(given[n]) if n in given else None
    return P


def camera_pattern(C):
    P = {'id': C['id'], 'kind': 'PerspectiveCamera' if C['kind'] == 'perspective' else 'OrthographicCamera',
         'znear': fkey(C['znear']), 'zfar': fkey(C['zfar'])}
    given = dict(C['params'])
    a, b = ('xfov', 'yfov') if C['kind'] == 'perspective' else ('xmag', 'ymag')
    for n in (a, b, 'aspect_ratio'):
        P[n] = fkey(given[n]) if n in given else None
    if len(given) == 3:
        P['aspect_ratio'] = None          # documented: aspect ratio dropped when all three are given
    return P


COLOR_PROPS = ['emission', 'ambient', 'diffuse', 'specular', 'reflective', 'transparent']
ALL_PROPS = ['emission', 'ambient', 'diffuse', 'specular', 'shininess', 'reflective', 'reflectivity',
             'transparent', 'transparency', 'index_of_refraction']


def effect_pattern(E):
    P = {'id': E['id'], 'shadingtype': E['shader'], 'props': {}, 'params': []}
    fparams = {fp['sid']: fp for fp in E['floatparams']}
    for p in E['params']:
        if p['kind'] == 'surface':
            q = {'kind': 'Surface', 'id': p['sid'], 'image': {'id': p['image'], 'same': True}}
            if p['format'] is not None:
                q['format'] = p['format']
        else:
            q = {'kind': 'Sampler2D', 'id': p['sid'], 'surface_id': p['surface'], 'minfilter': p['minfilter'],
                 'magfilter': p['magfilter']}
        P['params'].append(q)
    if E.get('uses_direct'):
        P['params'] = Any         # the loader adds a surface and a sampler per image named directly
    transparent_value = Any
    for name, val in E['props']:
        if val[0] == 'color':
            c = [fkey(t) for t in val[1]]
            while len(c) < 3:
                c.append('0.0')
            while len(c) < 4:
                c.append('1.0')
            v = {'num': c}
        elif val[0] == 'float':
            v = {'num': [fkey(val[1])]}
        elif val[0] == 'texture':
            v = {'map': {'sampler_id': val[1], 'texcoord': val[2]}}
        else:
            fp = fparams.get(val[1])
            v = {'num': [fkey(t) for t in fp['tokens']]} if fp else Any   # an unresolved reference: nothing to demand
        P['props'][name] = v
        if name == 'transparent':
            transparent_value = None if v is Any else v
    if E['opaque'] is not None and transparent_value is not None:
        P['opaque_mode'] = E['opaque']
    if E['double_sided'] is not None:
        P['double_sided'] = E['double_sided'] == '1'
    if E['bump'] is not None:
        P['bumpmap'] = {'map': {'sampler_id': E['bump'][0], 'texcoord': E['bump'][1]}}
    return P


def asset_pattern(A):
    if A is None:
        return Any
    P = {'contributors': [{k: (c.get(k) or None) for k in ['author', 'authoring_tool', 'comments', 'copyright', 'source_data']}
                          for c in A['contributors']]}
    for k in ['keywords', 'revision', 'subject', 'title']:
        P[k] = A[k] or None

    def dt(s):
        # the instant as written: year .. second (zone designator and fraction do not change these fields)
        import re
        m = re.match(r'^\s*(\d{4})-?(\d{2})-?(\d{2})(?:[T ](\d{2}):?(\d{2}):?(\d{2}))?', s)
        return [int(x) if x is not None else 0 for x in m.groups()]
    P['created'] = dt(A['created'])
    P['modified'] = dt(A['modified'])
    if A['unit'] is not None:
        P['unitname'] = A['unit'][0]
        P['unitmeter'] = fkey(A['unit'][1])
    if A['up_axis'] is not None:
        P['upaxis'] = A['up_axis']
    return P


def animation_sources(A):
    out = list(A['sources'])
    for c in A['children']:
        out.extend(animation_sources(c))
    return out


def animation_pattern(A, top=True):
    """a top-level animation's sourceById holds exactly the sources declared inside that <animation> and its
    nested animations - with their own values, nothing from a sibling animation; a nested animation's holds at
    least its own (pycollada lets it share its parent's dict)"""
    if top:
        srcs = Exact([[s['id'], source_pattern(s, shape=False)] for s in animation_sources(A)])
    else:
        srcs = Subset([[s['id'], source_pattern(s, shape=False)] for s in A['sources']])
    P = {'sources': srcs, 'children': [animation_pattern(c, top=False) for c in A['children']]}
    if A['id'] is not None:
        P['id'] = A['id']
    if A['name'] is not None:
        P['name'] = A['name']
    return P


def controller_pattern(C):
    byid = {s['id']: s for s in C['sources']}
    if C['kind'] == 'skin':
        P = {'id': C['id'], 'kind': 'Skin', 'geometry': {'id': C['geometry'], 'same': True},
             'sources': Subset([[s['id'], source_pattern(s, shape=False)] for s in C['sources']])}
        if C['bind_shape_matrix'] is not None:
            P['bind_shape_matrix'] = [fkey(t) for t in C['bind_shape_matrix']]
        names = byid[C['joint_source']]['tokens']
        mats = [fk0(t) for t in byid[C['matrix_source']]['tokens']]
        P['joint_matrices'] = [[nme, mats[16 * i:16 * i + 16]] for i, nme in enumerate(names)]
        P['weights'] = [fk0(t) for t in byid[C['weight_source']]['tokens']]
        P['weight_joints'] = list(names)
        P['vcounts'] = list(C['vcount'])
        nind = max(C['joint_offset'], C['weight_offset']) + 1
        ji, wi, at = [], [], 0
        for c in C['vcount']:
            ji.append([C['v'][(at + j) * nind + C['joint_offset']] for j in range(c)])
            wi.append([C['v'][(at + j) * nind + C['weight_offset']] for j in range(c)])
            at += c
        P['joint_index'] = ji
        P['weight_index'] = wi
        return P
    tg = byid[C['target_source']]['tokens']
    wt = byid[C['weight_source']]['tokens']
    return {'id': C['id'], 'kind': 'Morph', 'source_geometry': {'id': C['geometry'], 'same': True},
            'targets': [[{'id': g, 'same': True}, fk0(w)] for g, w in zip(tg, wt)]}


# --------------------------------------------------------------------------- scene graph

def node_pattern(N):
    P = {'type': 'Node', 'id': N['id'], 'name': N['name'] if N['name'] is not None else N['id'],
         'transforms': [], 'children': []}
    for it in N['items']:
        t = it['t']
        if t == 'transform':
            P['transforms'].append({'kind': it['kind'], 'params': [fkey(x) for x in it['tokens']]})
        elif t == 'node':
            P['children'].append(node_pattern(it['node']))
        elif t in ('geometry', 'controller'):
            P['children'].append({'type': 'GeometryNode' if t == 'geometry' else 'ControllerNode',
                                  'target': {'id': it['url'], 'same': True},
                                  'materials': [{'symbol': m['symbol'], 'target': {'id': m['target'], 'same': True},
                                                 'inputs': [list(b) for b in m['binds']]} for m in it['materials']]})
        elif t == 'light':
            P['children'].append({'type': 'LightNode', 'target': {'id': it['url'], 'same': True}})
        elif t == 'camera':
            P['children'].append({'type': 'CameraNode', 'target': {'id': it['url'], 'same': True}})
        elif t == 'instance_node':
            P['children'].append({'type': 'NodeNode', 'target': {'id': it['url'], 'same': True}})
        elif t == 'extra':
            P['children'].append({'type': 'ExtraNode'})
    return P


def inst_refs(N):
    out = []
    for it in N['items']:
        if it['t'] == 'instance_node':
            out.append(it['url'])
        elif it['t'] == 'node':
            out.extend(inst_refs(it['node']))
    return out


def library_node_order(nodes):
    """the nodes of one <library_nodes> are listed in document order (since /repo e99e57c also when a node
    that instantiates a later one had to wait for it); a node whose instance_node never resolves is not loaded"""
    loaded, pending = set(), list(nodes)
    progress = True
    while pending and progress:
        progress = False
        nxt = []
        for n in pending:
            if all(r in loaded for r in inst_refs(n)):
                loaded.add(n['id'])
                progress = True
            else:
                nxt.append(n)
        pending = nxt
    return [n for n in nodes if n['id'] in loaded]


def bound_pattern(scene, D):
    """the geometry instances a traversal of the scene meets, in order (children in document order, an
    instance_node standing for the node it names), each with the material and vertex-input map its
    <instance_material> elements give to every primitive of the geometry (by material symbol; the last
    instance_material / bind_vertex_input of a name wins)"""
    geoms = {g['id']: g for g in D['geometries']}
    named = {n['id']: n for n in D['nodes'] if n['id']}
    named.update({n['id']: n for n in scene['nodes'] if n['id']})
    out = []

    def walk(N, depth=0):
        if depth > 50:
            return
        for it in N['items']:
            if it['t'] == 'node':
                walk(it['node'], depth + 1)
            elif it['t'] == 'instance_node':
                walk(named[it['url']], depth + 1)
            elif it['t'] == 'geometry':
                bysym = {}
                for m in it['materials']:
                    bysym[m['symbol']] = m
                prims = []
                for p in geoms[it['url']]['prims']:
                    m = bysym.get(p['material']) if p['material'] is not None else None
                    if m is None:
                        prims.append({'material': None, 'inputmap': None})
                    else:
                        im = {}
                        for sem, insem, st in m['binds']:
                            im[sem] = [sem, insem, st]
                        prims.append({'material': m['target'], 'inputmap': sorted(im.values(), key=repr)})
                out.append({'geometry': it['url'], 'prims': prims})
    for n in scene['nodes']:
        walk(n)
    return out


def expected(D):
    P = {'errors': [], 'asset': asset_pattern(D['asset'])}
    P['images'] = [{'id': i['id'], 'path': Text(i['path'])} for i in D['images']]
    P['effects'] = [effect_pattern(e) for e in D['effects']]
    P['materials'] = [{'id': m['id'], 'name': m['name'], 'effect': {'id': m['effect'], 'same': True}} for m in D['materials']]
    P['animations'] = [animation_pattern(a) for a in D['animations']]
    P['geometries'] = [geometry_pattern(g) for g in D['geometries']]
    P['controllers'] = [controller_pattern(c) for c in D['controllers']]
    P['lights'] = [light_pattern(x) for x in D['lights']]
    P['cameras'] = [camera_pattern(x) for x in D['cameras']]
    P['nodes'] = [node_pattern(n) for n in library_node_order(D['nodes'])]
    P['scenes'] = [{'id': s['id'], 'nodes': [node_pattern(n) for n in s['nodes']], 'bound_geometries': bound_pattern(s, D)}
                   for s in D['scenes']]
    P['scene'] = {'id': D['scene'], 'same': True} if D['scene'] is not None else None
    return P


def compare(pat, got, path='', out=None, limit=8):
    """differences between a pattern and a snapshot: list of (path, expected, got)"""
    if out is None:
        out = []
    if len(out) >= limit or pat is Any:
        return out
    if isinstance(pat, Text):
        if not pat.matches(got):
            out.append((path, pat.value, got))
        return out
    if isinstance(pat, Exact):
        have = {}
        if isinstance(got, list):
            for kv in got:
                have[kv[0]] = kv[1]
        want = dict((k, v) for k, v in pat.items)
        for k in have:
            if k not in want:
                out.append((path + '/' + str(k), 'absent (not declared inside this element)', 'present'))
        for k, v in want.items():
            if k not in have:
                out.append((path + '/' + str(k), 'present', 'missing'))
            else:
                compare(v, have[k], path + '/' + str(k), out, limit)
        return out
    if isinstance(pat, Subset):
        have = {}
        if isinstance(got, list):
            for kv in got:
                have[kv[0]] = kv[1]
        for k, v in pat.items:
            if k not in have:
                out.append((path + '/' + str(k), 'present', 'missing'))
            else:
                compare(v, have[k], path + '/' + str(k), out, limit)
        return out
    if isinstance(pat, dict):
        if not isinstance(got, dict):
            out.append((path, pat if len(repr(pat)) < 200 else 'object', got if len(repr(got)) < 200 else type(got).__name__))
            return out
        for k, v in pat.items():
            if k not in got:
                out.append((path + '/' + k, v, 'absent'))
            else:
                compare(v, got[k], path + '/' + k, out, limit)
        return out
    if isinstance(pat, list):
        if not isinstance(got, list) or len(got) != len(pat):
            out.append((path + '/#len', len(pat), len(got) if isinstance(got, list) else repr(got)[:80]))
            return out
        for i, (a, b) in enumerate(zip(pat, got)):
            compare(a, b, '%s/%d' % (path, i), out, limit)
        return out
    if pat != got:
        out.append((path, pat, got if len(repr(got)) < 200 else repr(got)[:200]))
    return out


def clause_of(path):
    """the clause of the property a differing path belongs to (for narrow, stable signatures)"""
    parts = [p for p in path.split('/') if p and not p.isdigit()]
    if not parts:
        return 'document'
    head = parts[0]
    if head == 'geometries':
        if 'prims' in parts:
            last = parts[-1].lstrip('#')
            for key in ('vertex_index', 'normal_index', 'texcoord_indexset', 'textangent_indexset', 'texbinormal_indexset',
                        'vertex', 'normal', 'texcoordset', 'textangentset', 'texbinormalset', 'sources', 'material',
                        'vcounts', 'polystarts', 'polyends', 'nindices', 'kind'):
                if key in parts:
                    return 'primitive-' + key
            return 'primitive-' + last
        if 'sources' in parts:
            for key in ('components', 'data', 'shape', 'vertices'):
                if key in parts:
                    return 'source-' + key
            return 'source'
        return 'geometry-' + parts[-1]
    if head in ('nodes', 'scenes'):
        if 'bound_geometries' in parts:
            return 'scene-bound-material' if ('material' in parts or 'inputmap' in parts) else 'scene-bound-geometries'
        for key in ('transforms', 'target', 'materials', 'name', 'id', 'children'):
            if key in parts:
                return 'node-' + key
        return 'node'
    return head + ('-' + parts[-1].lstrip('#') if len(parts) > 1 else '')
