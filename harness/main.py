import importlib
import json
import os
import sys

from harness import core


def main(argv):
    if not argv:
        print('usage: ./check <ID> [quick|thorough] [--replay path]')
        return 2
    pid = argv[0].upper()
    tier = os.environ.get('VERIF_TIER', 'quick')
    replay = None
    i = 1
    while i < len(argv):
        a = argv[i]
        if a in ('quick', 'thorough'):
            tier = a
        elif a == '--replay':
            replay = argv[i + 1]
            i += 1
        i += 1
    seed = int(os.environ.get('VERIF_SEED', '20260930'))
    try:
        mod = importlib.import_module('harness.props.' + pid.lower())
    except ImportError as e:
        print('no check for %s: %r' % (pid, e))
        return 2
    ctx = core.Ctx(pid, tier, seed)
    try:
        if replay:
            body = json.load(open(replay))
            return mod.replay(ctx, body)
        return mod.run(ctx)
    finally:
        ctx.close()


if __name__ == '__main__':
    sys.exit(main(sys.argv[1:]))
