"""Writes /verif/MANIFEST.json from the table below (kept valid at all times)."""
import json
import os

VERIF = os.path.dirname(os.path.dirname(os.path.abspath(__file__)))

# pid -> (technique, level text, level note, design section)
CLAIMED = {
    'C14': ('Coq proof: list+dict refinement to a plain list, invariant by induction over op histories; the step function interprets '
            'per-mutator programs regenerated from class IndexedList by a fail-closed translator; step-by-step correspondence',
            'Machine-checked theorems over a Gallina interpreter of per-mutator programs that are regenerated from the source of '
            'collada.util.IndexedList on every build (one instruction per Python statement, in source order: position resolution, '
            'argument materialisation, the list operation, the index update, caught exception classes). The interpreter is proved equal '
            'to a hand-written reading of the mutators, and for it: the dict/list coherence invariant (the id maps to the last object of '
            'the list carrying it) is preserved by every mutator and holds in every reachable state (induction over histories, any '
            'length, colliding ids, bulk/lazy/failing argument forms), the list component behaves as a plain list, failed operations are '
            'no-ops, look-ups never escape. The model is additionally tied to the code by running both on the same histories and '
            'comparing every step inside Coq; a direct oracle evaluates the property clauses on the implementation (also on every list '
            'object the attribute ever returned, with falsy elements, with another document\'s live list adopted, and on histories run '
            'without any look-up between operations; the answers must also be determined by the contents: a library list with the '
            'same objects in the same order answers every key alike).',
            'Trusts the Coq kernel/vm_compute, the translator\'s statement forms and the interpreter\'s semantics of each instruction '
            '(checked by correspondence on every run), the harness. Slices and sort() are outside the property\'s operation list; '
            'histories without intermediate look-ups are oracle-only.',
            '7/C14 and 12'),
}

NOT_YET = {}


def main():
    props = [json.loads(l) for l in open(os.path.join(VERIF, 'properties.jsonl'))]
    extra = {'claimed': {}, 'not_applicable': {}}
    d = os.path.join(VERIF, 'harness', 'manifest.d')
    if os.path.isdir(d):
        for fn in sorted(os.listdir(d)):
            if fn.endswith('.json'):
                e = json.load(open(os.path.join(d, fn)))
                pid = fn[:-5]
                if 'not_applicable' in e:
                    extra['not_applicable'][pid] = e['not_applicable']
                else:
                    extra['claimed'][pid] = [e['technique'], e['level_text'], e['level_note'], e['design_ref']]
    checks, na = [], []
    for pr in props:
        pid = pr['id']
        ent = extra.get('claimed', {}).get(pid) or CLAIMED.get(pid)
        if ent:
            tech, text, note, ref = ent
            checks.append({
                'property_id': pid,
                'quick_cmd': './check %s quick' % pid,
                'thorough_cmd': './check %s thorough' % pid,
                'evidence_file': '/verif/evidence/%s.json' % pid,
                'replay_cmd_template': './check %s --replay {path}' % pid,
                'engine': 'coq-proof+correspondence',
                'level_claimed': {'category': 'proof', 'text': text, 'design_ref': 'DESIGN.md section ' + ref},
                'level_note': note,
                'technique': tech,
            })
        else:
            na.append({'property_id': pid,
                       'reason': extra.get('not_applicable', {}).get(pid, 'check not built yet in this session (planned: DESIGN.md section 7/%s); not claimed until its Coq model, theorems and correspondence run' % pid)})
    m = {
        'version': 1,
        'setup_cmd': './setup.sh',
        'hooks': {'guard': 'PYCOLLADA_VERIF', 'enable': 'environment variable PYCOLLADA_VERIF=1 (set by the harness; no hook code exists in /repo)',
                  'baseline_off_cmd': 'cd /repo && env -u PYCOLLADA_VERIF /venv/bin/python -m pytest -ra -q -p no:cacheprovider --timeout=900 --continue-on-collection-errors',
                  'source_commits': [], 'add_only': True},
        'engines': [{'name': 'coq-proof+correspondence', 'path': '/verif/coq',
                     'serves_properties': [c['property_id'] for c in checks],
                     'kind_free_text': 'Coq 8.16.1 development (Model/Proofs/Properties/Check) + Python harness that runs the implementation '
                                       'and evaluates the model on the same inputs inside coqc (Eval vm_compute)'}],
        'checks': checks,
        'notes': 'See DESIGN.md. Repairs of genuine defects are "fix:" commits in /repo, recorded in known_findings.json.',
        'not_applicable': na,
    }
    with open(os.path.join(VERIF, 'MANIFEST.json'), 'w') as f:
        json.dump(m, f, indent=1)
    print('MANIFEST.json: %d checks, %d not claimed' % (len(checks), len(na)))


if __name__ == '__main__':
    main()
