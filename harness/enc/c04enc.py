"""C04: encoder of written documents for the in-Coq schema validator, lexical classification of
strings (the only place where strings are looked at), xmllint driver, document shrinker.
Trusted base of C04 (cross-validated against xmllint on every run when xmllint exists)."""
import json
import os
import re
import shutil
import subprocess
import tempfile
import xml.etree.ElementTree as ET

from harness.enc.atoms import FIXED, DYN_BASE, NS_141, Interner
from harness.enc.xml2coq import Enc

VERIF = os.path.dirname(os.path.dirname(os.path.dirname(os.path.abspath(__file__))))
XSI = 'http://www.w3.org/2001/XMLSchema-instance'

INT_RE = re.compile(r'^[+-]?[0-9]+$')      # ASCII digits only (\\d would take any Unicode digit)
XSD_DOUBLE_RE = re.compile(r'^([+-]?([0-9]+\.?[0-9]*([eE][+-]?[0-9]+)?|\.[0-9]+([eE][+-]?[0-9]+)?)|NaN|-?INF)$')
_START = ('A-Za-z_\u00C0-\u00D6\u00D8-\u00F6\u00F8-\u02FF\u0370-\u037D\u037F-\u1FFF\u200C-\u200D'
          '\u2070-\u218F\u2C00-\u2FEF\u3001-\uD7FF\uF900-\uFDCF\uFDF0-\uFFFD')
_CHAR = _START + '0-9.\\-\u00B7\u0300-\u036F\u203F-\u2040'
NCNAME_RE = re.compile('^[%s][%s]*$' % (_START, _CHAR))
NAME_RE = re.compile('^[:%s][:%s]*$' % (_START, _CHAR))
NMTOKEN_RE = re.compile('^[:%s]+$' % _CHAR)
DATETIME_RE = re.compile(r'^-?(\d{4,})-(\d\d)-(\d\d)T(\d\d):(\d\d):(\d\d)(\.\d+)?(Z|[+-](\d\d):(\d\d))?$')
HEX_RE = re.compile(r'^([0-9a-fA-F]{2})*$')
URI_CHARS_RE = re.compile(r"^([^%#]|%[0-9A-Fa-f]{2})*$")

LX = {'NCName': 0, 'Name': 1, 'NMTOKEN': 2, 'dateTime': 3, 'anyURI': 4, 'double': 5, 'boolean': 6,
      'hexBinary': 7, 'hash': 8, 'fragURI': 9}


def is_datetime(c):
    m = DATETIME_RE.match(c)
    if not m:
        return False
    y, mo, d, h, mi, s = (int(m.group(i)) for i in range(1, 7))
    if y == 0 or not 1 <= mo <= 12 or mi > 59 or s > 59:
        return False
    dim = [31, 29 if (y % 4 == 0 and (y % 100 != 0 or y % 400 == 0)) else 28, 31, 30, 31, 30, 31, 31, 30, 31, 30, 31][mo - 1]
    if not 1 <= d <= dim:
        return False
    if h > 24 or (h == 24 and (mi or s or m.group(7))):
        return False
    if m.group(9) is not None and (int(m.group(9)) > 14 or int(m.group(10)) > 59 or (int(m.group(9)) == 14 and int(m.group(10)))):
        return False
    return True


def is_anyuri(c):
    """what libxml2 accepts as xs:anyURI (calibrated with xmllint on every printable ASCII
    character in four positions): it escapes the characters a URI may not contain before
    parsing, so what is left to reject is a malformed %-escape, a second '#', a square bracket
    outside the fragment, and a colon in the first path segment that does not end a scheme"""
    if c.count('#') > 1:
        return False
    main, _, frag = c.partition('#')
    if not URI_CHARS_RE.match(main) or not URI_CHARS_RE.match(frag):
        return False
    if '[' in main or ']' in main:
        return False
    first = re.split(r'[/?]', main, 1)[0]
    if ':' in first and not re.match(r'^[A-Za-z][A-Za-z0-9+.\-]*:', first):
        return False
    return True


def lex_flags(s):
    c = ' '.join(s.split())
    f = 0
    if NCNAME_RE.match(c):
        f |= 1 << LX['NCName']
    if NAME_RE.match(c):
        f |= 1 << LX['Name']
    if NMTOKEN_RE.match(c):
        f |= 1 << LX['NMTOKEN']
    if is_datetime(c):
        f |= 1 << LX['dateTime']
    if is_anyuri(c):
        f |= 1 << LX['anyURI']
    if XSD_DOUBLE_RE.match(c):
        f |= 1 << LX['double']
    if c in ('true', 'false', '0', '1'):
        f |= 1 << LX['boolean']
    if HEX_RE.match(c):
        f |= 1 << LX['hexBinary']
    if c.startswith('#'):
        f |= 1 << LX['hash']
    if is_anyuri('#' + c):
        f |= 1 << LX['fragURI']
    return f


_SCHEMA_ATOMS = None


def schema_atoms():
    global _SCHEMA_ATOMS
    if _SCHEMA_ATOMS is None:
        p = os.path.join(VERIF, 'coq', 'Gen', 'Schema141.atoms.json')
        _SCHEMA_ATOMS = json.load(open(p))['atoms']
    return _SCHEMA_ATOMS


class Interner04(Interner):
    """fixed vocabulary, then the schema's own names (Gen/Schema141.atoms.json), then per-case atoms"""

    def atom(self, s):
        if s in FIXED:
            return FIXED[s]
        sa = schema_atoms()
        if s in sa:
            return sa[s]
        return Interner.atom(self, s)


class Enc04(Enc):
    """Differences with the shared encoder, all on the side of what an XSD processor sees:
    values are whitespace-trimmed before classification, NaN/INF (exact case) are numbers and
    nan/inf are words, xsi:* attributes are skipped, text found between children (tails) is
    added to the parent's text, and every string used as a value is recorded for the lexical
    table."""

    def __init__(self):
        Enc.__init__(self, Interner04())
        self.values = {}     # atom -> string, of every string that occurs as a value

    def word(self, s):
        a = self.I.atom(s)
        self.values[a] = s
        return a

    def aval(self, v):
        # integers and references are whitespace-collapsed types; any other string keeps its blanks
        # (an enumeration over xs:string is compared exactly), its lexical flags are those of the
        # collapsed string
        t = v.strip()
        if t.startswith('#') and len(t) > 1 and not any(c.isspace() for c in t):
            return '(ARef true %d%%N)' % self.word(t[1:])
        if INT_RE.match(t):
            return '(AInt (%d)%%Z)' % int(t)
        return '(AStr %d%%N)' % self.word(v)

    def toks(self, text):
        if text is None:
            return 'None'
        out = []
        for t in text.split():
            if INT_RE.match(t):
                out.append('TInt (%d)%%Z' % int(t))
            elif XSD_DOUBLE_RE.match(t):
                out.append('TNum %d%%N' % self.num(t))
            else:
                out.append('TWord %d%%N' % self.word(t))
        return '(Some [' + '; '.join(out) + '])'

    def element(self, e):
        self.uid += 1
        uid = self.uid
        ns, local = self.split_tag(e.tag)
        attrs = []
        for k, v in e.attrib.items():
            kns, kl = self.split_tag(k)
            if kns == XSI:
                continue
            attrs.append('(%d%%N, %s)' % (self.I.atom(kl), self.aval(v)))
        kids = [c for c in e if isinstance(c.tag, str)]
        text = e.text
        tails = ' '.join(c.tail for c in e if c.tail and c.tail.strip())
        if tails:
            text = (text or '') + ' ' + tails
        return '(El %d%%N %d%%N %d%%N [%s] %s [%s])' % (uid, self.I.atom(ns), self.I.atom(local), '; '.join(attrs),
                                                      self.toks(text), '; '.join(self.element(c) for c in kids))

    def lex_table(self):
        return '[' + '; '.join('(%d%%N, %d%%N)' % (a, lex_flags(s)) for a, s in sorted(self.values.items())) + ']'


def encode_doc(data):
    """bytes -> (Coq term of the lexical table, Coq term of the tree, encoder)"""
    enc = Enc04()
    root = ET.fromstring(data)
    term = enc.element(root)
    return enc.lex_table(), term, enc


# --------------------------------------------------------------------------- xmllint

def find_xmllint():
    if os.environ.get('VERIF_NO_XMLLINT'):      # to exercise the configuration without xmllint
        return None
    for c in (shutil.which('xmllint'), '/root/miniconda/bin/xmllint', '/usr/bin/xmllint'):
        if c and os.path.exists(c):
            return c
    return None


class Xmllint:
    def __init__(self, repo, scratch):
        self.exe = find_xmllint()
        self.schema = os.path.join(repo, 'collada', 'resources', 'schema-1.4.1.xml')
        self.dir = tempfile.mkdtemp(prefix='xmllint-', dir=scratch)
        self.catalog = os.path.join(self.dir, 'catalog.xml')
        xsd = os.path.join(repo, 'collada', 'resources', 'xsd.xml')
        with open(self.catalog, 'w') as f:
            f.write('<?xml version="1.0"?>\n<catalog xmlns="urn:oasis:names:tc:entity:xmlns:xml:catalog">\n'
                    '<uri name="http://www.w3.org/2001/03/xml.xsd" uri="file://%s"/>\n'
                    '<system systemId="http://www.w3.org/2001/03/xml.xsd" uri="file://%s"/>\n</catalog>\n' % (xsd, xsd))
        self.n = 0

    def available(self):
        return self.exe is not None

    def validate_all(self, docs, jobs=8):
        """validate_many over several xmllint processes at once (order preserved)"""
        from concurrent.futures import ThreadPoolExecutor
        chunks = [docs[i:i + 40] for i in range(0, len(docs), 40)]
        subs = [Xmllint.__new__(Xmllint) for _ in chunks]
        for k, x in enumerate(subs):
            x.exe, x.schema, x.catalog, x.n = self.exe, self.schema, self.catalog, 0
            x.dir = tempfile.mkdtemp(prefix='p%d-' % k, dir=self.dir)
        with ThreadPoolExecutor(max_workers=jobs) as ex:
            outs = list(ex.map(lambda a: a[0].validate_many(a[1]), zip(subs, chunks)))
        return [r for o in outs for r in o]

    def validate_many(self, docs):
        """docs: list of bytes -> list of (valid: bool, first error line).  One xmllint process per
        batch of files (the schema is compiled once per process)."""
        res = []
        B = 40
        for s in range(0, len(docs), B):
            paths = []
            for d in docs[s:s + B]:
                self.n += 1
                p = os.path.join(self.dir, 'd%06d.dae' % self.n)
                with open(p, 'wb') as f:
                    f.write(d)
                paths.append(p)
            env = dict(os.environ)
            env['XML_CATALOG_FILES'] = self.catalog
            r = subprocess.run([self.exe, '--nonet', '--noout', '--schema', self.schema] + paths,
                               capture_output=True, text=True, env=env, timeout=600)
            verdict = {}
            firsterr = {}
            for line in r.stderr.split('\n'):
                for p in paths:
                    if line.startswith(p):
                        rest = line[len(p):]
                        if rest.strip() == 'validates':
                            verdict[p] = True
                        elif rest.strip() == 'fails to validate':
                            verdict[p] = False
                        elif p not in firsterr:
                            firsterr[p] = rest.strip()[:300]
                        break
            if 'failed to compile' in r.stderr or 'WXS schema' in r.stderr and 'failed' in r.stderr:
                raise RuntimeError('xmllint could not compile the schema: ' + r.stderr[-400:])
            for p in paths:
                if p not in verdict:
                    # not well-formed documents get neither line
                    verdict[p] = False
                    firsterr.setdefault(p, 'no verdict line (not well-formed?) ' + r.stderr[-200:])
                res.append((verdict[p], firsterr.get(p, '')))
                os.unlink(p)
        return res


# --------------------------------------------------------------------------- bookkeeping (Python oracle)

PRIMS = ('triangles', 'lines', 'polylist', 'polygons', 'tristrips', 'trifans', 'linestrips')
ARRAYS = ('float_array', 'int_array', 'bool_array', 'Name_array', 'IDREF_array')


def _t(name):
    return '{%s}%s' % (NS_141, name)


def _ntok(e):
    return len((e.text or '').split())


def _uint(s):
    try:
        v = int(s)
        return v if v >= 0 else None
    except (TypeError, ValueError):
        return None


def book_fails(data):
    """The bookkeeping clauses of C04 evaluated directly on written bytes.  Returns a list of
    (clause, site, detail).  Clauses: array-count, accessor (count*stride = values, stride =
    number of params, source = the array), prim-count, unique-ids, vertex-input."""
    root = ET.fromstring(data)
    fails = []
    ids = {}
    for e in root.iter():
        if isinstance(e.tag, str) and e.get('id') is not None:
            ids.setdefault(e.get('id'), []).append(e.tag.split('}')[-1])
    for k, v in ids.items():
        if len(v) > 1:
            fails.append(('unique-ids', '+'.join(sorted(v)), 'id %r carried by %s' % (k, v)))
    for mesh in root.iter(_t('mesh')):
        vids = {v.get('id') for v in mesh.findall(_t('vertices'))}
        for src in mesh.findall(_t('source')):
            arrays = [a for a in src if a.tag.split('}')[-1] in ARRAYS]
            for a in arrays:
                if _uint(a.get('count')) != _ntok(a):
                    fails.append(('array-count', a.tag.split('}')[-1], 'count=%r but %d values (source %r)' % (a.get('count'), _ntok(a), src.get('id'))))
            acc = src.find('%s/%s' % (_t('technique_common'), _t('accessor')))
            if acc is not None and len(arrays) == 1:
                a = arrays[0]
                c, s = _uint(acc.get('count')), _uint(acc.get('stride', '1'))
                np_ = len(acc.findall(_t('param')))
                if acc.get('source') != '#' + (a.get('id') or ''):
                    fails.append(('accessor', 'source', 'accessor source %r does not point at the array %r' % (acc.get('source'), a.get('id'))))
                if c is None or s is None or c * s != _ntok(a):
                    fails.append(('accessor', 'count-stride', 'count=%r stride=%r but %d values (source %r)' % (acc.get('count'), acc.get('stride'), _ntok(a), src.get('id'))))
                if s != np_:
                    fails.append(('accessor', 'stride-params', 'stride=%r but %d params (source %r)' % (acc.get('stride'), np_, src.get('id'))))
        for p in mesh:
            kind = p.tag.split('}')[-1]
            if kind not in PRIMS:
                continue
            inputs = p.findall(_t('input'))
            offs = [_uint(i.get('offset')) for i in inputs]
            nind = (max([o for o in offs if o is not None]) + 1) if [o for o in offs if o is not None] else 1
            count = _uint(p.get('count'))
            ps = p.findall(_t('p'))
            np_tok = sum(_ntok(x) for x in ps)
            if kind in ('triangles', 'lines'):
                per = 3 if kind == 'triangles' else 2
                if count is None or count * per * nind != np_tok:
                    fails.append(('prim-count', kind, 'count=%r, %d indices, %d inputs offsets -> expected %d*%d*%d' % (p.get('count'), np_tok, nind, count or 0, per, nind)))
            elif kind == 'polylist':
                vc = p.find(_t('vcount'))
                vcs = [int(x) for x in (vc.text or '').split()] if vc is not None else []
                if count != len(vcs):
                    fails.append(('prim-count', 'polylist-vcount', 'count=%r but %d vcount entries' % (p.get('count'), len(vcs))))
                if sum(vcs) * nind != np_tok:
                    fails.append(('prim-count', 'polylist-indices', 'sum(vcount)=%d, %d offsets, %d indices' % (sum(vcs), nind, np_tok)))
            else:
                nph = len(ps) + len(p.findall(_t('ph')))
                if count != nph:
                    fails.append(('prim-count', kind, 'count=%r but %d <p>' % (p.get('count'), nph)))
            for i in inputs:
                if i.get('semantic') == 'VERTEX':
                    s = i.get('source') or ''
                    if not s.startswith('#') or s[1:] not in vids:
                        fails.append(('vertex-input', kind, 'VERTEX input source %r is not a <vertices> of this mesh' % s))
    return fails


# --------------------------------------------------------------------------- shrinking loaded documents

def shrink_dae(data, keep=4):
    """Cut the primitives of a document down to `keep` items and the sources down to the rows still
    indexed, so that the encoded term stays small for coqc.  Schema validity and bookkeeping of
    the input are preserved (the result is validated again before it is used)."""
    ET.register_namespace('', NS_141)
    root = ET.fromstring(data)
    for mesh in root.iter(_t('mesh')):
        srcs = {s.get('id'): s for s in mesh.findall(_t('source'))}
        verts = {}
        for v in mesh.findall(_t('vertices')):
            verts[v.get('id')] = [i.get('source', '')[1:] for i in v.findall(_t('input'))]
        need = {}
        for p in mesh:
            kind = p.tag.split('}')[-1]
            if kind not in PRIMS:
                continue
            inputs = p.findall(_t('input'))
            nind = max(int(i.get('offset')) for i in inputs) + 1
            rows = []
            ps = p.findall(_t('p'))
            if kind in ('triangles', 'lines'):
                per = 3 if kind == 'triangles' else 2
                toks = (ps[0].text or '').split() if ps else []
                n = min(keep, len(toks) // (per * nind))
                toks = toks[:n * per * nind]
                if ps:
                    ps[0].text = ' '.join(toks)
                p.set('count', str(n))
                rows = toks
            elif kind == 'polylist':
                vc = p.find(_t('vcount'))
                vcs = (vc.text or '').split()[:keep]
                vc.text = ' '.join(vcs)
                toks = (ps[0].text or '').split()[:sum(int(x) for x in vcs) * nind]
                ps[0].text = ' '.join(toks)
                p.set('count', str(len(vcs)))
                rows = toks
            else:
                for extra_p in ps[keep:]:
                    p.remove(extra_p)
                ps = ps[:keep]
                for x in ps:
                    toks = (x.text or '').split()[:8 * nind]
                    x.text = ' '.join(toks)
                    rows += toks
                p.set('count', str(len(ps)))
            for i in inputs:
                off = int(i.get('offset'))
                mx = max([int(t) for t in rows[off::nind]] or [0])
                sid = i.get('source', '')[1:]
                for s in verts.get(sid, [sid]):
                    need[s] = max(need.get(s, 0), mx + 1)
        for sid, s in srcs.items():
            arr = next((a for a in s if a.tag.split('}')[-1] in ARRAYS), None)
            acc = s.find('%s/%s' % (_t('technique_common'), _t('accessor')))
            if arr is None or acc is None or acc.get('offset') not in (None, '0'):
                continue
            stride = int(acc.get('stride', '1'))
            n = min(max(need.get(sid, 1), 1), int(acc.get('count')))
            toks = (arr.text or '').split()[:n * stride]
            arr.text = ' '.join(toks)
            arr.set('count', str(len(toks)))
            acc.set('count', str(n))
    return ET.tostring(root, encoding='utf-8', xml_declaration=True)


def split_libraries(data):
    """Every library with two or more objects is split in two consecutive libraries of the same kind
    (a document may hold any number of libraries of a kind)."""
    ET.register_namespace('', NS_141)
    root = ET.fromstring(data)
    for lib in list(root):
        name = lib.tag.split('}')[-1]
        if not name.startswith('library_'):
            continue
        items = [c for c in lib if c.tag.split('}')[-1] not in ('asset', 'extra')]
        if len(items) < 2:
            continue
        new = ET.Element(lib.tag)
        for c in items[len(items) // 2:]:
            lib.remove(c)
            new.append(c)
        root.insert(list(root).index(lib) + 1, new)
    return ET.tostring(root, encoding='utf-8', xml_declaration=True)


def variants(data):
    """Every single-step structural neighbour of a document: one element duplicated next to itself
    (ids inside the copy made fresh), one element removed, one element emptied of its children,
    one attribute removed.  Yields (label, bytes); the caller keeps the schema-valid ones."""
    import copy
    ET.register_namespace('', NS_141)
    root0 = ET.fromstring(data)
    n = sum(1 for _ in root0.iter())
    for idx in range(1, n):
        for kind in ('dup', 'drop', 'empty', 'attr'):
            root = copy.deepcopy(root0)
            parent = {c: p for p in root.iter() for c in p}
            e = list(root.iter())[idx]
            p = parent[e]
            tag = e.tag.split('}')[-1]
            if kind == 'dup':
                c = copy.deepcopy(e)
                for x in c.iter():
                    for a in ('id', 'sid'):
                        if x.get(a) is not None:
                            x.set(a, x.get(a) + '_copy')
                p.insert(list(p).index(e) + 1, c)
            elif kind == 'drop':
                p.remove(e)
            elif kind == 'empty':
                if len(e) == 0:
                    continue
                for c in list(e):
                    e.remove(c)
            else:
                if not e.attrib:
                    continue
                for a in sorted(e.attrib):
                    r2 = copy.deepcopy(root0)
                    e2 = list(r2.iter())[idx]
                    del e2.attrib[a]
                    yield '%s:%d:%s@%s' % (kind, idx, tag, a), ET.tostring(r2, encoding='utf-8', xml_declaration=True)
                continue
            yield '%s:%d:%s' % (kind, idx, tag), ET.tostring(root, encoding='utf-8', xml_declaration=True)
