"""Independent reading of XML bytes (xml.etree or minidom, never pycollada) into the Coq
`Base.Xml.xml` term.  Glue in the trusted base: ~100 lines.

Tokenisation: attribute values "#x" -> ARef true x ; decimal integer -> AInt ; every other
string -> AStr (ARef false is available to models that want to mark bare references).  Text is
split on whitespace: decimal integers -> TInt, other numbers -> TNum k (k indexes the case's
numeric table, keyed by the literal token), anything else -> TWord.  Absent text -> None,
whitespace-only text -> Some []."""
import re
import xml.dom.minidom
import xml.etree.ElementTree as ET

from harness.enc.atoms import Interner

INT_RE = re.compile(r'^[+-]?\d+$')
NUM_RE = re.compile(r'^[+-]?(\d+\.?\d*([eE][+-]?\d+)?|\.\d+([eE][+-]?\d+)?|nan|inf|infinity)$', re.I)


class Enc:
    def __init__(self, interner=None):
        self.I = interner or Interner()
        self.nums = {}      # literal token -> index
        self.uid = 0

    def num(self, token):
        if token not in self.nums:
            self.nums[token] = len(self.nums)
        return self.nums[token]

    def aval(self, v):
        if v.startswith('#') and len(v) > 1 and not any(c.isspace() for c in v):
            return '(ARef true %d%%N)' % self.I.atom(v[1:])
        if INT_RE.match(v):
            return '(AInt (%d)%%Z)' % int(v)
        return '(AStr %d%%N)' % self.I.atom(v)

    def toks(self, text):
        if text is None:
            return 'None'
        out = []
        for t in text.split():
            if INT_RE.match(t):
                out.append('TInt (%d)%%Z' % int(t))
            elif NUM_RE.match(t):
                out.append('TNum %d%%N' % self.num(t))
            else:
                out.append('TWord %d%%N' % self.I.atom(t))
        return '(Some [' + '; '.join(out) + '])'

    def split_tag(self, tag):
        if tag.startswith('{'):
            ns, local = tag[1:].split('}', 1)
        else:
            ns, local = '', tag
        return ns, local

    def element(self, e):
        """xml.etree element -> Coq term"""
        self.uid += 1
        uid = self.uid
        ns, local = self.split_tag(e.tag)
        attrs = '; '.join('(%d%%N, %s)' % (self.I.atom(self.split_tag(k)[1]), self.aval(v)) for k, v in e.attrib.items())
        kids = '; '.join(self.element(c) for c in e if isinstance(c.tag, str))
        return '(El %d%%N %d%%N %d%%N [%s] %s [%s])' % (uid, self.I.atom(ns), self.I.atom(local), attrs,
                                                      self.toks(e.text), kids)

    def dom_element(self, e):
        """xml.dom.minidom element -> Coq term (a tree builder other than pycollada's)"""
        self.uid += 1
        uid = self.uid
        ns = e.namespaceURI or ''
        local = e.localName
        attrs = []
        if e.attributes is not None:
            for i in range(e.attributes.length):
                a = e.attributes.item(i)
                if a.name == 'xmlns' or a.name.startswith('xmlns:'):
                    continue
                attrs.append('(%d%%N, %s)' % (self.I.atom(a.localName), self.aval(a.value)))
        text = None
        kids = []
        first = True
        for c in e.childNodes:
            if c.nodeType == c.ELEMENT_NODE:
                kids.append(self.dom_element(c))
                first = False
            elif c.nodeType in (c.TEXT_NODE, c.CDATA_SECTION_NODE) and first:
                text = (text or '') + c.data
        return '(El %d%%N %d%%N %d%%N [%s] %s [%s])' % (uid, self.I.atom(ns), self.I.atom(local), '; '.join(attrs),
                                                      self.toks(text), '; '.join(kids))


def encode_bytes(data, enc=None, reader='etree'):
    enc = enc or Enc()
    if reader == 'etree':
        root = ET.fromstring(data)
        return enc.element(root), enc
    dom = xml.dom.minidom.parseString(data)
    return enc.dom_element(dom.documentElement), enc
