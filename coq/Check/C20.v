(* Correspondence for C20.  The harness runs a schedule of load/edit/save steps over several
   documents in one process (sequentially, or one thread per document with barriers) and
   records, interned as atoms: the observation of every step (snapshot digest, recorded errors,
   exception, bytes written), a digest of the module-level state before and after every step,
   and the number of mutable objects reachable from two different documents.  Each document's
   steps are also run alone in a fresh process.  [case_ok] evaluates the projection comparison
   of C20_projection: the observations of document i in the schedule, in order, are those of
   its solo run; the global digest never changes; nothing mutable is shared. *)
From Coq Require Import List NArith Arith Bool.
From PC Require Import Model.Isolation.
Import ListNotations.

Definition obs := N.

Fixpoint list_eqb (a b : list N) : bool :=
  match a, b with
  | [], [] => true
  | x :: a', y :: b' => N.eqb x y && list_eqb a' b'
  | _, _ => false
  end.

(* ndocs, schedule with the observation of every step, solo observations per document,
   global digests (before, after) per step or barrier, shared mutable objects *)
Definition case := (nat * list (nat * obs) * list (list obs) * list (N * N) * nat)%type.

Definition projection_ok (ndocs : nat) (sc : list (nat * obs)) (solo : list (list obs)) : bool :=
  forallb (fun i => list_eqb (outputs_of i sc) (nth i solo [])) (seq 0 ndocs)
  && Nat.eqb (length solo) ndocs
  && forallb (fun x => Nat.ltb (fst x) ndocs) sc.

Definition global_ok (gs : list (N * N)) : bool :=
  match gs with
  | [] => true
  | (g0, _) :: _ => forallb (fun p => N.eqb (fst p) g0 && N.eqb (snd p) g0) gs
  end.

Definition case_ok (c : case) : bool :=
  let '(ndocs, sc, solo, gs, shared) := c in
  projection_ok ndocs sc solo && global_ok gs && Nat.eqb shared 0.

Fixpoint mismatches_from (i : nat) (cs : list case) : list nat :=
  match cs with
  | [] => []
  | c :: r => if case_ok c then mismatches_from (S i) r else i :: mismatches_from (S i) r
  end.
Definition mismatches := mismatches_from 0.
