(* Correspondence for C20.  The harness runs a schedule of load/edit/save steps over several
   documents in one process (sequentially, or one thread per document with barriers) and
   records, interned as atoms: the observation of every step (snapshot digest, recorded errors,
   exception, bytes written), a digest of the module-level state before and after every step,
   and the number of mutable objects reachable from two different documents.  Each document's
   steps are also run alone in a fresh process.  [case_ok] evaluates the projection comparison
   of C20_projection: the observations of document i in the schedule, in order, are those of
   its solo run; the global digest never changes; nothing mutable is shared. *)
From Coq Require Import List NArith Arith Bool.
From PC Require Import Base.Outcome Base.Libs Model.Errors Model.Isolation Model.IsolationSteps.
Import ListNotations.

Definition obs := N.

Fixpoint list_eqb (a b : list N) : bool :=
  match a, b with
  | [], [] => true
  | x :: a', y :: b' => N.eqb x y && list_eqb a' b'
  | _, _ => false
  end.

(* the concrete step model of Model/IsolationSteps.v on the implementation's own data: for a
   document, the classes passed to its successive ignoreErrors calls (the load's `ignore` first) and
   the mask observed on the document afterwards *)
Definition mask_obs := (list (list dcls) * list dcls)%type.

Fixpoint dcls_list_eqb (a b : list dcls) : bool :=
  match a, b with
  | [], [] => true
  | x :: a', y :: b' => dcls_eqb x y && dcls_list_eqb a' b'
  | _, _ => false
  end.

Definition classes_of (m : mask) : list dcls :=
  flat_map (fun e => match e with MCls k => [k] | _ => [] end) m.

Definition mask_ok (m : mask_obs) : bool :=
  let ops := map (fun cs => OIgnore (IAdd (map MCls cs))) (fst m) in
  let d := fst (solo dstep (CG [] 0%N [] [] 1000 false) (CD [] [] 0%N []) ops) in
  dcls_list_eqb (classes_of (dm_mask d)) (snd m).

(* ndocs, schedule with the observation of every step, solo observations per document,
   global digests (before, after) per step or barrier, shared mutable objects, mask observations *)
Definition case := (nat * list (nat * obs) * list (list obs) * list (N * N) * nat * list mask_obs)%type.

Definition projection_ok (ndocs : nat) (sc : list (nat * obs)) (solo : list (list obs)) : bool :=
  forallb (fun i => list_eqb (outputs_of i sc) (nth i solo [])) (seq 0 ndocs)
  && Nat.eqb (length solo) ndocs
  && forallb (fun x => Nat.ltb (fst x) ndocs) sc.

Definition global_ok (gs : list (N * N)) : bool :=
  match gs with
  | [] => true
  | (g0, _) :: _ => forallb (fun p => N.eqb (fst p) g0 && N.eqb (snd p) g0) gs
  end.

Definition case_ok (c : case) : bool :=
  let '(ndocs, sc, solo, gs, shared, masks) := c in
  projection_ok ndocs sc solo && global_ok gs && Nat.eqb shared 0 && forallb mask_ok masks.

Fixpoint mismatches_from (i : nat) (cs : list case) : list nat :=
  match cs with
  | [] => []
  | c :: r => if case_ok c then mismatches_from (S i) r else i :: mismatches_from (S i) r
  end.
Definition mismatches := mismatches_from 0.
