(* Correspondence for C07: the harness generates a reference graph (libraries in some document
   order, objects with references - forward, repeated, cyclic, dangling, '#'-less), writes it as
   a COLLADA document, loads it with the implementation under several ignore masks and records
   what every loaded object is bound to (by object identity, as the index of the bound object's
   XML element).  [case_ok] runs the MODEL [load_doc] on the same graph and compares. *)
From Coq Require Import List Bool ZArith NArith.
From PC Require Import Base.Outcome Base.Libs Gen.Params Model.IndexedList Model.Errors Model.Refs.
Import ListNotations.

Fixpoint list_eqb {A} (eqb : A -> A -> bool) (a b : list A) : bool :=
  match a, b with
  | [], [] => true
  | x :: a', y :: b' => eqb x y && list_eqb eqb a' b'
  | _, _ => false
  end.

Definition bnd_eqb (a b : bnd) : bool :=
  match a, b with
  | BInst u ms, BInst v ns => N.eqb u v && list_eqb N.eqb ms ns
  | BNode u, BNode v => N.eqb u v
  | _, _ => false
  end.

Definition lnode_eqb (a b : lnode) : bool :=
  N.eqb (fst (fst a)) (fst (fst b)) && N.eqb (snd (fst a)) (snd (fst b)) && list_eqb bnd_eqb (snd a) (snd b).

Definition lscene_eqb (a b : lscene) : bool :=
  N.eqb (fst (fst a)) (fst (fst b)) && N.eqb (snd (fst a)) (snd (fst b)) && list_eqb lnode_eqb (snd a) (snd b).

Definition litem_eqb (a b : lib * lval) : bool :=
  lib_eqb (fst a) (fst b) && N.eqb (fst (fst (snd a))) (fst (fst (snd b))) &&
  N.eqb (snd (fst (snd a))) (snd (fst (snd b))) && list_eqb N.eqb (snd (snd a)) (snd (snd b)).

Definition group_items (l : list (lib * lval)) : list (lib * lval) :=
  flat_map (fun k => filter (fun v => lib_eqb (fst v) k) l) all_libs.

Definition strip_trailing (c : nat) (l : list nat) : list nat :=
  fold_right (fun x acc => match acc with
                           | [] => if Nat.eqb x c then [] else [x]
                           | _ => x :: acc
                           end) [] l.

(* the aborting error is recorded once per boundary it unwinds through: not modelled *)
Definition errs_agree (ab : option exn) (merrs errs : list nat) : bool :=
  match ab with
  | None => list_eqb Nat.eqb merrs errs
  | Some e => let c := exn_code e in
              list_eqb Nat.eqb (strip_trailing c merrs) (strip_trailing c errs) && Nat.eqb (last errs 0%nat) c
  end.

Definition opt_eqb (a b : option N) : bool :=
  match a, b with Some x, Some y => N.eqb x y | None, None => true | _, _ => false end.

(* what the implementation did under one mask *)
Record obs := Obs {
  o_mask : mask; o_esc : nat; o_errs : list nat;
  o_items : list (lib * lval); o_nodes : list lnode; o_scenes : list lscene; o_default : option N }.

Definition state_agrees (s : state) (ab : option exn) (o : obs) : bool :=
  Nat.eqb (match ab with None => 0%nat | Some e => exn_code e end) (o_esc o) &&
  errs_agree ab (map exn_code (st_errs s)) (o_errs o) &&
  list_eqb litem_eqb (group_items (st_items s)) (group_items (o_items o)) &&
  list_eqb lnode_eqb (st_nodes s) (o_nodes o) &&
  list_eqb lscene_eqb (st_scenes s) (o_scenes o) &&
  opt_eqb (st_default s) (o_default o).

Definition obs_ok (d : doc) (o : obs) : bool :=
  match load_doc (o_mask o) d with
  | Done s => state_agrees s None o
  | Aborted s x => state_agrees s (Some x) o
  | DOutOfFuel => false
  end.

Definition case := (doc * list obs)%type.
Definition case_ok (c : case) : bool := forallb (obs_ok (fst c)) (snd c).

Fixpoint mismatches_from (i : nat) (cs : list case) : list nat :=
  match cs with
  | [] => []
  | c :: r => if case_ok c then mismatches_from (S i) r else i :: mismatches_from (S i) r
  end.
Definition mismatches := mismatches_from 0%nat.
