(* Correspondence for C12.  A case is a scene (its root nodes, library nodes embedded at their
   instantiation points, every node matrix computed by the C13 model from the node's
   transform elements) and, for each of the four traversal kinds, what Scene.objects(kind)
   yielded, flattened to integers by the worker.  [expected] flattens the model's answer
   the same way; the document's libraries (geometries with their primitives, controllers,
   lights) are a table shared by the cases of a file. *)
From Coq Require Import List Bool ZArith NArith.
From PC Require Import Base.Py Base.Mat Gen.Transforms Gen.Bound Model.Transforms Model.Traverse.
Import ListNotations.

Definition zsnode := snode Z.
(* the matrix of a <node> from its transform children (tag, floats), as Node.load builds it *)
Definition nm (ts : list (nat * list Z)) : matZ := node_matrix zops (map (fun tf => TLoaded (fst tf) (snd tf)) ts).

(* primitive: library class (0 TriangleSet, 1 Polylist, 2 Polygons, 3 LineSet; the class that binds it is the
   generated primitive_bind_class of it), material
   symbol (0 = no material attribute), the vertex source, the normal source *)
Definition prim := (nat * N * list (vec3 Z) * option (list (vec3 Z)))%type.
Record lib := Lib {
  geoms : list (N * list prim);
  ctrls : list (N * (nat * list Z * N));      (* 0 skin / 1 morph, bind_shape_matrix, source geometry *)
  lights : list (N * nat);                    (* library class: 0 PointLight, 1 DirectionalLight, 2 SpotLight, 3 AmbientLight *)
  cams : list (N * nat) }.                    (* 0 PerspectiveCamera, 1 OrthographicCamera *)

Fixpoint lookup {A} (d : A) (l : list (N * A)) (k : N) : A :=
  match l with [] => d | (k', v) :: r => if N.eqb k k' then v else lookup d r k end.

Definition zn (n : nat) : Z := Z.of_nat n.
Definition flat3 (v : vec3 Z) : list Z := let '(a, b, c) := v in [a; b; c].
Definition optvec (o : option (vec3 Z)) : list Z := match o with None => [0%Z] | Some v => 1%Z :: flat3 v end.

Definition prim_flat (ctrl : bool) (M : matZ) (b : binds) (p : prim) : list Z :=
  let '(lc, sym, verts, normals) := p in
  let pk := primitive_bind_class lc in
  [match material_of ctrl pk b sym with Some m => Z.of_N m | None => 0%Z end; zn (length verts)]
  ++ flat_map (fun v => flat3 (bound_vertex zops pk M v)) verts
  ++ match normals with
     | None => [(-1)%Z]
     | Some ns => zn (length ns) :: flat_map (fun n => flat3 (bound_normal zops pk M n)) ns
     end.
Definition prims_flat (ctrl : bool) (M : matZ) (b : binds) (ps : list prim) : list Z :=
  zn (length ps) :: flat_map (prim_flat ctrl M b) ps.

Definition geom_flat (L : lib) (o : bound Z) : list Z :=
  let '(_, target, M, b) := o in
  Z.of_N target :: mat_to_list M ++ prims_flat false M b (lookup [] (geoms L) target).
Definition ctrl_flat (L : lib) (o : bound Z) : list Z :=
  let '(_, target, M, b) := o in
  let '(kind, bsm, g) := lookup (1%nat, [], 0%N) (ctrls L) target in
  Z.of_N target :: mat_to_list M ++
  match kind with
  | 0%nat => let Mg := skin_matrix zops M (zmat_of_list bsm) in
             1%Z :: mat_to_list Mg ++ prims_flat true Mg b (lookup [] (geoms L) g)
  | _ => [0%Z]
  end.
Definition cam_flat (L : lib) (o : bound Z) : list Z :=
  let '(_, target, M, _) := o in
  let '(pos, dir, up) := bound_camera zops (camera_bind_class (lookup 0%nat (cams L) target)) M in
  Z.of_N target :: mat_to_list M ++ flat3 pos ++ flat3 dir ++ flat3 up.
Definition light_flat (L : lib) (o : bound Z) : list Z :=
  let '(_, target, M, _) := o in
  let kind := lookup 3%nat (lights L) target in
  let '(pos, dir, up) := bound_light zops (light_bind_class kind) (0, 0, 0)%Z (0, 0, -1)%Z M in
  [Z.of_N target; zn (light_bind_class kind)] ++ optvec pos ++ optvec dir ++ optvec up.

Definition case := (list zsnode * list (list Z) * list (list Z) * list (list Z) * list (list Z))%type.

Fixpoint all_eqb (a b : list (list Z)) : bool :=
  match a, b with
  | [], [] => true
  | x :: a', y :: b' => list_eqbZ x y && all_eqb a' b'
  | _, _ => false
  end.

Definition case_ok (L : lib) (c : case) : bool :=
  let '(roots, og, oc, ok, ol) := c in
  all_eqb (map (geom_flat L) (scene_objects zops geometry_node_kind roots)) og &&
  all_eqb (map (ctrl_flat L) (scene_objects zops controller_node_kind roots)) oc &&
  all_eqb (map (cam_flat L) (scene_objects zops camera_node_kind roots)) ok &&
  all_eqb (map (light_flat L) (scene_objects zops light_node_kind roots)) ol.

Fixpoint mismatches_from (L : lib) (i : nat) (cs : list case) : list nat :=
  match cs with
  | [] => []
  | c :: r => if case_ok L c then mismatches_from L (S i) r else i :: mismatches_from L (S i) r
  end.
Definition mismatches (L : lib) := mismatches_from L 0.
