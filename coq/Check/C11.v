(* Correspondence for C11: the harness loads real documents with pycollada and records the
   resulting index arrays; [mismatches] runs the model on the same <p> streams / vcounts and
   returns the indices of the cases where model and implementation differ.
   A third kind of case ties [pyslice] to the Python runtime's own slicing. *)
From Coq Require Import List Bool ZArith NArith Arith.
From PC Require Import Base.Outcome Base.Py Base.PySlice Base.NpProg Gen.Triangulate Model.Strips Model.Triangulate.
Import ListNotations.
Local Open Scope nat_scope.

Fixpoint list_eqb {A} (e : A -> A -> bool) (x y : list A) : bool :=
  match x, y with
  | [], [] => true
  | a :: x', b :: y' => e a b && list_eqb e x' y'
  | _, _ => false
  end.

Definition row := list N.
Definition row_eqb : row -> row -> bool := list_eqb N.eqb.
Definition tri_eqb (a b : tri row) : bool :=
  let '(a1, a2, a3) := a in let '(b1, b2, b3) := b in
  row_eqb a1 b1 && row_eqb a2 b2 && row_eqb a3 b3.
Definition tris_eqb : list (tri row) -> list (tri row) -> bool := list_eqb tri_eqb.

(* the columns a Polygon object exposes: (array, offset) with array 0 = indices (VERTEX),
   1 = normal_indices (first NORMAL), 2 = a texcoord_indices entry (every TEXCOORD, listing order);
   each array is cut by its own generated subscripts *)
Definition corners_of_array (t : nat) : corners :=
  match t with 0 => poly_indices | 1 => poly_normal_indices | _ => poly_texcoord_indices end.

Fixpoint zip_tri_cols (cols : list (list (tri N))) : list (tri row) :=
  match cols with
  | [] => []
  | c :: r =>
      match r with
      | [] => map (tri_map (fun x => [x])) c
      | _ => zipwith (fun t tr => let '(a, b, cc) := t in let '(ra, rb, rc) := tr in (a :: ra, b :: rb, cc :: rc))
                     c (zip_tri_cols r)
      end
  end.

Definition pp_polygon (proj : list (nat * nat)) (poly : list row) : outcome (list (tri row)) :=
  omap zip_tri_cols
       (omapM (fun ao => poly_col (corners_of_array (fst ao)) (map (fun r => nth (snd ao) r 0%N) poly)) proj).

Definition bound_ok (model : option (list (tri row))) (obs : option (list (tri row))) : bool :=
  match obs with
  | None => true
  | Some o => match model with Some m => tris_eqb m o | None => false end
  end.

Inductive case :=
  (* <tristrips>/<trifans>: stride, the <p> streams, exception code of load (0 = none),
     TriangleSet.index as triangles of rows, the index of the scene-bound set when observed *)
  | CExpand (kd : kind) (k : nat) (ps : list (list N)) (code : nat) (obs : list (tri row))
            (obs_bound : option (list (tri row)))
  (* <polylist> (ps = [p], vc = <vcount>) or <polygons> (vc derived from the <p> lengths):
     load code, the primitive's vcounts, exception code of triangleset(), its index,
     (when present) Polygon.triangles() of every polygon per exposed array, and the index of
     BoundPolylist.triangleset() when observed *)
  | CPoly (polygons : bool) (k : nat) (proj : list (nat * nat)) (vc : list nat) (ps : list (list N))
          (load_code : nat) (obs_vc : list nat) (tri_code : nat) (obs_tris : list (tri row))
          (have_pp : bool) (obs_pp : list (list (tri row))) (obs_bound : option (list (tri row)))
  (* list(range(n))[a:b:s] in the Python runtime *)
  | CSlice (n : nat) (a b : option Z) (s : nat) (obs : list nat).

Definition case_ok (c : case) : bool :=
  match c with
  | CExpand kd k ps code obs obs_bound =>
      match load_expand kd (k - 1) ps with
      | Ok ts => Nat.eqb code 0 && tris_eqb ts obs &&
                 bound_ok (bound_attr (fun f => match f with FIndex => ts | _ => [] end) FIndex) obs_bound
      | Raise e => Nat.eqb code (exn_code e) && tris_eqb [] obs
      end
  | CPoly polygons k proj vc ps load_code obs_vc tri_code obs_tris have_pp obs_pp obs_bound =>
      let vcm := if polygons then polygons_vcounts k ps else vc in
      match reshape k (concat ps) with
      | Raise _ => false
      | Ok rows =>
          Nat.eqb load_code 0 && list_eqb Nat.eqb vcm obs_vc &&
          match triangleset vcm rows with
          | Ok ts => Nat.eqb tri_code 0 && tris_eqb ts obs_tris
          | Raise e => Nat.eqb tri_code (exn_code e) && tris_eqb [] obs_tris
          end &&
          (if have_pp
           then match omapM (pp_polygon proj) (polygon_rows vcm rows) with
                | Ok pp => list_eqb tris_eqb pp obs_pp
                | Raise _ => false
                end
           else true) &&
          match bound_triangleset vcm rows with
          | Ok b => bound_ok b obs_bound
          | Raise _ => match obs_bound with None => true | Some _ => false end
          end
      end
  | CSlice n a b s obs => list_eqb Nat.eqb (pyslice a b s (seq 0 n)) obs
  end.

Fixpoint mismatches_from (i : nat) (cs : list case) : list nat :=
  match cs with
  | [] => []
  | c :: r => if case_ok c then mismatches_from (S i) r else i :: mismatches_from (S i) r
  end.
Definition mismatches := mismatches_from 0.
