(* Correspondence for C18.  The model is run over the canonical rationals Qc on lattice meshes
   (every face lies in an axis-parallel plane, so unit face normals and their sums are exact);
   the implementation's float results arrive as exact dyadic rationals and must be, up to
   2^-16, the unit vector in the direction the model computes.  No float enters Coq. *)
From Coq Require Import List Bool Arith ZArith QArith Qcanon.
From PC Require Import Model.Normals Gen.NormalsAcc Gen.Tangents.
Import ListNotations.

Definition qc_ops : ops := mk_ops Qc 0%Qc 1%Qc Qcplus Qcmult Qcminus Qcopp.
Definition V := vec qc_ops.

Definition zq (n : Z) (d : positive) : Qc := Q2Qc (n # d).
Definition zvec := (Z * Z * Z)%type.
Definition qv (d : positive) (p : zvec) : V :=
  let '(x, y, z) := p in (zq x d, zq y d, zq z d).
Definition quv (d : positive) (p : Z * Z) : uv qc_ops := (zq (fst p) d, zq (snd p) d).

Definition q0 (x : Qc) : bool := match Qnum (this x) with Z0 => true | _ => false end.
Definition qsgn (x : Qc) : Qc :=
  match Qnum (this x) with Z0 => 0%Qc | Zpos _ => 1%Qc | Zneg _ => (-(1))%Qc end.
Definition qle (a b : Qc) : bool := Qle_bool (this a) (this b).
Definition qlt (a b : Qc) : bool := negb (Qle_bool (this b) (this a)).
Definition qabs (a : Qc) : Qc := if qle 0%Qc a then a else Qcopp a.

Definition vzerob (v : V) : bool := let '(x, y, z) := v in q0 x && q0 y && q0 z.
(* at most one non-zero component *)
Definition axis_ok (v : V) : bool :=
  let '(x, y, z) := v in
  let n := ((if q0 x then 0 else 1) + (if q0 y then 0 else 1) + (if q0 z then 0 else 1))%nat in
  Nat.leb n 1.
(* normalize_v3 on an axis-aligned row: exact (the zero row stays zero) *)
Definition axis_nrm (v : V) : V := let '(x, y, z) := v in (qsgn x, qsgn y, qsgn z).

(* normalize_v3 as the lattice model runs it: exact on axis-aligned rows; any other row (an edge
   vector) is returned as it is, i.e. multiplied by its positive length instead of divided by it.
   Positive factors on the two edges only scale their cross product by a positive factor
   (Proofs/Normals.cross_scale), which the exact normalisation of the axis-aligned face normal
   removes again. *)
Definition lattice_nrm (v : V) : V := if axis_ok v then axis_nrm v else v.

(* N is, up to 2^-16, the unit vector in the direction of S (S <> 0) *)
Definition tol : Qc := zq 1 65536.
Definition tol2 : Qc := zq 1 4294967296.
Definition close_unit (S N : V) : bool :=
  let c := cross qc_ops N S in
  negb (vzerob S) &&
  qle (dot qc_ops c c) (Qcmult tol2 (dot qc_ops S S)) &&
  qlt 0%Qc (dot qc_ops N S) &&
  qle (qabs (Qcminus (dot qc_ops N N) 1%Qc)) tol.

Fixpoint forallb2 {A B} (f : A -> B -> bool) (l1 : list A) (l2 : list B) : bool :=
  match l1, l2 with
  | [], [] => true
  | a :: l1', b :: l2' => f a b && forallb2 f l1' l2'
  | _, _ => false
  end.

Definition tri_eqb (a b : tri) : bool :=
  Nat.eqb (c0 a) (c0 b) && Nat.eqb (c1 a) (c1 b) && Nat.eqb (c2 a) (c2 b).

Inductive case :=
| NormCase (vden : positive) (verts : list zvec) (tris : list tri)
           (oden : positive)
           (face_obs : list (list zvec))      (* Triangle.normals of every triangle (3 rows each) *)
           (n_obs : list zvec)                (* .normal after generateNormals() *)
           (nidx_obs : list tri)              (* .normal_index after generateNormals() *)
| TanCase (vden : positive) (verts : list zvec) (uvden : positive) (uvs : list (Z * Z))
          (normals : list zvec) (tris uvtris ntris : list tri)
          (oden : positive)
          (tan_obs : list zvec)               (* textangentset[0] *)
          (tanidx_obs : list tri).            (* textangent_indexset[0] *)

Definition in_range (n : nat) (t : tri) : bool :=
  Nat.ltb (c0 t) n && Nat.ltb (c1 t) n && Nat.ltb (c2 t) n.

Definition case_ok (c : case) : bool :=
  match c with
  | NormCase vden verts tris oden face_obs n_obs nidx_obs =>
      let P := map (qv vden) verts in
      let faces := map (face_cross qc_ops P) tris in
      let sums := gen_sums qc_ops lattice_nrm (code_accumulate qc_ops) P tris in
      forallb (in_range (length verts)) tris &&
      forallb axis_ok faces &&
      (* implicit per-triangle normal: three equal rows, the unit right-hand normal *)
      (* (not observed when the set already carries normals, e.g. regenerated before binding) *)
      (match face_obs with
       | [] => true
       | _ => forallb2 (fun S rows => Nat.eqb (length rows) 3 &&
                                      forallb (fun r => close_unit S (qv oden r)) rows) faces face_obs
       end) &&
      (* generated normals: one row per vertex, indexed like the vertices *)
      Nat.eqb (length n_obs) (length verts) &&
      forallb2 tri_eqb (gen_normal_index tris) nidx_obs &&
      forallb2 (fun S r => vzerob S || close_unit S (qv oden r)) sums n_obs
  | TanCase vden verts uvden uvs normals tris uvtris ntris oden tan_obs tanidx_obs =>
      let P := map (qv vden) verts in
      let W := map (quv uvden) uvs in
      let NR := map (qv 1) normals in
      let raw := code_gen_tangents_raw qc_ops Qcinv P W NR tris uvtris ntris in
      forallb (in_range (length verts)) tris &&
      forallb2 (fun t u => negb (q0 (uv_det qc_ops (uvnth qc_ops W (c0 u)) (uvnth qc_ops W (c1 u))
                                                  (uvnth qc_ops W (c2 u))))) tris uvtris &&
      Nat.eqb (length ntris) (length tris) &&
      forallb2 tri_eqb (gen_tangent_index tris) tanidx_obs &&
      forallb2 (fun S r => vzerob S || close_unit S (qv oden r)) raw tan_obs
  end.

Fixpoint mismatches_from (i : nat) (cs : list case) : list nat :=
  match cs with
  | [] => []
  | c :: r => if case_ok c then mismatches_from (S i) r else i :: mismatches_from (S i) r
  end.
Definition mismatches := mismatches_from 0.
