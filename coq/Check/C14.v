(* Correspondence for C14: the harness records, for a history of operations, what the
   implementation reported after every step; [mismatches] runs the model on the same
   history and returns the indices of the cases where any step differs. *)
From Coq Require Import List Bool ZArith NArith.
From PC Require Import Base.Outcome Base.Py Model.IndexedList.
Import ListNotations.

(* observation after one step: exception code (0 = none), popped uid, list contents as uids,
   and get(id) for every id of the alphabet (0 = absent, else uid) *)
Definition obs := (nat * option N * list N * list N)%type.

Definition observe (alphabet : list N) (s : il) (r : outcome ret) : obs :=
  (ocode r,
   match r with Ok (Some u) => Some u | _ => None end,
   map ouid (items s),
   map (fun a => match iget (index s) a with Some u => u | None => 0%N end) alphabet).

Definition obs_eqb (a b : obs) : bool :=
  let '(c1, p1, l1, g1) := a in
  let '(c2, p2, l2, g2) := b in
  Nat.eqb c1 c2 &&
  match p1, p2 with Some x, Some y => N.eqb x y | None, None => true | _, _ => false end &&
  (if list_eq_dec N.eq_dec l1 l2 then true else false) &&
  (if list_eq_dec N.eq_dec g1 g2 then true else false).

Fixpoint trace (alphabet : list N) (s : il) (ops : list op) : list obs :=
  match ops with
  | [] => []
  | o :: r => let '(s', out) := step s o in observe alphabet s' out :: trace alphabet s' r
  end.

Fixpoint all_eqb (a b : list obs) : bool :=
  match a, b with
  | [], [] => true
  | x :: a', y :: b' => obs_eqb x y && all_eqb a' b'
  | _, _ => false
  end.

(* a case: alphabet of ids, initial contents (installed through the attribute), history,
   and the implementation's observations *)
Definition case := (list N * list obj * list op * list obs)%type.

Definition case_ok (c : case) : bool :=
  let '(alphabet, init0, ops, seen) := c in
  all_eqb (trace alphabet (of_list init0) ops) seen.

Fixpoint mismatches_from (i : nat) (cs : list case) : list nat :=
  match cs with
  | [] => []
  | c :: r => if case_ok c then mismatches_from (S i) r else i :: mismatches_from (S i) r
  end.
Definition mismatches := mismatches_from 0.
