(* Correspondence for C08.

   Family "doc": one faulted document.  The harness records the event trace of a load under the
   full mask ignore=[DaeError] (in execution order: object appended to library l / error of class c
   handed to handleError) and, for every other ignore configuration, what the implementation did
   (escaping class, Collada.errors, what is in the libraries).  [case_ok] runs the MODEL
   ([load_lib] with that configuration's mask over the event trace) and compares; it also checks
   the containment clause against the undamaged document's snapshot and that nothing was invented.

   Family "mask": a history of ignoreErrors calls followed by handleError probes. *)
From Coq Require Import List Bool ZArith NArith.
From PC Require Import Base.Atoms Base.Xml Base.Outcome Base.Libs Gen.Params Model.Errors Model.LoadSites.
Import ListNotations.

Definition exn_of_code (n : nat) : exn :=
  match n with
  | 1 => DaeIncomplete | 2 => DaeBrokenRef | 3 => DaeMalformed | 4 => DaeUnsupported
  | 5 => DaeSaveValidation | 6 => DaeOther | 7 => PyIndexError | 8 => PyKeyError
  | 9 => PyTypeError | 10 => PyValueError | 11 => PyAttributeError | _ => PyOther
  end.

Inductive ev := EvOk (l : nat) (u : N) | EvErr (c : nat).

Definition item_of (e : ev) : outcome (nat * N) :=
  match e with EvOk l u => Ok (l, u) | EvErr c => Raise (exn_of_code c) end.

Definition pair_eqb (a b : nat * N) : bool := Nat.eqb (fst a) (fst b) && N.eqb (snd a) (snd b).

Fixpoint list_eqb {A} (eqb : A -> A -> bool) (a b : list A) : bool :=
  match a, b with
  | [], [] => true
  | x :: a', y :: b' => eqb x y && list_eqb eqb a' b'
  | _, _ => false
  end.

(* objects grouped by library (library code ascending), order inside a library kept *)
Fixpoint insert_uid (x : nat * N) (l : list (nat * N)) : list (nat * N) :=
  match l with
  | [] => [x]
  | y :: r => if N.leb (snd x) (snd y) then x :: l else y :: insert_uid x r
  end.
Definition sort_uid (l : list (nat * N)) : list (nat * N) := fold_right insert_uid [] l.

(* by library, and inside a library by element index: since /repo e99e57c collada.nodes is
   re-sorted into document order after the retry passes, so append order is not observable *)
Definition group (vals : list (nat * N)) : list (nat * N) :=
  flat_map (fun l => sort_uid (filter (fun v => Nat.eqb (fst v) l) vals)) (seq 0 12).

(* one observed run: mask, escaping class code (0 = completed), errors, library contents *)
Definition run := (mask * nat * list nat * list (nat * N))%type.

(* drop the trailing run of c: an error that is not masked is re-raised by handleError and is
   handed to handleError again by every enclosing boundary (child loop, node, scene, library
   loop) it unwinds through, so the aborting error is recorded once per boundary; the flat event
   trace does not know the nesting depth *)
Definition strip_trailing (c : nat) (l : list nat) : list nat :=
  fold_right (fun x acc => match acc with
                           | [] => if Nat.eqb x c then [] else [x]
                           | _ => x :: acc
                           end) [] l.

Definition errs_agree (ab : option exn) (merrs errs : list nat) : bool :=
  match ab with
  | None => list_eqb Nat.eqb merrs errs
  | Some e => let c := exn_code e in
              list_eqb Nat.eqb (strip_trailing c merrs) (strip_trailing c errs) &&
              Nat.eqb (last errs 0) c
  end.

Definition run_ok (events : list ev) (r : run) : bool :=
  let '(mk, esc, errs, loaded) := r in
  let '(vals, merrs, ab) := load_lib item_of mk events [] [] in
  Nat.eqb (match ab with None => 0 | Some e => exn_code e end) esc &&
  errs_agree ab (map exn_code merrs) errs &&
  list_eqb pair_eqb (group vals) (group loaded).

(* snapshot entry: library code, id atom, hash of the loaded value *)
Definition snap := (nat * N * N)%type.
Definition snap_key (s : snap) : nat * N := (fst (fst s), snd (fst s)).
Definition snap_eqb (a b : snap) : bool := pair_eqb (snap_key a) (snap_key b) && N.eqb (snd a) (snd b).
Definition mem_key (k : nat * N) (l : list (nat * N)) : bool := existsb (pair_eqb k) l.

(* containment: the library objects of the undamaged document that are not affected by the fault
   are in the faulted load with the same values, in the same relative order *)
Definition contained (base fault : list snap) (affected : list (nat * N)) : bool :=
  let keep := filter (fun s => negb (mem_key (snap_key s) affected)) base in
  let keys := map snap_key keep in
  list_eqb snap_eqb keep (filter (fun s => mem_key (snap_key s) keys) fault).

Fixpoint nodup_b (l : list (nat * N)) : bool :=
  match l with
  | [] => true
  | x :: r => negb (mem_key x r) && nodup_b r
  end.

(* nothing invented: every loaded object comes from a distinct library-item element *)
Definition not_invented (loaded item_elems : list (nat * N)) : bool :=
  forallb (fun v => mem_key v item_elems) loaded && nodup_b loaded.

(* one step of a history on a single Collada object: an ignoreErrors call, or an error handed to
   handleError (directly, or lazily by CImage.data) with what was observed *)
Inductive mstep := MOp (a : iarg) | MProbe (code : nat) (raised : bool).

Fixpoint run_msteps (mk : mask) (steps : list mstep) : mask * bool :=
  match steps with
  | [] => (mk, true)
  | MOp a :: r => run_msteps (ignore_errors mk a) r
  | MProbe c raised :: r =>
      let '(mk', ok) := run_msteps mk r in
      (mk', Bool.eqb (negb (masked mk (exn_of_code c))) raised && ok)
  end.

Inductive case :=
  | CaseDoc (events : list ev) (runs : list run)
            (completed : bool) (base fault : list snap) (affected : list (nat * N))
            (loaded item_elems : list (nat * N))
  | CaseMask (steps : list mstep) (mask_len : nat)
  | CaseNotXml (runs : list run)    (* bytes that expat rejects *)
  (* one loader object with a fault inside: the class its static load() raises when called directly,
     and the class that escapes Collada(...) for the whole document (0 = none) *)
  | CaseSite (k : skind) (ns : atom) (effects : list atom) (x : xml) (direct : nat) (doc : nat).

(* the model of reading bytes that do not parse: [load_bytes] with a parser answering None *)
Definition notxml_ok (r : run) : bool :=
  let '(mk, esc, errs, loaded) := r in
  match load_bytes (fun _ : unit => @None unit) (fun _ => Ok tt) tt with
  | Raise e => Nat.eqb (exn_code e) esc
  | Ok _ => false
  end && match errs with [] => true | _ => false end && match loaded with [] => true | _ => false end.

Definition case_ok (c : case) : bool :=
  match c with
  | CaseDoc events runs completed base fault affected loaded item_elems =>
      forallb (run_ok events) runs &&
      (if completed then contained base fault affected else true) &&
      not_invented loaded item_elems
  | CaseMask steps mask_len =>
      let '(mk, ok) := run_msteps [] steps in
      Nat.eqb (length mk) mask_len && ok
  | CaseNotXml runs => forallb notxml_ok runs
  | CaseSite k ns effects x direct doc =>
      Nat.eqb (ocode (site_load ns effects k x)) direct &&
      match guarded ns effects k x with
      | Raise e => Nat.eqb (exn_code e) doc
      | Ok _ => true
      end
  end.

Fixpoint mismatches_from (i : nat) (cs : list case) : list nat :=
  match cs with
  | [] => []
  | c :: r => if case_ok c then mismatches_from (S i) r else i :: mismatches_from (S i) r
  end.
Definition mismatches := mismatches_from 0.
