(* Correspondence for C03.
   (1) indent: generated whitespace skeletons, the skeleton xmlutil.indent left behind,
       compared with Model/Indent.indent.
   (2) save/write: a document as the model sees it (asset atom, the nine object lists, default
       scene, root children), a history of attempts (save or write, in a fault context, to a
       sink or a path) each with what the implementation showed after it (exception class,
       what happened to the destination, the root's children); the model replays the history
       and must predict every observation.  Finally the unmanaged root children the model
       says survive are compared, as XML read independently from the written bytes, with
       what they were in the tree before the first attempt. *)
From Coq Require Import List Bool Arith NArith.
From PC Require Import Base.Atoms Base.Outcome Base.Xml Model.Indent Model.SaveState Proofs.SaveState.
Import ListNotations.

(* ------------------------------------------------------------------ indent *)
Definition slot_eqb (a b : slot) : bool :=
  match a, b with
  | SAbsent, SAbsent => true
  | SBlank x, SBlank y => N.eqb x y
  | SInd x, SInd y => Nat.eqb x y
  | SText x, SText y => N.eqb x y
  | _, _ => false
  end.

Fixpoint wtree_eqb (a b : wtree) : bool :=
  let 'WNode l1 x1 t1 k1 := a in
  let 'WNode l2 x2 t2 k2 := b in
  N.eqb l1 l2 && slot_eqb x1 x2 && slot_eqb t1 t2 &&
  (fix go (p q : list wtree) : bool :=
     match p, q with
     | [], [] => true
     | x :: r1, y :: r2 => wtree_eqb x y && go r1 r2
     | _, _ => false
     end) k1 k2.

(* level, tree before, tree after xmlutil.indent(elem, level) *)
Definition icase := (nat * wtree * wtree)%type.
Definition icase_ok (c : icase) : bool :=
  let '(level, before, after) := c in
  wtree_eqb (indent level before) after &&
  (* and the proved consequences, evaluated on the implementation's own output *)
  wtree_eqb (indent level after) after && wtree_eqb (strip level after) (strip level before).

Fixpoint imismatches_from (i : nat) (cs : list icase) : list nat :=
  match cs with
  | [] => []
  | c :: r => if icase_ok c then imismatches_from (S i) r else i :: imismatches_from (S i) r
  end.
Definition imismatches := imismatches_from 0.

(* ------------------------------------------------------------------ save / write *)
Definition oskel := list (N * atom * N * list (N * N)).
Definition to_tree (k : oskel) : list rchild := map (fun '(u, t, s, ks) => RC u t s ks) k.

Definition pair_eqb (a b : N * N) : bool := N.eqb (fst a) (fst b) && N.eqb (snd a) (snd b).
Definition rchild_eqb (a b : rchild) : bool :=
  N.eqb (ruid a) (ruid b) && N.eqb (rtag a) (rtag b) && N.eqb (rsub a) (rsub b) &&
  list_eqb pair_eqb (rkids a) (rkids b).
Definition tree_eqb := list_eqb rchild_eqb.

Inductive cdest := CSink (below : bool)      (* a sink whose capacity is below the output length, or a healthy one *)
                 | CPath (existing : bool).  (* a path: a file that exists already, or none *)
Definition cfault := (list (N * exn) * option (option (N * atom)))%type.
Definition cevent := (bool * cfault * cdest)%type.     (* write? / fault context / destination *)
Definition obs := (nat * nat * oskel)%type.            (* exception code, destination flag, root children *)

Definition faults_of (cf : cfault) : faults :=
  Faults (fun u => match List.find (fun p => N.eqb (fst p) u) (fst cf) with Some p => Some (snd p) | None => None end)
         (snd cf).

Definition dest_same (a b : dest) : bool :=
  match a, b with
  | DPath None, DPath None => true
  | DPath (Some x), DPath (Some y) => list_eqb N.eqb x y
  | _, _ => false
  end.

(* destination flag: 0 = as it was (or not observed: sinks), 1 = holds exactly the output,
   2 = anything else *)
Definition attempt (s : state) (e : cevent) : state * nat * nat :=
  let '(isw, cf, cd) := e in
  let fc := faults_of cf in
  if isw then
    let d := match cd with
             | CSink below => DSink (if below then Some 0 else None) []
             | CPath ex => DPath (if ex then Some [0%N] else None)
             end in
    let '(s', d', r) := write_in fc d s in
    (s', ocode r,
     match cd with
     | CSink _ => 0
     | CPath _ => match r with
                  | Ok _ => match d' with DPath (Some b) => if list_eqb N.eqb b (ser (stree s')) then 1 else 2 | _ => 2 end
                  | Raise _ => if dest_same d' d then 0 else 2
                  end
     end)
  else let '(s', r) := save_in fc s in (s', ocode r, 0).

Fixpoint replay (s : state) (evs : list (cevent * obs)) : bool * state :=
  match evs with
  | [] => (true, s)
  | (e, (code, dflag, sk)) :: r =>
      let '(s', pcode, pflag) := attempt s e in
      if Nat.eqb pcode code && Nat.eqb pflag dflag && tree_eqb (stree s') (to_tree sk)
      then replay s' r else (false, s')
  end.

Definition mkobj (o : N * atom * N * N) : obj := let '(u, i, n, c) := o in Obj u i n c.
Definition mkmodel (masset : N) (arrs : list (list (N * atom * N * N))) (msc : option (N * atom)) : model :=
  Model masset (map (fun p => Lib (fst p) (recreates (fst p)) (map mkobj (snd p))) (combine managed_tags arrs)) msc.

Fixpoint lookup_xml (u : N) (tbl : list (N * xml)) : option xml :=
  match tbl with [] => None | (v, x) :: r => if N.eqb u v then Some x else lookup_xml u r end.

Fixpoint unm_ok (uids : list N) (tbl : list (N * xml)) (after : list xml) : bool :=
  match uids, after with
  | [], [] => true
  | u :: ur, x :: xr => match lookup_xml u tbl with
                        | Some y => xml_eqb y x && unm_ok ur tbl xr
                        | None => false
                        end
  | _, _ => false
  end.

(* asset atom, object lists, default scene, root children, history with observations,
   unmanaged children before (by uid) and after (from the written bytes) *)
Definition case := (N * list (list (N * atom * N * N)) * option (N * atom) * oskel *
                    list (cevent * obs) * list (N * xml) * list xml)%type.

Definition case_ok (c : case) : bool :=
  let '(masset, arrs, msc, tree0, evs, ubefore, uafter) := c in
  let m := mkmodel masset arrs msc in
  let s0 := St m (to_tree tree0) in
  let '(ok, s) := replay s0 evs in
  Nat.eqb (length arrs) 9 && wf_libs_b m && single_asset_b (to_tree tree0) && ok &&
  unm_ok (map ruid (unmanaged_children m (stree s))) ubefore uafter.

Fixpoint mismatches_from (i : nat) (cs : list case) : list nat :=
  match cs with
  | [] => []
  | c :: r => if case_ok c then mismatches_from (S i) r else i :: mismatches_from (S i) r
  end.
Definition mismatches := mismatches_from 0.
