(* Bit-exact comparison of Model/NumFmt.v with the runtime: per value x = m*2^e > 0 the harness
   records the value D*10^q of '%.7g' % x and the binary32 M*2^E of numpy.float32(float(token)). *)
From Coq Require Import List ZArith Bool.
From PC Require Import Model.NumFmt.
Import ListNotations.
Open Scope Z_scope.

Definition case := (Z * Z * (Z * Z) * (Z * Z))%type.

Definition pair_eqb (a b : Z * Z) : bool := (fst a =? fst b) && (snd a =? snd b).

Definition case_ok (c : case) : bool :=
  let '(m, e, dq, me32) := c in
  pair_eqb (fmt7 m e) dq &&
  pair_eqb (parse32 (fst dq) (snd dq)) me32 &&
  (* H_num_stable at x: norm (norm x) = norm x *)
  pair_eqb (norm (fst me32) (snd me32)) me32.

Fixpoint mismatches_from (i : nat) (cs : list case) : list nat :=
  match cs with
  | [] => []
  | c :: r => if case_ok c then mismatches_from (S i) r else i :: mismatches_from (S i) r
  end.
Definition mismatches := mismatches_from 0.
