(* Correspondence for C02.  For every save of an edit history the harness records, at every
   reconciliation site (library element, node, visual_scene, bind_material/technique_common,
   mesh), the child identities before the save, the identities of the objects' nodes in model
   order and the child identities after the save: the model [py_sync] must produce the latter.
   In addition the label tree read independently from the written bytes must be the emission
   [emit_skel] of the label tree of the edited model. *)
From Coq Require Import List Bool NArith.
From PC Require Import Base.Py Model.Sync.
Import ListNotations.

Fixpoint listN_eqb (a b : list N) : bool :=
  match a, b with
  | [], [] => true
  | x :: r, y :: s => N.eqb x y && listN_eqb r s
  | _, _ => false
  end.

(* SAll: a site reconciled by _syncChildren (old children, wanted nodes, children after);
   SProfile: profile_COMMON of an effect (old children, parameter nodes, children after, the
   identities that are <newparam> elements or <image> elements local to the profile - both are
   taken out by Effect.save, the images being written in library_images -, the identity of <technique>) *)
Inductive site :=
  | SAll (old want got : list N)
  | SProfile (old params got newparams : list N) (tec : N).
Definition site_ok (s : site) : bool :=
  match s with
  | SAll old want got => listN_eqb (py_sync old want) got
  | SProfile old params got nps tec =>
      (* Effect.save may also create the <extra> carrying double_sided (Stage 2, not modelled):
         children that are neither old nor parameter nodes are left out of the comparison *)
      listN_eqb (profile_sync (fun c => memN c nps) tec old params)
                (filter (fun c => memN c old || memN c params) got)
  end.

Fixpoint skel_eqb (a b : skel) : bool :=
  let 'Sk u k := a in
  let 'Sk v l := b in
  N.eqb u v &&
  (fix go (k l : list skel) : bool :=
     match k, l with
     | [], [] => true
     | x :: r, y :: s => skel_eqb x y && go r s
     | _, _ => false
     end) k l.

Definition case := (list site * obj * skel)%type.
Definition case_ok (c : case) : bool :=
  let '(sites, model, file) := c in
  forallb site_ok sites && skel_eqb (emit_skel model) file.

Fixpoint mismatches_from (i : nat) (cs : list case) : list nat :=
  match cs with
  | [] => []
  | c :: r => if case_ok c then mismatches_from (S i) r else i :: mismatches_from (S i) r
  end.
Definition mismatches := mismatches_from 0.
