(* Correspondence for C13 on integer-exact cases.  A case holds the transforms a node is
   built with (constructor arguments, or the floats of loaded elements), an edit history of
   node.transforms, a second edit history applied after the first save(), and what the
   implementation showed: node.matrix after construction/load, the matrix of every transform in
   the edited list and node.matrix after each save(), and the node.matrix of the document
   written and loaded again (all rounded to integers by the
   worker, which rejects anything farther than 0.05 from an integer;
   the harness bounds the magnitudes so that float32 rounding and the 1e-7 residues of cos/sin
   at multiples of 90 degrees stay far below that). *)
From Coq Require Import List Bool ZArith.
From PC Require Import Base.Py Base.Mat Gen.Transforms Model.Transforms.
Import ListNotations.

Definition ztransform := transform Z.
Definition zedit := edit Z.

Definition case := (list ztransform * list zedit * list zedit *
                    list Z * list (list Z) * list Z * list (list Z) * list Z * list Z)%type.

Fixpoint all_eqb (a b : list (list Z)) : bool :=
  match a, b with
  | [], [] => true
  | x :: a', y :: b' => list_eqbZ x y && all_eqb a' b'
  | _, _ => false
  end.

Definition mats_of (n : node Z) : list (list Z) :=
  map (fun t => mat_to_list (transform_matrix zops t)) (transforms n).

(* construct / load; edit, save; edit again, save again; write and load again *)
Definition case_ok (c : case) : bool :=
  let '(init0, edits, edits2, obs_init, obs_mats, obs_saved, obs_mats2, obs_saved2, obs_reloaded) := c in
  let n0 := construct zops init0 in
  let n1 := save zops (run_edits n0 edits) in
  let n2 := save zops (run_edits n1 edits2) in
  list_eqbZ (mat_to_list (matrix n0)) obs_init &&
  all_eqb (mats_of n1) obs_mats &&
  list_eqbZ (mat_to_list (matrix n1)) obs_saved &&
  all_eqb (mats_of n2) obs_mats2 &&
  list_eqbZ (mat_to_list (matrix n2)) obs_saved2 &&
  (* the reloaded node is constructed from the written elements, in their written order *)
  list_eqbZ (mat_to_list (node_matrix zops (transforms n2))) obs_reloaded.

Fixpoint mismatches_from (i : nat) (cs : list case) : list nat :=
  match cs with
  | [] => []
  | c :: r => if case_ok c then mismatches_from (S i) r else i :: mismatches_from (S i) r
  end.
Definition mismatches := mismatches_from 0.
