(* Correspondence for C13 on integer-exact cases.  A case holds the transforms a node is
   built with (constructor arguments, or the floats of loaded elements), an edit history of
   node.transforms, and what the implementation showed: node.matrix after construction/load,
   the matrix of every transform in the edited list, node.matrix after save(), and the
   node.matrix of the document written and loaded again (all rounded to integers by the
   worker, which rejects anything farther than 0.05 from an integer;
   the harness bounds the magnitudes so that float32 rounding and the 1e-7 residues of cos/sin
   at multiples of 90 degrees stay far below that). *)
From Coq Require Import List Bool ZArith.
From PC Require Import Base.Py Base.Mat Gen.Transforms Model.Transforms.
Import ListNotations.

Definition ztransform := transform Z.
Definition zedit := edit Z.

Definition case := (list ztransform * list zedit * list Z * list (list Z) * list Z * list Z)%type.

Fixpoint all_eqb (a b : list (list Z)) : bool :=
  match a, b with
  | [], [] => true
  | x :: a', y :: b' => list_eqbZ x y && all_eqb a' b'
  | _, _ => false
  end.

Definition case_ok (c : case) : bool :=
  let '(init0, edits, obs_init, obs_mats, obs_saved, obs_reloaded) := c in
  let n0 := construct zops init0 in
  let n1 := save zops (run_edits n0 edits) in
  list_eqbZ (mat_to_list (matrix n0)) obs_init &&
  all_eqb (map (fun t => mat_to_list (transform_matrix zops t)) (transforms n1)) obs_mats &&
  list_eqbZ (mat_to_list (matrix n1)) obs_saved &&
  (* the reloaded node is constructed from the written elements, in their written order *)
  list_eqbZ (mat_to_list (node_matrix zops (transforms n1))) obs_reloaded.

Fixpoint mismatches_from (i : nat) (cs : list case) : list nat :=
  match cs with
  | [] => []
  | c :: r => if case_ok c then mismatches_from (S i) r else i :: mismatches_from (S i) r
  end.
Definition mismatches := mismatches_from 0.
