(* Correspondence for C17.  For every step of a history the harness records which classes of
   locations changed on the implementation (deep hash of every reachable attribute, array
   buffer and XML node before/after the query, run twice), whether the repeated query returned
   an equal result, and (for saves) whether the bytes written equal those of the never-queried
   twin.  [case_ok] compares the measured sets with the model's declared write sets. *)
From Coq Require Import List NArith Bool.
From PC Require Import Model.Purity.
Import ListNotations.

Definition k_save := 30%N.
Definition k_own := 31%N.
Definition k_edit := 32%N.   (* an edit applied to the document and its twin alike *)

(* kind, classes changed by the first run, by the second run, repeat equal, same as twin *)
Definition step := (N * list N * list N * bool * bool)%type.

Definition subset (xs ys : list N) : bool := forallb (fun x => in_classes x ys) xs.

Definition step_ok (s : step) : bool :=
  let '(k, ch1, ch2, rep, twin) := s in
  if N.eqb k k_save then twin
  else if N.eqb k k_edit then true
  else if N.eqb k k_own then rep && subset ch1 [] && subset ch2 []
  else subset ch1 (declared k) && subset ch2 (declared k)
       && forallb hidden_class ch1 && forallb hidden_class ch2 && rep && twin.

(* steps, and: at the end the queried document equals its twin (snapshot, answers, bytes) *)
Definition case := (list step * bool)%type.

Definition case_ok (c : case) : bool := forallb step_ok (fst c) && snd c.

Fixpoint mismatches_from (i : nat) (cs : list case) : list nat :=
  match cs with
  | [] => []
  | c :: r => if case_ok c then mismatches_from (S i) r else i :: mismatches_from (S i) r
  end.
Definition mismatches := mismatches_from 0.
