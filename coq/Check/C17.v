(* Correspondence for C17.  For every step of a history the harness records which classes of
   locations changed on the implementation (deep hash of every reachable attribute, array
   buffer and XML node before/after the query, run twice), whether the repeated query returned
   an equal result, and (for saves) whether the bytes written equal those of the never-queried
   twin.  [case_ok] compares the measured sets with the model's declared write sets. *)
From Coq Require Import List ZArith NArith Bool.
From PC Require Import Base.Outcome Base.Py Gen.Transforms Model.Transforms Model.Strips Model.Triangulate
  Model.IndexedList Model.Traverse Model.PurityQueries.
From PC Require Model.PrimCtor.
From PC Require Import Model.Purity.
Import ListNotations.

Definition k_save := 30%N.
Definition k_own := 31%N.
Definition k_edit := 32%N.   (* an edit applied to the document and its twin alike *)

(* ---- the concrete models of Model/PurityQueries.v run on the implementation's own data *)
Inductive conc :=
| CNone
| CTri (vc : list nat) (rows : list row) (r1 r2 : option (list (tri row)))   (* None: raised *)
| CInputs (src : list (N * list input)) (seen : list input)
| CLookups (items : list obj) (index : list (N * N)) (ls : list (lookup * option (option N))).

Fixpoint nlist_eqb (a b : list N) : bool :=
  match a, b with
  | [], [] => true
  | x :: a', y :: b' => N.eqb x y && nlist_eqb a' b'
  | _, _ => false
  end.
Definition tri_eqb (a b : tri row) : bool :=
  let '(a1, a2, a3) := a in let '(b1, b2, b3) := b in nlist_eqb a1 b1 && nlist_eqb a2 b2 && nlist_eqb a3 b3.
Fixpoint tris_eqb (a b : list (tri row)) : bool :=
  match a, b with
  | [], [] => true
  | x :: a', y :: b' => tri_eqb x y && tris_eqb a' b'
  | _, _ => false
  end.
Definition optN_eqb (a b : option N) : bool :=
  match a, b with Some x, Some y => N.eqb x y | None, None => true | _, _ => false end.
Definition input_eqb (a b : input) : bool :=
  let '(a1, a2, a3, a4) := a in let '(b1, b2, b3, b4) := b in
  N.eqb a1 b1 && N.eqb a2 b2 && N.eqb a3 b3 && optN_eqb a4 b4.
Fixpoint inputs_eqb (a b : list input) : bool :=
  match a, b with
  | [], [] => true
  | x :: a', y :: b' => input_eqb x y && inputs_eqb a' b'
  | _, _ => false
  end.

Definition doc_of (vc : list nat) (rows : list row) (src : list (N * list input)) (lib : il) : cdoc Z :=
  CDoc Z vc rows src lib [] 0%N [] (PrimCtor.Prim PrimCtor.KTri 1 0 None None [] [] [] [] None) None None [] 0%N.

Definition tri_res_ok (r : cres Z) (seen : option (list (tri row))) : bool :=
  match r, seen with
  | RTri _ (Ok t), Some t' => tris_eqb t t'
  | RTri _ (Raise _), None => true
  | _, _ => false
  end.

Definition conc_ok (c : conc) : bool :=
  match c with
  | CNone => true
  | CTri vc rows r1 r2 =>
      (* first call computes and fills the cache, second call answers from it *)
      let s0 := doc_of vc rows [] (IL [] []) in
      let '(s1, a1) := cexec zops QTriangleset s0 in
      let '(s2, a2) := cexec zops QTriangleset s1 in
      tri_res_ok a1 r1 && tri_res_ok a2 r2 &&
      match r1, c_tri s1 with Some _, Some _ => true | None, None => true | _, _ => false end
  | CInputs src seen =>
      match snd (cexec zops QInputList (doc_of [] [] src (IL [] []))) with
      | RInputs _ l => inputs_eqb l seen
      | _ => false
      end
  | CLookups items index ls =>
      let s0 := doc_of [] [] [] (IL items index) in
      forallb (fun ls1 : lookup * option (option N) =>
                 match snd (cexec zops (QLookup (fst ls1)) s0), snd ls1 with
                 | RLookup _ (Ok r), Some r' => optN_eqb r r'
                 | RLookup _ (Raise PyKeyError), None => true
                 | _, _ => false
                 end) ls
  end.

(* kind, classes changed by the first run, by the second run, repeat equal, same as twin,
   concrete-model observation *)
Definition step := (N * list N * list N * bool * bool * conc)%type.

Definition subset (xs ys : list N) : bool := forallb (fun x => in_classes x ys) xs.

Definition step_ok (s : step) : bool :=
  let '(k, ch1, ch2, rep, twin, cc) := s in
  conc_ok cc &&
  if N.eqb k k_save then twin
  else if N.eqb k k_edit then true
  else if N.eqb k k_own then rep && subset ch1 [] && subset ch2 []
  else subset ch1 (declared k) && subset ch2 (declared k)
       && forallb hidden_class ch1 && forallb hidden_class ch2 && rep && twin.

(* steps, and: at the end the queried document equals its twin (snapshot, answers, bytes) *)
Definition case := (list step * bool)%type.

Definition case_ok (c : case) : bool := forallb step_ok (fst c) && snd c.

Fixpoint mismatches_from (i : nat) (cs : list case) : list nat :=
  match cs with
  | [] => []
  | c :: r => if case_ok c then mismatches_from (S i) r else i :: mismatches_from (S i) r
  end.
Definition mismatches := mismatches_from 0.
