(* Correspondence for C19: the harness generates a <controller> document from a structural
   description, loads it through collada.Collada and records the exception class or the
   decoded skin / morph; [case_ok] runs the model on the same description and compares. *)
From Coq Require Import List Bool Arith ZArith NArith.
From PC Require Import Base.Atoms Base.Outcome Base.Xml Base.Mat Model.Skin Model.SkinXml.
Import ListNotations.

Definition lZ_eqb (a b : list Z) : bool := if list_eq_dec Z.eq_dec a b then true else false.
Definition llZ_eqb (a b : list (list Z)) : bool :=
  if list_eq_dec (list_eq_dec Z.eq_dec) a b then true else false.
Definition lllZ_eqb (a b : list (list (list Z))) : bool :=
  if list_eq_dec (list_eq_dec (list_eq_dec Z.eq_dec)) a b then true else false.
Definition NZl_eq_dec : forall a b : N * list Z, {a = b} + {a <> b}.
Proof. decide equality; [apply (list_eq_dec Z.eq_dec) | apply N.eq_dec]. Defined.
Definition NZ_eq_dec : forall a b : N * Z, {a = b} + {a <> b}.
Proof. decide equality; [apply Z.eq_dec | apply N.eq_dec]. Defined.

Definition view_eqb (a b : skin_view) : bool :=
  Nat.eqb (sv_nindices a) (sv_nindices b) &&
  lllZ_eqb (sv_groups a) (sv_groups b) &&
  llZ_eqb (sv_joint_index a) (sv_joint_index b) &&
  llZ_eqb (sv_weight_index a) (sv_weight_index b) &&
  (if list_eq_dec NZl_eq_dec (sv_joint_matrices a) (sv_joint_matrices b) then true else false) &&
  lZ_eqb (sv_bind_shape a) (sv_bind_shape b).

Inductive case :=
| SkinCase (d : skin_desc) (code : nat) (obs : option skin_view)
| MorphCase (d : morph_desc) (code : nat) (obs : option (N * list (N * Z)))
  (* nested node matrices (outermost first), bind shape matrix, observed BoundSkin geometry matrix *)
| BoundCase (path : list (list Z)) (bind : list Z) (obs : list Z)
  (* the <controller> element as read independently from the bytes (document namespace, numeric
     table, ids of the loaded geometries) and what the implementation made of it *)
| XmlCase (ns : atom) (nums : list Z) (geoms : list atom) (ctrl : xml) (code : nat) (obs : option loaded).

Definition case_ok (c : case) : bool :=
  match c with
  | SkinCase d code obs =>
      match load_skin d, obs with
      | Ok v, Some w => Nat.eqb code 0 && view_eqb v w
      | Raise e, None => Nat.eqb code (exn_code e)
      | _, _ => false
      end
  | MorphCase d code obs =>
      match load_morph d, obs with
      | Ok (b, l), Some (b', l') =>
          Nat.eqb code 0 && N.eqb b b' && (if list_eq_dec NZ_eq_dec l l' then true else false)
      | Raise e, None => Nat.eqb code (exn_code e)
      | _, _ => false
      end
  | BoundCase path bind obs =>
      lZ_eqb (mat_to_list (bound_skin_matrix (map zmat_of_list path) (zmat_of_list bind))) obs
  | XmlCase ns nums geoms ctrl code obs =>
      match load_controller ns nums geoms ctrl, obs with
      | Ok (LSkin v), Some (LSkin w) => Nat.eqb code 0 && view_eqb v w
      | Ok (LMorph b l), Some (LMorph b' l') =>
          Nat.eqb code 0 && N.eqb b b' && (if list_eq_dec NZ_eq_dec l l' then true else false)
      | Raise e, None => Nat.eqb code (exn_code e)
      | _, _ => false
      end
  end.

Fixpoint mismatches_from (i : nat) (cs : list case) : list nat :=
  match cs with
  | [] => []
  | c :: r => if case_ok c then mismatches_from (S i) r else i :: mismatches_from (S i) r
  end.
Definition mismatches := mismatches_from 0.
