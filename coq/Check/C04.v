(* Correspondence for C04.  Four kinds of cases, all evaluated inside Coq:
   - [xcase]: a document with the verdict of xmllint; the interpreter (Model/Schema.v) on the
     schema regenerated in this run (Gen/Schema141.v) must give the same verdict
     (cross-validation of translator + interpreter; a disagreement is a harness error);
   - [dcase]: a document the implementation wrote: it must validate, its bookkeeping failure
     vector recomputed here must be all zero and equal to the one the Python oracle computed, and
     (documents built from scratch) it must conform to the emit grammar;
   - [scase]/[pcase]: the model's emitted <source>/<primitive> against the written element. *)
From Coq Require Import List Bool ZArith NArith.
From PC Require Import Base.Atoms Base.Xml Model.SchemaSyntax Model.Schema Gen.Schema141
                       Model.Bookkeeping Model.EmitGrammar Model.EmitDoc.
Import ListNotations.

Fixpoint mism {A} (ok : A -> bool) (i : nat) (cs : list A) : list nat :=
  match cs with
  | [] => []
  | c :: r => if ok c then mism ok (S i) r else i :: mism ok (S i) r
  end.

Definition valid141 (lex : list (atom * N)) (doc : xml) : bool := validate schema141 (lex_of lex) doc.

(* ---- cross-validation against xmllint *)
Definition xcase := (list (atom * N) * xml * bool)%type.
Definition xcase_ok (c : xcase) : bool := let '(lex, doc, expected) := c in Bool.eqb (valid141 lex doc) expected.
Definition xmismatches := mism xcase_ok 0.

(* ---- written documents *)
Definition dcase := (list (atom * N) * xml * bool * list nat)%type.

Definition nat_list_eqb := list_eqb Nat.eqb.

(* observation vector of a written document:
   [schema-valid; bookkeeping vector all zero; equal to the Python oracle's; conforms to the grammar] *)
Definition dcase_obs (c : dcase) : list bool :=
  let '(lex, doc, scratch, pyvec) := c in
  [valid141 lex doc; book_ok doc; nat_list_eqb (book_fails doc) pyvec;
   negb scratch || conforms emit_grammar (lex_of lex) doc].
Definition dcase_ok (c : dcase) : bool := forallb (fun b => b) (dcase_obs c).
Definition dmismatches := mism dcase_ok 0.

(* ---- emit model against the written elements *)
Definition scase := (srcm * xml)%type.
Definition scase_ok (c : scase) : bool := xml_eqv (emit_source (fst c)) (snd c).
Definition smismatches := mism scase_ok 0.

(* the written primitive after Geometry.save: VERTEX inputs redirected to <vertices> *)
Definition pcase := (atom * atom * primm * xml)%type.
Definition pcase_ok (c : pcase) : bool :=
  let '(vid, vref, p, x) := c in xml_eqv (emit_prim (redirect_prim vid vref p)) x.
Definition pmismatches := mism pcase_ok 0.

(* ---- the whole-writer model against the written document (from-scratch recipes): the user
   content encoded from the recipe must be well formed and its emission must be the written tree *)
Definition mcase := (list (atom * N) * xml * doc)%type.
Definition mcase_obs (c : mcase) : list bool :=
  let '(lex, written, d) := c in [wf_user (lex_of lex) d; xml_eqv (emit d) written].
Definition mcase_ok (c : mcase) : bool := forallb (fun b => b) (mcase_obs c).
Definition mmismatches := mism mcase_ok 0.

(* for diagnosis: tags on the way to the first difference *)
Fixpoint diff_path (fuel : nat) (a b : xml) : list atom :=
  match fuel with
  | O => []
  | S f =>
      if xml_eqv a b then [] else
      xtag a :: (fix go (l1 l2 : list xml) : list atom :=
                   match l1, l2 with
                   | x :: r1, y :: r2 => if xml_eqv x y then go r1 r2 else diff_path f x y
                   | x :: _, [] => [xtag x; 0%N]
                   | [], y :: _ => [0%N; xtag y]
                   | [], [] => [1%N]
                   end) (xkids a) (xkids b)
  end.
