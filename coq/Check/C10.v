(* Correspondence for C10: for a primitive built through the public API the harness records
   len(), list(prim), prim[i] for i = 0..len (the last one must end the legacy iteration), and
   for the bound primitive (Geometry.bind / BoundGeometry.primitives()) len(), list(shapes())
   and list(bound).  [case_ok] runs the model on the same abstract input and compares. *)
From Coq Require Import List Bool Arith ZArith NArith.
From PC Require Import Base.Outcome Model.IndexTable Model.PrimCtor Model.PrimIter Check.PrimCase.
Import ListNotations.

Definition nidx_eqb (a b : nidx) : bool :=
  match a, b with
  | NIAttrAbsent, NIAttrAbsent | NINone, NINone | NIZero, NIZero => true
  | NIdx x, NIdx y => eqb_list N.eqb x y
  | _, _ => false
  end.
Definition rows_eqb := eqb_list (eqb_list Z.eqb).
Definition nrm_eqb (a b : nrm) : bool :=
  match a, b with
  | NNone, NNone | NGenerated, NGenerated => true
  | NRows x, NRows y => rows_eqb x y
  | _, _ => false
  end.
Definition optN_eqb (a b : option N) : bool :=
  match a, b with Some x, Some y => N.eqb x y | None, None => true | _, _ => false end.

Definition item_eqb (a b : item) : bool :=
  eqb_list N.eqb (it_indices a) (it_indices b) &&
  rows_eqb (it_vertices a) (it_vertices b) &&
  nidx_eqb (it_normal_indices a) (it_normal_indices b) &&
  nrm_eqb (it_normals a) (it_normals b) &&
  eqb_list (eqb_list N.eqb) (it_texcoord_indices a) (it_texcoord_indices b) &&
  eqb_list rows_eqb (it_texcoords a) (it_texcoords b) &&
  optN_eqb (it_material a) (it_material b).

(* an observed outcome: exception code (0 = none) and the items *)
Definition lobs := (nat * list item)%type.
Definition gobs := (nat * option item)%type.

Definition lobs_ok (m : outcome (list item)) (o : lobs) : bool :=
  match m with
  | Ok l => Nat.eqb (fst o) 0 && eqb_list item_eqb l (snd o)
  | Raise e => Nat.eqb (fst o) (exn_code e)
  end.
Definition gobs_ok (m : outcome item) (o : gobs) : bool :=
  match m, snd o with
  | Ok it, Some it' => Nat.eqb (fst o) 0 && item_eqb it it'
  | Raise e, None => Nat.eqb (fst o) (exn_code e)
  | _, _ => false
  end.

Fixpoint all2 {A B} (f : A -> B -> bool) (a : list A) (b : list B) : bool :=
  match a, b with
  | [], [] => true
  | x :: a', y :: b' => f x y && all2 f a' b'
  | _, _ => false
  end.

Definition zobs := list (Z * gobs).                     (* prim[z] for negative / out-of-range z *)
Definition uobs := (nat * lobs * list gobs * zobs)%type.      (* len, list(prim), prim[0..len], prim[z] *)
Definition bobs := (nat * lobs * lobs * zobs)%type.           (* len, list(shapes()), list(bound), bound[z] *)

Definition zobs_ok (q : iprim) (zo : zobs) : bool :=
  forallb (fun e => gobs_ok (getitem_z q (fst e)) (snd e)) zo.

Definition case := (kind * list csrc * list cinput * option N * stream *
                    list (list Z) * list (N * N) * nat * option (uobs * bobs))%type.

Definition case_ok (c : case) : bool :=
  let '(kd, srcs, ins, mat, s, m, matmap, code, seen) := c in
  match create kd (map (raw_of srcs) ins) mat s, seen with
  | Raise e, None => Nat.eqb code (exn_code e)
  | Ok p, Some ((ulen, uiter, ugets, uz), (blen, bshapes, blegacy, bz)) =>
      let u := unbound p in
      let b := bind p m matmap in
      Nat.eqb code 0 &&
      Nat.eqb (ilen u) ulen && lobs_ok (iter u) uiter &&
      all2 (fun i o => gobs_ok (getitem u i) o) (seq 0 (S (ilen u))) ugets &&
      zobs_ok u uz &&
      Nat.eqb (ilen b) blen && lobs_ok (shapes b) bshapes && lobs_ok (iter b) blegacy && zobs_ok b bz
  | _, _ => false
  end.

Definition mismatches := mismatches_from case_ok 0.
