(* Correspondence for C01 (numeric part).  Per constructor program the harness records, for
   every float source and every primitive:
     - the data / index the program put in (M0),
     - the tokens pycollada wrote in generation 1 and 2 (read back with xml.etree),
     - the data / index pycollada loaded in M1 and M2,
   and supplies finite tables of the runtime's '%.7g' and float32 parse on exactly the values
   and tokens that occur (values and tokens are interned: equal id <=> identical value/string).
   [case_ok] runs Model/RoundTrip.v's emit/parse with the tables as oracle and compares; it also
   checks the instance of H_num_stable on every value of the case. *)
From Coq Require Import List Bool NArith ZArith.
From PC Require Import Base.Num Model.RoundTrip.
From PC Require Model.NumFmt Check.C01num.   (* built with this file; used by the NumFmt batch *)
Import ListNotations.
Open Scope N_scope.

Definition table := list (N * N).
Fixpoint lookup (t : table) (k : N) : N :=
  match t with
  | [] => 0
  | (a, b) :: r => if a =? k then b else lookup r k
  end.

Definition nlist_eqb (a b : list N) : bool := if list_eq_dec N.eq_dec a b then true else false.
Definition zlist_eqb (a b : list Z) : bool := if list_eq_dec Z.eq_dec a b then true else false.

(* data0, tokens of generation 1, data of M1, tokens of generation 2, data of M2 *)
Definition src_case := (list N * list N * list N * list N * list N)%type.
(* index of M0, <p> of generation 1, index of M1, <p> of generation 2, index of M2 *)
Definition idx_case := (list Z * list Z * list Z * list Z * list Z)%type.

Definition case := (table * table * list src_case * list idx_case)%type.

Definition src_ok (fmt parse : table) (s : src_case) : bool :=
  let '(d0, t1, d1, t2, d2) := s in
  let f := lookup fmt in
  let p := lookup parse in
  nlist_eqb (emit_floats N N f d0) t1 &&
  nlist_eqb (parse_floats N N p t1) d1 &&
  nlist_eqb (emit_floats N N f d1) t2 &&
  nlist_eqb (parse_floats N N p t2) d2 &&
  nlist_eqb d2 d1 &&
  (* no unknown value or token took part *)
  forallb (fun x => negb (x =? 0)) (t1 ++ d1 ++ t2 ++ d2) &&
  (* H_num_stable on the values of this source *)
  forallb (fun x => p (f (p (f x))) =? p (f x)) (d0 ++ d1).

Definition idx_ok (i : idx_case) : bool :=
  let '(i0, t1, i1, t2, i2) := i in
  zlist_eqb (emit_index Z (fun z => z) i0) t1 && zlist_eqb t1 i1 &&
  zlist_eqb (emit_index Z (fun z => z) i1) t2 && zlist_eqb t2 i2.

Definition case_ok (c : case) : bool :=
  let '(fmt, parse, srcs, idxs) := c in
  forallb (src_ok fmt parse) srcs && forallb idx_ok idxs.

Fixpoint mismatches_from (i : nat) (cs : list case) : list nat :=
  match cs with
  | [] => []
  | c :: r => if case_ok c then mismatches_from (S i) r else i :: mismatches_from (S i) r
  end.
Definition mismatches := mismatches_from 0.
