(* Correspondence for C16: for an archive / directory layout the harness records, per load,
   what pycollada did (exception class, which document it parsed, the selected member, and per
   image what CImage.data gave); [mismatches] runs Model/Container.v on the same layout. *)
From Coq Require Import List Bool NArith Arith.
From PC Require Import Base.Outcome Model.Container.
Import ListNotations.
Open Scope N_scope.

(* data ids: documents 1000.., auxiliary files 2000.., decoys 3000.., archives 4000..,
   what the user loader returns 5000.. *)
Definition is_doc (d : N) : bool := (1000 <=? d) && (d <? 2000).

Definition img_obs := (nat * N)%type.
Definition load_obs := (nat * N * option name * list img_obs)%type.

(* source kind, Some d = plain document bytes / None = the archive, zip_filename,
   aux_file_loader (as a table; absent paths give None), ignore=[DaeError], observation *)
Definition load :=
  (source_kind * option N * option name * option (list (name * option N)) * bool * load_obs)%type.

(* files on disk (relative to the working directory and absolute), archive members in
   order, the image paths of the documents, the loads *)
Definition case := (fsys * fsys * list name * list load)%type.

Fixpoint user_fun (t : list (name * option N)) (f : name) : option N :=
  match t with
  | [] => None
  | (n, r) :: t' => if name_eqb f n then r else user_fun t' f
  end.

Definition run_load (disk members : fsys) (images : list name) (l : load) : load_obs :=
  let '(k, plain, zipfn, user, ignore, _) := l in
  let c := match plain with Some d => Plain d | None => Archive members end in
  let uf := match user with Some t => user_fun t | None => fun _ => None end in
  let has_user := match user with Some _ => true | None => false end in
  match open_container k c zipfn has_user with
  | Raise e => (exn_code e, 0, None, [])
  | Ok (d, r) =>
      if is_doc d then
        (0%nat, d,
         match plain with
         | Some _ => None
         | None => match select_member (map fst members) zipfn with Ok n => Some n | Raise _ => None end
         end,
         map (fun f => match resolve r disk uf f with
                       | Ok x => (0%nat, x)
                       | Raise e => (((if ignore then 100 else 0) + exn_code e)%nat, 0)
                       end) images)
      else (* H_parse: bytes that are not an XML document: DaeMalformedError *)
        (exn_code DaeMalformed, 0, None, [])
  end.

Definition oname_eqb (a b : option name) : bool :=
  match a, b with
  | Some x, Some y => name_eqb x y
  | None, None => true
  | _, _ => false
  end.

Fixpoint imgs_eqb (a b : list img_obs) : bool :=
  match a, b with
  | [], [] => true
  | (c1, d1) :: a', (c2, d2) :: b' => Nat.eqb c1 c2 && (d1 =? d2) && imgs_eqb a' b'
  | _, _ => false
  end.

Definition obs_eqb (a b : load_obs) : bool :=
  let '(c1, d1, m1, i1) := a in
  let '(c2, d2, m2, i2) := b in
  Nat.eqb c1 c2 && (d1 =? d2) && oname_eqb m1 m2 && imgs_eqb i1 i2.

Definition load_ok (disk members : fsys) (images : list name) (l : load) : bool :=
  let '(_, _, _, _, _, seen) := l in obs_eqb (run_load disk members images l) seen.

Definition case_ok (c : case) : bool :=
  let '(disk, members, images, loads) := c in forallb (load_ok disk members images) loads.

Fixpoint mismatches_from (i : nat) (cs : list case) : list nat :=
  match cs with
  | [] => []
  | c :: r => if case_ok c then mismatches_from (S i) r else i :: mismatches_from (S i) r
  end.
Definition mismatches := mismatches_from 0.

(* member selection and normpath alone, on name lists (used for the larger pure batches):
   (names, zip_filename, observed: 0 = DaeIncomplete / S i = member number i) and
   (path, observed normpath) *)
Definition sel_case := (list name * option name * option name)%type.
Definition sel_ok (c : sel_case) : bool :=
  let '(names, z, seen) := c in
  oname_eqb (match select_member names z with Ok n => Some n | Raise _ => None end) seen.
Definition np_case := (name * name)%type.
Definition np_ok (c : np_case) : bool := let '(p, seen) := c in name_eqb (normpath p) seen.

Fixpoint bad_from {A} (ok : A -> bool) (i : nat) (cs : list A) : list nat :=
  match cs with
  | [] => []
  | c :: r => if ok c then bad_from ok (S i) r else i :: bad_from ok (S i) r
  end.
Definition sel_mismatches := bad_from sel_ok 0.
Definition np_mismatches := bad_from np_ok 0.
