(* Correspondence for C09: the harness builds a primitive through the public API (create* or
   loading a small document) and records the exception class or, when accepted, nindices,
   len(index), len(prim) and every exposed (array, index) pair: rows and components of the
   array, shape and contents of the index array.  [case_ok] runs the model on the same
   abstract input and compares. *)
From Coq Require Import List Bool Arith ZArith NArith.
From PC Require Import Base.Outcome Model.IndexTable Model.PrimCtor Model.PrimIter Model.PrimLoad Check.PrimCase.
Import ListNotations.

(* tag (0 vertex, 1 normal, 2 texcoord, 3 textangent, 4 texbinormal), array rows, array
   components, index shape, index contents *)
Definition vobs := (nat * nat * nat * list nat * list N)%type.
Definition accobs := (nat * nat * nat * list vobs)%type.      (* nindices, len(index), len(prim), views *)

Definition shape_of (p : prim) : list nat :=
  match kind_k (p_kind p) with 1 => [p_nrows p] | k => [p_nrows p; k] end.

Definition obs_view (p : prim) (tag : nat) (v : view) : vobs :=
  (tag, s_len (v_src v), s_ncomp (v_src v), shape_of p, v_idx v).

Definition observe (p : prim) : accobs :=
  (p_nind p, p_nrows p, ilen (unbound p),
   (match p_vertex p with Some v => [obs_view p 0 v] | None => [] end) ++
   (match p_normal p with Some v => [obs_view p 1 v] | None => [] end) ++
   map (obs_view p 2) (p_texcoord p) ++ map (obs_view p 3) (p_textangent p) ++
   map (obs_view p 4) (p_texbinormal p)).

Definition vobs_eqb (a b : vobs) : bool :=
  let '(t1, r1, c1, s1, i1) := a in
  let '(t2, r2, c2, s2, i2) := b in
  Nat.eqb t1 t2 && Nat.eqb r1 r2 && Nat.eqb c1 c2 && eqb_list Nat.eqb s1 s2 && eqb_list N.eqb i1 i2.

Definition accobs_eqb (a b : accobs) : bool :=
  let '(n1, r1, l1, v1) := a in
  let '(n2, r2, l2, v2) := b in
  Nat.eqb n1 n2 && Nat.eqb r1 r2 && Nat.eqb l1 l2 && eqb_list vobs_eqb v1 v2.

Inductive case :=
  | CPrim (kd : kind) (srcs : list csrc) (ins : list cinput) (mat : option N) (s : stream)
          (code : nat) (acc : option accobs)
  (* the same through a loaded document: per source (rows, components after loading, S/T/P form,
     accessor stride/offset/count attributes as written); the model is [load_prim] *)
  | CPrimLoad (kd : kind) (srcs : list (nat * nat * bool * (nat * nat * nat))) (ins : list cinput)
              (mat : option N) (s : stream) (code : nat) (acc : option accobs)
  | CSource (n ncomp : nat) (code : nat)
  (* a source loaded from a document: S,T,P form or not, n values 1..n, number of <param>s;
     observed: exception code, or rows / components / data of the loaded source *)
  | CSourceLoad (stp : bool) (n nparams : nat) (code : nat) (acc : option (nat * nat * list (list Z))).

Definition xs_of (i : nat) (c : nat * nat * bool * (nat * nat * nat)) : xsource :=
  let '(n, nc, stp, (st, off, ct)) := c in
  let w := if stp then 3 else nc in
  XS stp (concat (mk_rows i n w)) w st off ct.

Fixpoint xentries (i : nat) (srcs : list (nat * nat * bool * (nat * nat * nat))) : list xentry :=
  match srcs with [] => [] | c :: r => XSrc (xs_of i c) :: xentries (S i) r end.

Definition verts_of (ins : list cinput) : list (vsem * nat) :=
  flat_map (fun ci => match snd ci with CVerts d => d | _ => [] end) ins.

Definition xin_of (nsrc : nat) (ci : cinput) : xinput :=
  let '(off, sm, t) := ci in
  (off, sm, match t with
            | CSrc i => XRef i
            | CVerts _ => XRef nsrc            (* the <vertices> element follows the sources *)
            | CMissing => XRef (S nsrc)
            | CBad => XBadRef
            end).

Definition case_ok (c : case) : bool :=
  match c with
  | CPrimLoad kd srcs ins mat s code acc =>
      let es := xentries 0 srcs ++ [XVerts (verts_of ins)] in
      match load_prim kd es (map (xin_of (length srcs)) ins) mat s, acc with
      | Ok p, Some a => Nat.eqb code 0 && accobs_eqb (observe p) a
      | Raise e, None => Nat.eqb code (exn_code e)
      | _, _ => false
      end
  | CPrim kd srcs ins mat s code acc =>
      match create kd (map (raw_of srcs) ins) mat s, acc with
      | Ok p, Some a => Nat.eqb code 0 && accobs_eqb (observe p) a
      | Raise e, None => Nat.eqb code (exn_code e)
      | _, _ => false
      end
  | CSource n ncomp code =>
      Nat.eqb code (ocode (float_source (map Z.of_nat (seq 1 n)) ncomp))
  | CSourceLoad stp n nparams code acc =>
      match float_source_load stp (map Z.of_nat (seq 1 n)) nparams, acc with
      | Ok src, Some (rows, nc, data) =>
          Nat.eqb code 0 && Nat.eqb rows (s_len src) && Nat.eqb nc (s_ncomp src) &&
          eqb_list (eqb_list Z.eqb) data (s_rows src)
      | Raise e, None => Nat.eqb code (exn_code e)
      | _, _ => false
      end
  end.

Definition mismatches := mismatches_from case_ok 0.
