(* Correspondence for C05 (three-way): the canonical view of the object pycollada loaded, the
   view the MODEL [load_doc] computes and the view the SPEC [read_doc] computes, all on the same
   XML term (written by harness/enc/xml2coq.py from an independent xml.etree reading). *)
From Coq Require Import List Bool ZArith NArith.
From PC Require Import Base.Atoms Base.Xml Base.Outcome Base.Py Model.LoadPrim Model.Namespace Model.LoadDoc.
Import ListNotations.
Local Open Scope nat_scope.

(* numeric table (class of every TNum token), the document as xml.etree reads it, optionally the same
   bytes as xml.dom.minidom reads them (a second, independent tree builder: must be the same term up to
   uids), what the implementation exposed *)
Definition case := (list N * xml * option xml * V)%type.

Definition model_view (c : case) : outcome V := let '(numtab, x, _, _) := c in load_doc numtab (erase_now x).
Definition spec_view (c : case) : outcome V := let '(numtab, x, _, _) := c in read_doc numtab (erase_now x).

Definition case_ok (c : case) : bool :=
  let '(_, x, dom, seen) := c in
  match dom with Some y => xml_eqb x y | None => true end &&
  (let '(numtab, _, _, _) := c in forallb (geom_fits numtab) (geometry_elems (erase_now x))) &&   (* guard of C05_load_is_read_guard *)
  match model_view c, spec_view c with
  | Ok a, Ok b => V_eqb a seen && V_eqb b seen
  | _, _ => false
  end.

Fixpoint mismatches_from (i : nat) (cs : list case) : list nat :=
  match cs with
  | [] => []
  | c :: r => if case_ok c then mismatches_from (S i) r else i :: mismatches_from (S i) r
  end.
Definition mismatches := mismatches_from 0.

(* diagnosis for replays: path (child positions) to the first difference between two views *)
Fixpoint vdiff (a b : V) : option (list nat) :=
  match a, b with
  | Vl x, Vl y =>
      (fix go (i : nat) (l1 l2 : list V) : option (list nat) :=
         match l1, l2 with
         | [], [] => None
         | p :: r1, q :: r2 => match vdiff p q with Some path => Some (i :: path) | None => go (S i) r1 r2 end
         | _, _ => Some [i; 999]
         end) 0 x y
  | _, _ => if V_eqb a b then None else Some []
  end.
Definition diagnose (c : case) : (nat * option (list nat) * nat * option (list nat)) :=
  let '(_, _, _, seen) := c in
  let m := match model_view c with Ok a => (0, vdiff a seen) | Raise e => (exn_code e, None) end in
  let r := match spec_view c with Ok a => (0, vdiff a seen) | Raise e => (exn_code e, None) end in
  (fst m, snd m, fst r, snd r).
