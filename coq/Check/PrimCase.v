(* Compact case encoding shared by the C09 and C10 correspondence checks: sources are
   given by (rows, components) and their data is the fixed integer pattern the harness
   also uses (harness/impl/c09.py, val); inputs refer to sources by position. *)
From Coq Require Import List Bool Arith ZArith NArith.
From PC Require Import Base.Outcome Model.IndexTable Model.PrimCtor.
Import ListNotations.

Definition mk_rows (sid n ncomp : nat) : list (list Z) :=
  map (fun r => map (fun c => Z.of_nat (97 * sid + 7 * r + c + 1)) (seq 0 ncomp)) (seq 0 n).

Definition csrc := (nat * nat)%type.                         (* rows, components *)
Inductive ctgt := CSrc (i : nat) | CVerts (d : list (vsem * nat)) | CMissing | CBad.
Definition cinput := (nat * sem * ctgt)%type.

Definition src_at (srcs : list csrc) (i : nat) : source :=
  let '(n, nc) := nth i srcs (0, 0) in Src (mk_rows i n nc) nc.

Definition raw_of (srcs : list csrc) (ci : cinput) : rawinput :=
  let '(off, s, t) := ci in
  RI off s (match t with
            | CSrc i => TSrc (src_at srcs i)
            | CVerts d => TVerts (map (fun e => (fst e, src_at srcs (snd e))) d)
            | CMissing => TMissing
            | CBad => TBadRef
            end).

Definition eqb_list {A} (eqb : A -> A -> bool) := fix go (a b : list A) : bool :=
  match a, b with
  | [], [] => true
  | x :: a', y :: b' => eqb x y && go a' b'
  | _, _ => false
  end.

Fixpoint mismatches_from {C} (ok : C -> bool) (i : nat) (cs : list C) : list nat :=
  match cs with
  | [] => []
  | c :: r => if ok c then mismatches_from ok (S i) r else i :: mismatches_from ok (S i) r
  end.
