(* Correspondence for C06.  The harness reads the written bytes with xml.dom.minidom into an
   [xml] term and encodes the content of the in-memory model (texts in the writer's documented
   formats, computed with the runtime) as a [doc] term.  The declarative reader of Model/Emit.v
   must recover from the file a content whose emission equals the emission of the model's. *)
From Coq Require Import List Bool ZArith NArith.
From PC Require Import Base.Atoms Base.Xml Model.Emit.
Import ListNotations.

Definition table := list (atom * atom).
Fixpoint lookup (t : table) (a : atom) : atom :=
  match t with [] => 0%N | (k, v) :: r => if N.eqb k a then v else lookup r a end.

(* (file as read independently, model content, id -> id ++ "-array" table) *)
Definition case := (xml * doc * table)%type.
Definition case_ok (c : case) : bool :=
  let '(x, d, t) := c in
  match read_doc x with
  | Some d' => xml_eqb (emit_doc (lookup t) d') (emit_doc (lookup t) d)
  | None => false
  end.

Fixpoint mismatches_from (i : nat) (cs : list case) : list nat :=
  match cs with
  | [] => []
  | c :: r => if case_ok c then mismatches_from (S i) r else i :: mismatches_from (S i) r
  end.
Definition mismatches := mismatches_from 0.

(* Second correspondence: collada.util._correctValInNode run on small elements.
   (tag, value, after, children before, children after as the implementation left them) *)
Definition cv_case := (atom * option toks * option (list atom) * list xml * list xml)%type.
Definition cv_ok (c : cv_case) : bool :=
  let '(t, v, after, before, got) := c in
  let want := correct_val t v after before in
  list_eqb xml_eqb want got && list_eqb N.eqb (map xuid want) (map xuid got).
Fixpoint cv_mismatches_from (i : nat) (cs : list cv_case) : list nat :=
  match cs with
  | [] => []
  | c :: r => if cv_ok c then cv_mismatches_from (S i) r else i :: cv_mismatches_from (S i) r
  end.
Definition cv_mismatches := cv_mismatches_from 0.
