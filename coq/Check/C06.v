(* Correspondence for C06.  The harness reads the written bytes with xml.dom.minidom into an
   [xml] term and encodes the content of the in-memory model (texts in the writer's documented
   formats, computed with the runtime) as a [doc] term.  The declarative reader of Model/Emit.v
   must recover from the file a content whose emission equals the emission of the model's. *)
From Coq Require Import List Bool ZArith NArith.
From PC Require Import Base.Atoms Base.Xml Model.Emit.
Import ListNotations.

Definition table := list (atom * atom).
Fixpoint lookup (t : table) (a : atom) : atom :=
  match t with [] => 0%N | (k, v) :: r => if N.eqb k a then v else lookup r a end.

(* (file as read independently, model content, id -> id ++ "-array" table) *)
Definition case := (xml * doc * table)%type.
Definition case_ok (c : case) : bool :=
  let '(x, d, t) := c in
  match read_doc x with
  | Some d' => xml_eqb (emit_doc (lookup t) d') (emit_doc (lookup t) d)
  | None => false
  end.

Fixpoint mismatches_from (i : nat) (cs : list case) : list nat :=
  match cs with
  | [] => []
  | c :: r => if case_ok c then mismatches_from (S i) r else i :: mismatches_from (S i) r
  end.
Definition mismatches := mismatches_from 0.
