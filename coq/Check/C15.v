(* Correspondence for C15: a document x (as written, namespace ns), the same bytes with the namespace
   URI replaced by ns' read independently as x', and what pycollada exposed after loading the
   replaced bytes.  Checked inside Coq: the textual replacement is [retag_doc ns' x]; ns' is fresh for
   x; the model's view of x' and of x both equal what the implementation exposed for x'. *)
From Coq Require Import List Bool ZArith NArith.
From PC Require Import Base.Atoms Base.Xml Base.Outcome Model.LoadPrim Model.Namespace Model.LoadDoc.
Import ListNotations.
Local Open Scope nat_scope.

Definition case := (list N * xml * atom * xml * V)%type.

Definition case_ok (c : case) : bool :=
  let '(numtab, x, ns', x', seen) := c in
  xml_eqb (retag_doc ns' x) x' && negb (uses_ns ns' x) &&
  match load_doc numtab (erase_now x'), load_doc numtab (erase_now x) with
  | Ok a, Ok b => V_eqb a seen && V_eqb b seen
  | _, _ => false
  end.

Fixpoint mismatches_from (i : nat) (cs : list case) : list nat :=
  match cs with
  | [] => []
  | c :: r => if case_ok c then mismatches_from (S i) r else i :: mismatches_from (S i) r
  end.
Definition mismatches := mismatches_from 0.

(* which conjunct failed: 1 retag, 2 freshness, 3 a model load failed, 4 view of x', 5 view of x *)
Definition diagnose (c : case) : nat :=
  let '(numtab, x, ns', x', seen) := c in
  if negb (xml_eqb (retag_doc ns' x) x') then 1 else
  if uses_ns ns' x then 2 else
  match load_doc numtab (erase_now x'), load_doc numtab (erase_now x) with
  | Ok a, Ok b => if negb (V_eqb a seen) then 4 else if negb (V_eqb b seen) then 5 else 0
  | _, _ => 3
  end.
