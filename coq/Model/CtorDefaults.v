(* C04 - the defaults the constructors apply to what the user passes, as Gallina functions from
   the raw arguments to the content of Model/EmitDoc.v (material.py: Effect.__init__ - transparency
   None becomes 1.0 for A_ONE and 0.0 for RGB_ZERO, _fixColorValues pads a colour to RGBA with
   0.0 up to three and 1.0 for alpha; Surface.__init__: format None becomes "A8R8G8B8";
   scene.py: Node.__init__: name None becomes the id).  The harness encoder applies the same
   conventions; stating them here makes them obligations of the model.  No proofs here. *)
From Coq Require Import List Bool ZArith NArith.
From PC Require Import Base.Atoms Base.Xml Model.SchemaSyntax Model.Schema Model.Bookkeeping Model.EmitDoc.
Import ListNotations.

Section Defaults.
  Variable zero one : tok.          (* the tokens of 0.0 and 1.0 as the runtime prints them *)
  Variable fmt0 : toks.             (* "A8R8G8B8" *)

  Definition default_transparency (rgbzero : bool) (o : option pval) : option pval :=
    match o with Some v => Some v | None => Some (VFloat [if rgbzero then zero else one]) end.

  Definition pad_colour (l : toks) : toks :=
    let l3 := l ++ repeat zero (3 - length l) in l3 ++ repeat one (4 - length l3).

  Definition fix_colour (v : pval) : pval := match v with VColor l => VColor (pad_colour l) | _ => v end.

  Definition node_name (id : aval) (name : option aval) : aval := match name with Some n => n | None => id end.

  Definition surface_format (o : option toks) : toks := match o with Some f => f | None => fmt0 end.

  (* Effect(...) as called by the user -> the content that is written *)
  Definition ctor_effect (id sid : aval) (ps : list eparam) (sh : shader)
             (em am di sp shi rf rfy tr try_ ior : option pval) (rgbzero : bool) (ds : toks) : effect :=
    Effect id sid ps sh (option_map fix_colour em) (option_map fix_colour am) (option_map fix_colour di)
           (option_map fix_colour sp) shi (option_map fix_colour rf) rfy (option_map fix_colour tr)
           (default_transparency rgbzero try_) ior rgbzero ds.

  Definition ctor_node (id : aval) (name : option aval) (ts : list (tkind * toks)) (kids : list snode) : snode :=
    SNode id (node_name id name) ts kids.

  Definition ctor_surface (sid : aval) (img : toks) (format : option toks) : eparam :=
    PSurface sid img (surface_format format).
End Defaults.
