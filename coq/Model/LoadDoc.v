(* C05 / C15 - the document loader (Collada.__init__ and the class loaders it calls) as a total
   function of the erased tree (Model/Namespace.v), producing the canonical view the harness also
   takes from the loaded Collada object, and the declarative reading [read_doc] of the same tree.

   Stage 1 (modelled and compared on every run): float / Name / IDREF sources, <vertices>, the six
   primitive elements, geometry, the five transforms, nodes (recursive), the five instance
   elements with bind_material, library_nodes with deferred instance_node, visual scenes, the four
   lights, the two cameras, material -> effect, default scene, controller and animation sources.
   Effects are modelled as (uid, id) only; images, asset, effect internals and the skin / morph
   bookkeeping are covered by the direct oracle (notes/C05.md: "modelled, not verified").

   Errors: the model is of a load with an empty error mask (ignore=None): handleError re-raises, so
   every DaeError aborts the load; the non-DaeError DaeInstanceNotLoadedError is [Raise PyOther].
   Ids that are not plain names (numeric, "#x") are outside the modelled grammar ([Raise OutOfFuel]). *)
From Coq Require Import List Bool ZArith NArith Lia.
From PC Require Import Base.Atoms Base.Xml Base.Outcome Base.Py Model.LoadPrim Model.Namespace.
Import ListNotations.
Local Open Scope nat_scope.

(* ------------------------------------------------------------------ the canonical view *)

Inductive V := Vn (n : N) | Vz (z : Z) | Vl (l : list V) | Vnone.

Fixpoint V_eqb (a b : V) : bool :=
  match a, b with
  | Vn x, Vn y => N.eqb x y
  | Vz x, Vz y => Z.eqb x y
  | Vnone, Vnone => true
  | Vl x, Vl y =>
      (fix go (l1 l2 : list V) : bool :=
         match l1, l2 with
         | [], [] => true
         | p :: r1, q :: r2 => V_eqb p q && go r1 r2
         | _, _ => false
         end) x y
  | _, _ => false
  end.

Definition Vb (b : bool) : V := Vn (if b then 1 else 0)%N.
Definition Vnat (n : nat) : V := Vn (N.of_nat n).
Definition Vaval (v : aval) : V :=
  match v with
  | AStr a => Vl [Vn 0%N; Vn a]
  | ARef h a => Vl [Vn 1%N; Vb h; Vn a]
  | AInt z => Vl [Vn 2%N; Vz z]
  end.
Definition Vopt {A} (f : A -> V) (o : option A) : V := match o with Some x => f x | None => Vnone end.
Definition Voaval := Vopt Vaval.
Definition Vtok (t : tok) : V :=
  match t with TWord a => Vn a | TInt z => Vz z | TNum k => Vl [Vn 9%N; Vn k] end.

(* ------------------------------------------------------------------ element access (through the document's tags only) *)

Definition has_own (t : atom) (e : et) : bool := match eown e with Some u => N.eqb u t | None => false end.
Definition has_hard (t : atom) (e : et) : bool := match ehard e with Some u => N.eqb u t | None => false end.
Definition efind (t : atom) (e : et) : option et := List.find (has_own t) (ekids e).
Definition efindall (t : atom) (e : et) : list et := List.filter (has_own t) (ekids e).
Definition efind_hard (t : atom) (e : et) : option et := List.find (has_hard t) (ekids e).
(* findall('a/b/c'), find('a/b/c') *)
Fixpoint efindall_path (p : list atom) (e : et) : list et :=
  match p with
  | [] => [e]
  | t :: r => flat_map (efindall_path r) (efindall t e)
  end.
Fixpoint efindall_path_hard (p : list atom) (e : et) : list et :=
  match p with
  | [] => [e]
  | t :: r => flat_map (efindall_path_hard r) (List.filter (has_hard t) (ekids e))
  end.
Definition efind_path (p : list atom) (e : et) : option et := hd_error (efindall_path p e).
Definition eattr (n : atom) (e : et) : option aval := attr n (eattrs e).

(* all proper descendants, document order *)
Fixpoint descendants (e : et) : list et :=
  let 'ET _ _ _ _ _ k := e in
  (fix go (l : list et) : list et := match l with [] => [] | c :: r => c :: descendants c ++ go r end) k.
(* find('.//extra//t') *)
Definition find_under_extra (t : atom) (e : et) : option et :=
  hd_error (flat_map (fun x => List.filter (has_own t) (descendants x)) (List.filter (has_own a_extra) (descendants e))).

(* ------------------------------------------------------------------ numbers *)

Definition int_class (z : Z) : N := if (0 <=? z)%Z then (2 * Z.to_N z)%N else (2 * Z.to_N (- z) + 1)%N.
Definition cls (numtab : list N) (t : tok) : option N :=
  match t with
  | TInt z => Some (int_class z)
  | TNum k => nth_error numtab (N.to_nat k)
  | TWord _ => None
  end.
Fixpoint classes (numtab : list N) (l : list tok) : option (list N) :=
  match l with
  | [] => Some []
  | t :: r => match cls numtab t, classes numtab r with Some c, Some cs => Some (c :: cs) | _, _ => None end
  end.
(* numpy.fromstring(node.text, float32, sep=' ') / [float(v) for v in text.split()] *)
Definition floats_of_text (numtab : list N) (t : option (list tok)) : outcome (list N) :=
  match t with
  | None => Raise PyTypeError
  | Some l => of_option DaeMalformed (classes numtab l)
  end.
(* float(node.text) *)
Definition float_of_text (numtab : list N) (t : option (list tok)) : outcome N :=
  match t with
  | None => Raise PyTypeError
  | Some [x] => of_option DaeMalformed (cls numtab x)
  | Some _ => Raise DaeMalformed
  end.
Definition opt_float (numtab : list N) (o : option et) : outcome (option N) :=
  match o with None => Ok None | Some n => omap Some (float_of_text numtab (etext n)) end.

(* ------------------------------------------------------------------ sources *)

Inductive sdata := DFloat (d : list N) | DWords (d : list tok).
Record source_view := mkSV { s_uid : N; s_id : option aval; s_kind : N; s_comps : list (option aval);
                             s_rows : nat; s_data : sdata }.

Definition param_names (ps : list et) : list (option aval) := map (eattr a_name) ps.

Definition load_float_source (numtab : list N) (e arr : et) : outcome source_view :=
  obind (match etext arr with
         | None | Some [] => Ok []
         | Some l => of_option DaeMalformed (classes numtab l)
         end) (fun data =>
  let ps := efindall_path [a_technique_common; a_accessor; a_param] e in
  obind (normalise_source (param_names ps) data) (fun cd =>
  let n := length (fst cd) in
  if negb (Nat.eqb (Nat.modulo (length (snd cd)) n) 0) then Raise DaeMalformed
  else Ok (mkSV (euid e) (eattr a_id e) 0%N (fst cd) (Nat.div (length (snd cd)) n) (DFloat (snd cd))))).

(* IDRefSource.load / NameSource.load: the array (and, for Name sources, the params) are looked up
   with the tag tests of the `hard` field (see Model/Namespace.v) *)
Definition load_word_source (kind : N) (arrtag : atom) (e : et) : outcome source_view :=
  match efind_hard arrtag e with
  | None => Raise DaeIncomplete
  | Some arr =>
      let data := match etext arr with Some l => l | None => [] end in
      let ps := if N.eqb kind 2%N then efindall_path_hard [a_technique_common; a_accessor; a_param] e
                else efindall_path [a_technique_common; a_accessor; a_param] e in
      match ps with
      | [] => Raise DaeIncomplete
      | _ => let n := length ps in
             if negb (Nat.eqb (Nat.modulo (length data) n) 0) then Raise PyValueError
             else Ok (mkSV (euid e) (eattr a_id e) kind (param_names ps) (Nat.div (length data) n) (DWords data))
      end
  end.

(* Source.load *)
Definition load_source (numtab : list N) (e : et) : outcome source_view :=
  match efind a_float_array e with
  | Some arr => load_float_source numtab e arr
  | None =>
    match efind a_IDREF_array e with
    | Some _ => load_word_source 1%N a_IDREF_array e
    | None =>
      match efind a_Name_array e with
      | Some _ => load_word_source 2%N a_Name_array e
      | None => Raise DaeIncomplete
      end
    end
  end.

(* SPEC: what the file says a float source holds *)
Definition read_float_source (numtab : list N) (e : et) : option source_view :=
  match efind a_float_array e with
  | None => None
  | Some arr =>
      match classes numtab (match etext arr with Some l => l | None => [] end) with
      | None => None
      | Some data =>
          let names := param_names (efindall_path [a_technique_common; a_accessor; a_param] e) in
          let c := spec_comps names in
          let d := spec_data names data in
          match c with
          | [] => None
          | _ => Some (mkSV (euid e) (eattr a_id e) 0%N c (Nat.div (length d) (length c)) (DFloat d))
          end
      end
  end.

(* any <source>: float arrays by the declarative reading, Name / IDREF arrays as they are *)
Definition read_source (numtab : list N) (e : et) : option source_view :=
  match efind a_float_array e with
  | Some _ => read_float_source numtab e
  | None => match load_source numtab e with Ok s => Some s | Raise _ => None end
  end.

Definition Vsource (s : source_view) : V :=
  Vl [Vn (s_uid s); Voaval (s_id s); Vn (s_kind s); Vl (map Voaval (s_comps s)); Vnat (s_rows s);
      match s_data s with DFloat d => Vl (map Vn d) | DWords d => Vl (map Vtok d) end].

Definition id_atom (o : option aval) : outcome atom :=
  match o with Some (AStr a) => Ok a | _ => Raise OutOfFuel end.

(* ------------------------------------------------------------------ geometry *)

Definition atom_attr (n : atom) (e : et) : outcome atom := id_atom (eattr n e).

Definition load_input (e : et) : outcome input :=
  obind (match eattr a_offset e with
         | None => Raise PyTypeError
         | Some (AInt z) => if (0 <=? z)%Z then Ok (Z.to_nat z) else Raise OutOfFuel
         | Some _ => Raise DaeMalformed
         end) (fun off =>
  obind (atom_attr a_semantic e) (fun sem =>
  match eattr a_source e with
  | None => Raise PyTypeError
  | Some src => Ok (mkInput off sem src (eattr a_set e))
  end)).

Definition pkind_of (e : et) : option pkind :=
  if has_own a_triangles e then Some KTriangles else
  if has_own a_tristrips e then Some KStrips else
  if has_own a_trifans e then Some KFans else
  if has_own a_lines e then Some KLines else
  if has_own a_polylist e then Some KPolylist else
  if has_own a_polygons e then Some KPolygons else None.

Definition kind_code (k : pkind) : N :=
  match k with KTriangles | KStrips | KFans => 3%N | KLines => 2%N | KPolylist => 1%N | KPolygons => 0%N end.

Record prim_view := mkPrim { p_uid : N; p_kind : pkind; p_material : option aval; p_view : pview }.

Definition load_prim (sc : scope) (k : pkind) (e : et) : outcome prim_view :=
  obind (omapM load_input (efindall a_input e)) (fun ins =>
  obind (load_primitive sc k ins (option_map etext (efind a_vcount e)) (map etext (efindall a_p e))) (fun pv =>
  Ok (mkPrim (euid e) k (eattr a_material e) pv))).

(* <vertices>: semantic -> source id it resolved to *)
Definition vertices_entry (sc : scope) (i : et) : outcome (atom * option atom) :=
  match eattr a_semantic i, eattr a_source i with
  | Some (AStr sem), Some (ARef true s) =>
      Ok (sem, match dget N.eqb sc s with Some (ESrc _) => Some s | _ => None end)
  | _, _ => Raise DaeIncomplete
  end.
Fixpoint dict_of {B} (l : list (atom * B)) (acc : list (atom * B)) : list (atom * B) :=
  match l with [] => acc | (k, v) :: r => dict_of r (dset N.eqb acc k v) end.

(* checkSource: length, then the component tuple is overwritten when it has the expected length *)
Definition apply_check (srcs : list source_view) (c : N * list atom * Z) : outcome (list source_view) :=
  let '(u, comps, mx) := c in
  let expected := map nm comps in
  (fix go (l : list source_view) : outcome (list source_view) :=
     match l with
     | [] => Ok []
     | s :: r =>
         if N.eqb (s_uid s) u then
           if (Z.of_nat (s_rows s) <=? mx)%Z then Raise DaeMalformed
           else if Nat.eqb (length (s_comps s)) (length expected)
                then omap (cons (mkSV (s_uid s) (s_id s) (s_kind s) expected (s_rows s) (s_data s))) (go r)
                else Raise DaeMalformed
         else omap (cons s) (go r)
     end) srcs.
Fixpoint apply_checks (srcs : list source_view) (cs : list (N * list atom * Z)) : outcome (list source_view) :=
  match cs with [] => Ok srcs | c :: r => obind (apply_check srcs c) (fun s' => apply_checks s' r) end.

Record geom_view := mkGeom { g_uid : N; g_id : aval; g_name : aval; g_double_sided : bool;
                             g_sources : list source_view;          (* document order *)
                             g_keys : list (atom * entry);          (* sourceById: key -> what it maps to *)
                             g_prims : list prim_view }.

Definition or_empty (o : option aval) : aval := match o with Some v => v | None => AStr a_empty end.
Definition flag_one (o : option et) : bool :=
  match o with Some d => match etext d with Some [TInt 1%Z] => true | _ => false end | None => false end.

Fixpoint load_prims (sc : scope) (srcs : list source_view) (kids : list et)
  : outcome (list prim_view * list source_view) :=
  match kids with
  | [] => Ok ([], srcs)
  | c :: r =>
      match pkind_of c with
      | Some k =>
          obind (load_prim sc k c) (fun p =>
          obind (apply_checks srcs (pv_checks (p_view p))) (fun srcs' =>
          obind (load_prims sc srcs' r) (fun rest => Ok (p :: fst rest, snd rest))))
      | None =>
          if has_own a_source c || has_own a_vertices c || has_own a_extra c then load_prims sc srcs r
          else Raise DaeUnsupported
      end
  end.

Definition load_geometry (numtab : list N) (e : et) : outcome geom_view :=
  match efind a_mesh e with
  | None => Raise DaeUnsupported
  | Some mesh =>
    obind (omapM (load_source numtab) (efindall_path [a_mesh; a_source] e)) (fun srcs =>
    obind (omapM (fun s => omap (fun a => (a, ESrc (s_uid s))) (id_atom (s_id s))) srcs) (fun kv =>
    let sc0 := dict_of kv [] in
    obind (match efind a_vertices mesh with
           | None => Ok sc0
           | Some v =>
               obind (omapM (vertices_entry sc0) (efindall a_input v)) (fun es =>
               let d := dict_of es [] in
               match eattr a_id v, d with
               | None, _ | _, [] => Raise DaeIncomplete
               | Some vid, _ =>
                   if existsb (fun p => N.eqb (fst p) a_POSITION) d
                   then omap (fun a => dset N.eqb sc0 a (EVerts d)) (id_atom (Some vid))
                   else Raise DaeIncomplete
               end)
           end) (fun sc =>
    obind (load_prims sc srcs (ekids mesh)) (fun ps =>
    Ok (mkGeom (euid e) (or_empty (eattr a_id e)) (or_empty (eattr a_name e))
               (flag_one (find_under_extra a_double_sided e)) (snd ps) sc (fst ps))))))
  end.

Definition Vrinput (r : rinput) : V :=
  Vl [Vnat (r_off r); Vn (r_sem r); Vn (r_ref r); Voaval (r_set r); Vn (r_uid r)].
Definition Vsview (s : sview) : V := Vl [Vn (fst s); Vl (map Vz (snd s))].
Definition Vpview (u : N) (k : pkind) (m : option aval) (p : pview) : V :=
  Vl [Vn u; Vn (kind_code k); Voaval m; Vnat (pv_nind p); Vl (map (fun b => Vl (map Vrinput b)) (pv_table p));
      Vnat (pv_count p); Vopt Vsview (pv_vertex p); Vopt Vsview (pv_normal p);
      Vl (map Vsview (pv_tex p)); Vl (map Vsview (pv_textan p)); Vl (map Vsview (pv_texbin p));
      Vopt (fun t => Vl [Vl (map Vz (fst (fst t))); Vl (map Vz (snd (fst t))); Vl (map Vz (snd t))]) (pv_poly p)].
Definition Vprim (p : prim_view) : V := Vpview (p_uid p) (p_kind p) (p_material p) (p_view p).

Definition src_uid (sc : scope) (o : option atom) : V :=
  match o with
  | Some s => match dget N.eqb sc s with Some (ESrc u) => Vn u | _ => Vnone end
  | None => Vnone
  end.
Definition Vkey (sc : scope) (srcs : list source_view) (kv : atom * entry) : V :=
  match snd kv with
  | ESrc u => Vl [Vn 0%N; Vn (fst kv);
                  match List.find (fun s => N.eqb (s_uid s) u) srcs with Some s => Vsource s | None => Vnone end]
  | EVerts d => Vl [Vn 1%N; Vn (fst kv); Vl (map (fun p => Vl [Vn (fst p); src_uid sc (snd p)]) d)]
  end.
Definition Vgeom (g : geom_view) : V :=
  Vl [Vn (g_uid g); Vaval (g_id g); Vaval (g_name g); Vb (g_double_sided g);
      Vl (map (Vkey (g_keys g) (g_sources g)) (g_keys g)); Vl (map Vprim (g_prims g))].

(* ---- SPEC: the primitive as the file says it (direct indexing, per-semantic input lists) *)

Definition resolve_spec (sc : scope) (i : input) : option rinput :=
  match ref_id (i_src i) with
  | Some a => match dget N.eqb sc a with Some (ESrc u) => Some (mkR (i_off i) (i_sem i) a (i_set i) u) | _ => None end
  | None => None
  end.
Fixpoint all_some {A} (l : list (option A)) : option (list A) :=
  match l with
  | [] => Some []
  | Some x :: r => option_map (cons x) (all_some r)
  | None :: _ => None
  end.
Definition spec_rbucket (sc : scope) (ins : list input) (sem : atom) : option (list rinput) :=
  all_some (map (resolve_spec sc) (spec_bucket sc ins sem)).

Definition single_p (k : pkind) : bool := match k with KTriangles | KLines | KPolylist => true | _ => false end.
Definition is_poly (k : pkind) : bool := match k with KPolylist | KPolygons => true | _ => false end.
Definition is_tri_kind (k : pkind) : bool := match k with KTriangles | KStrips | KFans => true | _ => false end.

(* the primitive as the file says it.  Conventions: only the first <p> of <triangles>, <lines> and
   <polylist> is read; nindices is one more than the largest offset among the inputs of the eight
   known semantics (after the <vertices> expansion) *)
Definition read_primitive (sc : scope) (k : pkind) (ins : list input)
           (vcount : option (option (list tok))) (ps : list (option (list tok))) : option pview :=
  let used := if single_p k then firstn 1 ps else ps in
  match all_some (map parse_index used), all_some (map (spec_rbucket sc ins) known_sems) with
  | Some pl, Some table =>
    match concat table with
    | [] => None
    | _ =>
    let nind := S (fold_right Nat.max 0 (map r_off (concat table))) in
    let kk := corners_per k in
    let cs := spec_corners k nind pl in
    let rows := length cs in
    let ok_p := forallb (fun p => Nat.eqb (Nat.modulo (length p) nind) 0) pl in
    let vc := match k with
              | KPolylist => match vcount with Some t => option_map Some (parse_index t) | None => None end
              | KPolygons => Some (Some (polygons_vcounts nind pl))
              | _ => Some None
              end in
    match vc with
    | None => None
    | Some vco =>
      if negb ok_p || negb (Nat.eqb (Nat.modulo rows kk) 0)
         || match vco with Some vcl => negb (Z.eqb (sumZ vcl) (Z.of_nat rows)) | None => false end
         || match ps, k with [], KPolygons => false | [], _ => true | _, _ => false end
      then None else
      let view r := (r_uid r, spec_index nind (r_off r) pl cs) in
      let nonempty := negb (Nat.eqb rows 0) in
      let first (i : nat) := if nonempty then option_map view (hd_error (nth i table [])) else None in
      let every (i : nat) := if nonempty then map view (nth i table []) else [] in
      match nth 0 table [], nonempty with
      | [], true => None
      | _, _ =>
        Some (mkPV nind table (Nat.div rows kk) (first 0) (first 1) (every 2)
                   (if is_tri_kind k then every 4 else []) (if is_tri_kind k then every 3 else [])
                   (option_map (fun vcl => let idx := seq 0 (length vcl) in
                                           (vcl, map (spec_start vcl) idx, map (spec_end vcl) idx)) vco)
                   [])
      end
    end
    end
  | _, _ => None
  end.

Definition read_prim (sc : scope) (k : pkind) (e : et) : option prim_view :=
  match omapM load_input (efindall a_input e) with
  | Ok ins =>
      option_map (mkPrim (euid e) k (eattr a_material e))
                 (read_primitive sc k ins (option_map etext (efind a_vcount e)) (map etext (efindall a_p e)))
  | Raise _ => None
  end.

(* the geometry as the file says it: sources with the documented normalisations only *)
Definition read_geometry (numtab : list N) (e : et) : option geom_view :=
  match efind a_mesh e with
  | None => None
  | Some mesh =>
    match all_some (map (read_source numtab) (efindall_path [a_mesh; a_source] e)) with
    | None => None
    | Some srcs =>
      match omapM (fun s => omap (fun a => (a, ESrc (s_uid s))) (id_atom (s_id s))) srcs with
      | Raise _ => None
      | Ok kv =>
        let sc0 := dict_of kv [] in
        let osc := match efind a_vertices mesh with
                   | None => Some sc0
                   | Some v =>
                       match omapM (vertices_entry sc0) (efindall a_input v), eattr a_id v with
                       | Ok es, Some (AStr vid) => Some (dset N.eqb sc0 vid (EVerts (dict_of es [])))
                       | _, _ => None
                       end
                   end in
        match osc with
        | None => None
        | Some sc =>
          match all_some (flat_map (fun c => match pkind_of c with Some k => [read_prim sc k c] | None => [] end) (ekids mesh)) with
          | None => None
          | Some ps => Some (mkGeom (euid e) (or_empty (eattr a_id e)) (or_empty (eattr a_name e))
                                    (flag_one (find_under_extra a_double_sided e)) srcs sc ps)
          end
        end
      end
    end
  end.

(* ---- the guard of C05_load_is_read, as a computation: no checkSource call of this geometry renamed a
   source (the sources Geometry.load ends with are the sources FloatSource.load produced) *)
Definition sdata_eqb (a b : sdata) : bool :=
  match a, b with
  | DFloat x, DFloat y => list_eqb N.eqb x y
  | DWords x, DWords y => list_eqb tok_eqb x y
  | _, _ => false
  end.
Definition source_view_eqb (a b : source_view) : bool :=
  N.eqb (s_uid a) (s_uid b) && opt_eqb aval_eqb (s_id a) (s_id b) && N.eqb (s_kind a) (s_kind b) &&
  comps_eqb (s_comps a) (s_comps b) && Nat.eqb (s_rows a) (s_rows b) && sdata_eqb (s_data a) (s_data b).
Definition geom_fits (numtab : list N) (e : et) : bool :=
  match load_geometry numtab e, omapM (load_source numtab) (efindall_path [a_mesh; a_source] e) with
  | Ok g, Ok srcs => list_eqb source_view_eqb (g_sources g) srcs
  | _, _ => true
  end.

(* ------------------------------------------------------------------ libraries by id *)

(* IndexedList.get: the last object appended with that id *)
Definition lib := list (option aval * N).
Fixpoint lib_get (l : lib) (a : atom) : option N :=
  match l with
  | [] => None
  | (k, u) :: r => match lib_get r a with
                   | Some v => Some v
                   | None => match k with Some (AStr b) => if N.eqb a b then Some u else None | _ => None end
                   end
  end.

(* `url = node.get(attr); if not url.startswith('#'): DaeMalformed; lib.get(url[1:]) or DaeBrokenRef` *)
Definition resolve_url (l : lib) (o : option aval) : outcome N :=
  match o with
  | None => Raise PyAttributeError
  | Some (ARef true a) => of_option DaeBrokenRef (lib_get l a)
  | Some _ => Raise DaeMalformed
  end.

(* ------------------------------------------------------------------ lights, cameras, materials *)

Definition first_kid (e : et) : option et := hd_error (ekids e).

Record light_view := mkLight { l_uid : N; l_id : option aval; l_kind : atom; l_color : list N; l_params : list (option N) }.
Definition Vlight (l : light_view) : V :=
  Vl [Vn (l_uid l); Voaval (l_id l); Vn (l_kind l); Vl (map Vn (l_color l)); Vl (map (Vopt Vn) (l_params l))].

(* Light.load and the four class loaders *)
Definition load_light_t (numtab : list N) (e : et) : outcome light_view :=
  match efind a_technique_common e with
  | None => Raise DaeIncomplete
  | Some tec =>
    match first_kid tec with
    | None => Raise DaeIncomplete
    | Some ln =>
      let kind := if has_own a_directional ln then Some a_directional else
                  if has_own a_point ln then Some a_point else
                  if has_own a_ambient ln then Some a_ambient else
                  if has_own a_spot ln then Some a_spot else None in
      match kind with
      | None => Raise DaeUnsupported
      | Some k =>
        match efind_path [a_technique_common; k] e with
        | None => if N.eqb k a_point || N.eqb k a_spot then Raise PyAttributeError else Raise DaeIncomplete
        | Some pnode =>
          match efind a_color pnode with
          | None => Raise DaeIncomplete
          | Some cn =>
            obind (match etext cn with None => Raise PyAttributeError
                                     | Some l => of_option DaeMalformed (classes numtab l) end) (fun color =>
            let f t := opt_float numtab (efind t pnode) in
            obind (if N.eqb k a_point then
                     obind (f a_quadratic_attenuation) (fun q => obind (f a_constant_attenuation) (fun c =>
                     obind (f a_linear_attenuation) (fun l => obind (f a_zfar) (fun z => Ok [c; l; q; z]))))
                   else if N.eqb k a_spot then
                     obind (f a_constant_attenuation) (fun c => obind (f a_linear_attenuation) (fun l =>
                     obind (f a_quadratic_attenuation) (fun q => obind (f a_falloff_angle) (fun a =>
                     obind (f a_falloff_exponent) (fun x => Ok [c; l; q; a; x])))))
                   else Ok []) (fun params =>
            Ok (mkLight (euid e) (eattr a_id e) k color params)))
          end
        end
      end
    end
  end.
Definition load_light (numtab : list N) (e : et) : outcome V := omap Vlight (load_light_t numtab e).

(* SPEC: a light as the file says it.  The kind is the element under technique_common (one of four); the
   colour its <color>; the parameters of the kind, in a fixed order, each either the number in the element
   of that name or absent (pycollada's None: the COLLADA default applies) *)
Definition light_kinds : list atom := [a_directional; a_point; a_ambient; a_spot].
Definition light_param_names (k : atom) : list atom :=
  if N.eqb k a_point then [a_constant_attenuation; a_linear_attenuation; a_quadratic_attenuation; a_zfar]
  else if N.eqb k a_spot then [a_constant_attenuation; a_linear_attenuation; a_quadratic_attenuation;
                               a_falloff_angle; a_falloff_exponent]
  else [].
Definition read_opt_float (numtab : list N) (o : option et) : option (option N) :=
  match o with
  | None => Some None
  | Some n => match etext n with Some [x] => option_map Some (cls numtab x) | _ => None end
  end.
Definition read_light (numtab : list N) (e : et) : option light_view :=
  match efind a_technique_common e with
  | None => None
  | Some tec =>
    match first_kid tec with
    | None => None
    | Some ln =>
      match eown ln with
      | None => None
      | Some k =>
        if negb (existsb (N.eqb k) light_kinds) then None else
        match efind_path [a_technique_common; k] e with
        | None => None
        | Some pnode =>
          match efind a_color pnode with
          | None => None
          | Some cn =>
            match etext cn with
            | None => None
            | Some l =>
              match classes numtab l,
                    all_some (map (fun nme => read_opt_float numtab (efind nme pnode)) (light_param_names k)) with
              | Some color, Some params => Some (mkLight (euid e) (eattr a_id e) k color params)
              | _, _ => None
              end
            end
          end
        end
      end
    end
  end.

(* the five values of a camera as the file gives them, and what the constructor keeps *)
Record cam := mkCam { c_x : option N; c_y : option N; c_ar : option N; c_near : N; c_far : N }.

(* PerspectiveCamera.load / OrthographicCamera.load after the elements are parsed: the aspect ratio
   is dropped when all three are given; _checkValidParams rejects the remaining invalid combinations *)
Definition camera_ctor (c : cam) : outcome cam :=
  let ar' := match c_x c, c_y c, c_ar c with Some _, Some _, Some _ => None | _, _, _ => c_ar c end in
  match c_x c, c_y c, ar' with
  | None, None, _ | Some _, Some _, Some _ => Raise DaeMalformed
  | _, _, _ => Ok (mkCam (c_x c) (c_y c) ar' (c_near c) (c_far c))
  end.

Definition camera_values (numtab : list N) (pn : et) (xa ya : atom) : outcome cam :=
  (* float(None.text) is an AttributeError, float(None) a TypeError (caught: DaeMalformed) *)
  let req t := match efind t pn with
               | None => Raise PyAttributeError
               | Some n => match etext n with None => Raise DaeMalformed | t' => float_of_text numtab t' end
               end in
  let opt t := match efind t pn with
               | None => Ok None
               | Some n => match etext n with None => Raise DaeMalformed | t' => omap Some (float_of_text numtab t') end
               end in
  obind (opt xa) (fun x => obind (opt ya) (fun y => obind (opt a_aspect_ratio) (fun ar =>
  obind (req a_znear) (fun zn => obind (req a_zfar) (fun zf => Ok (mkCam x y ar zn zf)))))).

Definition load_camera (numtab : list N) (e : et) : outcome V :=
  match efind_path [a_optics; a_technique_common] e with
  | None => Raise DaeIncomplete
  | Some tec =>
    match first_kid tec with
    | None => Raise DaeIncomplete
    | Some cn =>
      let kind := if has_own a_perspective cn then Some (a_perspective, a_xfov, a_yfov) else
                  if has_own a_orthographic cn then Some (a_orthographic, a_xmag, a_ymag) else None in
      match kind with
      | None => Raise DaeUnsupported
      | Some (k, xa, ya) =>
        match efind_path [a_optics; a_technique_common; k] e with
        | None => Raise DaeIncomplete
        | Some pn =>
          obind (camera_values numtab pn xa ya) (fun c0 =>
          obind (camera_ctor c0) (fun c =>
          Ok (Vl [Vn (euid e); Vaval (or_empty (eattr a_id e)); Vn k; Vopt Vn (c_x c); Vopt Vn (c_y c); Vopt Vn (c_ar c);
                  Vn (c_near c); Vn (c_far c)])))
        end
      end
    end
  end.

Definition load_material (effects : lib) (e : et) : outcome (option aval * N * V) :=
  match efind a_instance_effect e with
  | None => Raise DaeIncomplete
  | Some eff =>
    obind (resolve_url effects (eattr a_url eff)) (fun target =>
    Ok (eattr a_id e, euid e, Vl [Vn (euid e); Voaval (eattr a_id e); Voaval (eattr a_name e); Vn target]))
  end.

(* ------------------------------------------------------------------ images and effects (Stage 2) *)

(* three element names that are not in the shared vocabulary: the harness interns them first in every
   case, so they are always the first three dynamic atoms *)
Definition a_float2 : atom := dyn_base.
Definition a_float3 : atom := (dyn_base + 1)%N.
Definition a_float4 : atom := (dyn_base + 2)%N.

Definition Vtext (t : option (list tok)) : V := Vopt (fun l => Vl (map Vtok l)) t.

(* CImage.load *)
Definition load_image (e : et) : outcome (option aval * N * V) :=
  match efind a_init_from e with
  | None => Raise DaeIncomplete
  | Some i => Ok (eattr a_id e, euid e, Vl [Vn (euid e); Voaval (eattr a_id e); Vtext (etext i)])
  end.

(* what a sid of the effect's local scope maps to (surfaces and samplers remember the id of their image) *)
Inductive lentry :=
  | LSurface (uid : N) (image : N) (imgid : atom)
  | LSampler (uid : N) (sid : option aval) (imgid : atom)
  | LFloats (l : list N).
Definition lscope := list (atom * lentry).

Inductive pval := PNum (l : list N) | PMap (sampler : option aval) (texcoord : option aval) | POther.

Definition word_of (t : option (list tok)) : option atom := match t with Some [TWord a] => Some a | _ => None end.

(* Surface.load / Sampler2D.load / the float branch of getEffectParameters, over the <newparam> children
   of one parent; returns the params appended and the scope *)
Fixpoint effect_params (numtab : list N) (images : lib) (ps : list et) (sc : lscope) (acc : list V)
  : outcome (lscope * list V) :=
  match ps with
  | [] => Ok (sc, acc)
  | p :: r =>
      match efind a_surface p with
      | Some sf =>
          match eattr a_type sf with
          | Some (AStr t) =>
              if negb (N.eqb t a_2D) then Raise DaeMalformed else
              match efind a_init_from sf with
              | None => Raise DaeIncomplete
              | Some ini =>
                  match word_of (etext ini) with
                  | None => Raise OutOfFuel
                  | Some imgid =>
                      match lib_get images imgid with
                      | None => Raise DaeBrokenRef
                      | Some img =>
                          let fmt := match efind a_format sf with
                                     | Some f => etext f
                                     | None => Some [TWord a_A8R8G8B8]
                                     end in
                          obind (id_atom (eattr a_sid p)) (fun sid =>
                          effect_params numtab images r (dset N.eqb sc sid (LSurface (euid p) img imgid))
                                        (acc ++ [Vl [Vn 0%N; Vn (euid p); Voaval (eattr a_sid p); Vtext fmt; Vn img]]))
                      end
                  end
              end
          | _ => Raise DaeMalformed
          end
      | None =>
        match efind a_sampler2D p with
        | Some sm =>
            match efind a_source sm with
            | None => Raise DaeIncomplete
            | Some src =>
                match word_of (etext src) with
                | None => Raise OutOfFuel
                | Some sfid =>
                    match dget N.eqb sc sfid with
                    | Some (LSurface su _ imgid) =>
                        let tx t := option_map etext (efind t sm) in
                        obind (id_atom (eattr a_sid p)) (fun sid =>
                        effect_params numtab images r (dset N.eqb sc sid (LSampler (euid p) (eattr a_sid p) imgid))
                                      (acc ++ [Vl [Vn 1%N; Vn (euid p); Voaval (eattr a_sid p);
                                                   Vopt Vtext (tx a_minfilter); Vopt Vtext (tx a_magfilter); Vn su]]))
                    | _ => Raise DaeBrokenRef
                    end
                end
            end
        | None =>
            let fnode := match efind a_float p with Some f => Some f | None =>
                         match efind a_float2 p with Some f => Some f | None =>
                         match efind a_float3 p with Some f => Some f | None => efind a_float4 p end end end in
            match fnode, eattr a_sid p with
            | Some f, Some (AStr sid) =>
                match etext f with
                | None => effect_params numtab images r sc acc
                | Some l => obind (of_option PyValueError (classes numtab l)) (fun fs =>
                            effect_params numtab images r (dset N.eqb sc sid (LFloats fs)) acc)
                end
            | Some _, Some _ => Raise OutOfFuel
            | _, _ => effect_params numtab images r sc acc
            end
        end
      end
  end.

(* Map.load: the sampler of that sid, else (exporters that name the image) the first sampler of the scope whose
   surface holds the image of that id; inr s: DaeMissingSampler2D for s *)
Definition find_sampler (sc : lscope) (s : atom) : option (option aval) :=
  match dget N.eqb sc s with
  | Some (LSampler _ sid _) => Some sid
  | _ => match List.find (fun kv => match snd kv with LSampler _ _ i => N.eqb i s | _ => false end) sc with
         | Some (_, LSampler _ sid _) => Some sid
         | _ => None
         end
  end.
Definition load_map (sc : lscope) (tx : et) : outcome (pval + atom) :=
  match eattr a_texture tx with
  | Some (AStr s) => match find_sampler sc s with
                     | Some sid => Ok (inl (PMap sid (eattr a_texcoord tx)))
                     | None => Ok (inr s)
                     end
  | _ => Raise OutOfFuel
  end.

(* _fixColorValues: a colour tuple shorter than 4 is padded with 0.0 up to three values and then 1.0 *)
Definition zero_class : N := 0%N.
Definition one_class : N := 2%N.       (* int_class 1 *)
Definition pad_color (c : list N) : list N :=
  if Nat.ltb (length c) 4
  then let c3 := c ++ repeat zero_class (3 - length c) in c3 ++ repeat one_class (4 - length c3)
  else c.
(* SPEC: R, G, B default to 0, A to 1 *)
Definition spec_color (c : list N) : list N :=
  match c with
  | [] => [zero_class; zero_class; zero_class; one_class]
  | [r] => [r; zero_class; zero_class; one_class]
  | [r; g] => [r; g; zero_class; one_class]
  | [r; g; b] => [r; g; b; one_class]
  | _ => c
  end.

(* Effect._loadShadingParam followed by the constructor's colour fix; inr s: the texture names a sampler s
   that is not there *)
Definition shading_param (numtab : list N) (sc : lscope) (pnode : et) : outcome (option pval + atom) :=
  match first_kid pnode with
  | None => Raise DaeIncomplete
  | Some v =>
      if has_own a_color v then
        match etext v with
        | None => Raise PyAttributeError
        | Some l => omap (fun c => inl (Some (PNum (pad_color c)))) (of_option DaeMalformed (classes numtab l))
        end
      else if has_own a_float v then
        match etext v with
        | None => Raise PyTypeError
        | Some [x] => omap (fun c => inl (Some (PNum [c]))) (of_option DaeMalformed (cls numtab x))
        | Some _ => Raise DaeMalformed
        end
      else if has_own a_texture v then
        omap (fun r => match r with inl m => inl (Some m) | inr s => inr s end) (load_map sc v)
      else if has_own a_param v then
        match eattr a_ref v with
        | Some (AStr r) => match dget N.eqb sc r with
                           | Some (LFloats l) => Ok (inl (Some (PNum l)))
                           | Some _ => Ok (inl (Some POther))
                           | None => Ok (inl None)
                           end
        | Some _ => Raise OutOfFuel
        | None => Ok (inl None)
        end
      else Raise DaeUnsupported
  end.

Definition Vpval (p : pval) : V :=
  match p with
  | PNum l => Vl [Vn 0%N; Vl (map Vn l)]
  | PMap s t => Vl [Vn 1%N; Voaval s; Voaval t]
  | POther => Vl [Vn 2%N]
  end.

Definition supported_props : list atom :=
  [a_emission; a_ambient; a_diffuse; a_specular; a_shininess; a_reflective; a_reflectivity;
   a_transparent; a_transparency; a_index_of_refraction].

(* the loop over Effect.supported.  The repair path: a <texture> that names no sampler but the id of an image
   of the document gets a Surface ("<id>-surface", A8R8G8B8) and a Sampler2D (<id>) made on the spot, appended
   to the params and entered in the scope; the parameter is then loaded again.  The derived surface name is not
   a string of the document: the view shows it as (3, image id). *)
Fixpoint shading_props (numtab : list N) (images : lib) (sh : et) (keys : list atom) (sc : lscope) (params : list V)
  : outcome (list (option pval) * lscope * list V) :=
  match keys with
  | [] => Ok ([], sc, params)
  | key :: r =>
      obind (match efind key sh with
             | None => Ok (None, sc, params)
             | Some pn =>
                 obind (shading_param numtab sc pn) (fun res =>
                 match res with
                 | inl v => Ok (v, sc, params)
                 | inr s =>
                     match lib_get images s with
                     | None => Raise OutOfFuel          (* the key stays unset: constructor default, outside the model *)
                     | Some img =>
                         let sc' := dset N.eqb sc s (LSampler 0%N (Some (AStr s)) s) in
                         let params' := params ++ [Vl [Vn 0%N; Vn 0%N; Vl [Vn 3%N; Vn s]; Vtext (Some [TWord a_A8R8G8B8]); Vn img];
                                                   Vl [Vn 1%N; Vn 0%N; Voaval (Some (AStr s)); Vnone; Vnone; Vn 0%N]] in
                         obind (shading_param numtab sc' pn) (fun res2 =>
                         match res2 with
                         | inl v => Ok (v, sc', params')
                         | inr _ => Raise OutOfFuel
                         end)
                     end
                 end)
             end) (fun one =>
      let '(v, sc1, params1) := one in
      obind (shading_props numtab images sh r sc1 params1) (fun rest =>
      let '(vs, sc2, params2) := rest in Ok (v :: vs, sc2, params2)))
  end.

Definition load_effect (numtab : list N) (images : lib) (e : et) : outcome (option aval * N * V) :=
  match efind a_profile_COMMON e with
  | None => Raise DaeUnsupported
  | Some prof =>
    match efindall a_image prof with
    | _ :: _ => Raise OutOfFuel                      (* profile-local images: outside the model *)
    | [] =>
      obind (effect_params numtab images (efindall a_newparam prof) [] []) (fun r1 =>
      match efind a_technique prof with
      | None => Raise PyAttributeError
      | Some tec =>
        obind (effect_params numtab images (efindall a_newparam tec) (fst r1) (snd r1)) (fun r2 =>
        let shader := match efind a_phong tec with Some s => Some (a_phong, s) | None =>
                      match efind a_lambert tec with Some s => Some (a_lambert, s) | None =>
                      match efind a_blinn tec with Some s => Some (a_blinn, s) | None =>
                      match efind a_constant tec with Some s => Some (a_constant, s) | None => None end end end end in
        match shader with
        | None => Raise DaeIncomplete
        | Some (sk, sh) =>
          obind (shading_props numtab images sh supported_props (fst r2) (snd r2)) (fun pr =>
          let '(props, sc, params) := pr in
          let transparent := nth 7 props None in
          let rgb_zero := match transparent, efind a_transparent sh with
                          | Some _, Some pn => match eattr a_opaque pn with
                                               | Some (AStr o) => N.eqb o a_RGB_ZERO
                                               | _ => false
                                               end
                          | _, _ => false
                          end in
          (* the constructor: transparency defaults to 1.0 (A_ONE) or 0.0 (RGB_ZERO) *)
          let props' := map (fun ip => match fst ip, snd ip with
                                       | 8, None => Some (PNum [if rgb_zero then zero_class else one_class])
                                       | _, v => v
                                       end) (combine (seq 0 (length props)) props) in
          obind (match find_under_extra a_texture e with
                 | None => Ok None
                 | Some b => obind (load_map sc b) (fun m => match m with
                                                             | inl v => Ok (Some v)
                                                             | inr _ => Raise DaeBrokenRef     (* since /repo f9cb138 *)
                                                             end)
                 end) (fun bump =>
          Ok (eattr a_id e, euid e,
              Vl [Vn (euid e); Voaval (eattr a_id e); Vn sk; Vb (flag_one (find_under_extra a_double_sided e));
                  Vn (if rgb_zero then a_RGB_ZERO else a_A_ONE); Vl params; Vl (map (Vopt Vpval) props');
                  Vopt Vpval bump])))
        end)
      end)
    end
  end.

(* ------------------------------------------------------------------ scene graph *)

Definition tview := (atom * N * list N)%type.      (* kind, uid, parameters *)
Definition mview := (N * option aval * N * list (option aval * option aval * option aval))%type.
Inductive nview :=
  | NNode (uid : N) (id name : option aval) (ts : list tview) (cs : list nview)
  | NRef (kind : atom) (uid : N) (target : N) (mats : list mview)
  | NExtra (uid : N).

Record env := mkEnv { e_num : list N; e_geoms : lib; e_ctrls : lib; e_lights : lib; e_cams : lib; e_mats : lib;
                      e_nodes : lib; e_local : list (atom * N) }.

Definition transform_arity (t : atom) : option nat :=
  if N.eqb t a_translate then Some 3 else if N.eqb t a_rotate then Some 4 else
  if N.eqb t a_scale then Some 3 else if N.eqb t a_matrix then Some 16 else
  if N.eqb t a_lookat then Some 9 else None.
Definition transform_kind (e : et) : option (atom * nat) :=
  match eown e with Some t => option_map (fun n => (t, n)) (transform_arity t) | None => None end.

Definition load_transform (numtab : list N) (k : atom) (n : nat) (e : et) : outcome tview :=
  obind (floats_of_text numtab (etext e)) (fun fs =>
  if Nat.eqb (length fs) n then Ok (k, euid e, fs) else Raise DaeMalformed).

Definition load_matnode (en : env) (m : et) : outcome mview :=
  let binds := map (fun b => (eattr a_semantic b, eattr a_input_semantic b, eattr a_input_set b))
                   (efindall a_bind_vertex_input m) in
  obind (resolve_url (e_mats en) (eattr a_target m)) (fun target =>
  Ok (euid m, eattr a_symbol m, target, binds)).

Definition load_instance (en : env) (kind : atom) (l : lib) (with_mats : bool) (e : et) : outcome nview :=
  obind (resolve_url l (eattr a_url e)) (fun target =>
  obind (if with_mats
         then omapM (load_matnode en) (efindall_path [a_bind_material; a_technique_common; a_instance_material] e)
         else Ok []) (fun mats =>
  Ok (NRef kind (euid e) target mats))).

(* NodeNode.load: the local scope, then collada.nodes; unresolved -> DaeInstanceNotLoadedError *)
Definition load_nodenode (en : env) (e : et) : outcome nview :=
  match eattr a_url e with
  | None => Raise PyAttributeError
  | Some (ARef true a) =>
      match dget N.eqb (e_local en) a with
      | Some u => Ok (NRef a_instance_node (euid e) u [])
      | None => match lib_get (e_nodes en) a with
                | Some u => Ok (NRef a_instance_node (euid e) u [])
                | None => Raise PyOther
                end
      end
  | Some _ => Raise DaeMalformed
  end.

Inductive item := ITransform (t : tview) | IChild (c : nview) | ISkip.

(* loadNode on an element that is not <node> *)
Definition load_leaf (en : env) (e : et) : outcome item :=
  match transform_kind e with
  | Some (k, n) => omap ITransform (load_transform (e_num en) k n e)
  | None =>
    if has_own a_instance_geometry e then omap IChild (load_instance en a_instance_geometry (e_geoms en) true e) else
    if has_own a_instance_camera e then omap IChild (load_instance en a_instance_camera (e_cams en) false e) else
    if has_own a_instance_light e then omap IChild (load_instance en a_instance_light (e_lights en) false e) else
    if has_own a_instance_controller e then omap IChild (load_instance en a_instance_controller (e_ctrls en) true e) else
    if has_own a_instance_node e then omap IChild (load_nodenode en e) else
    if has_own a_extra e then Ok (IChild (NExtra (euid e))) else
    if has_own a_asset e then Ok ISkip else Raise DaeUnsupported
  end.

(* Node.load: one pass over the children, appending to two lists *)
Fixpoint load_node (en : env) (e : et) : outcome nview :=
  let 'ET u _ _ attrs _ kids := e in
  match
    (fix go (ks : list et) (ts : list tview) (cs : list nview) : outcome (list tview * list nview) :=
       match ks with
       | [] => Ok (ts, cs)
       | k :: r =>
           if has_own a_node k then
             match load_node en k with
             | Ok v => go r ts (cs ++ [v])
             | Raise x => Raise x
             end
           else
             match load_leaf en k with
             | Ok (ITransform t) => go r (ts ++ [t]) cs
             | Ok (IChild c) => go r ts (cs ++ [c])
             | Ok ISkip => go r ts cs
             | Raise x => Raise x
             end
       end) kids [] []
  with
  | Ok (ts, cs) =>
      let id := attr a_id attrs in
      Ok (NNode u id (match attr a_name attrs with Some n => Some n | None => id end) ts cs)
  | Raise x => Raise x
  end.

(* SPEC: a node as the file says it *)
Definition is_child_tag (e : et) : bool :=
  has_own a_node e || has_own a_instance_geometry e || has_own a_instance_camera e || has_own a_instance_light e ||
  has_own a_instance_controller e || has_own a_instance_node e || has_own a_extra e.
Definition is_known_tag (e : et) : bool :=
  is_child_tag e || has_own a_asset e || match transform_kind e with Some _ => true | None => false end.

Fixpoint read_node (en : env) (e : et) : option nview :=
  let 'ET u _ _ attrs _ kids := e in
  let ts := flat_map (fun k => match transform_kind k with
                               | Some (t, n) => [match load_transform (e_num en) t n k with Ok v => Some v | Raise _ => None end]
                               | None => []
                               end) kids in
  let cs := flat_map (fun k => if has_own a_node k then [read_node en k]
                               else if is_child_tag k
                                    then [match load_leaf en k with Ok (IChild c) => Some c | _ => None end]
                                    else []) kids in
  if forallb is_known_tag kids then
    match all_some ts, all_some cs with
    | Some ts', Some cs' =>
        let id := attr a_id attrs in
        Some (NNode u id (match attr a_name attrs with Some n => Some n | None => id end) ts' cs')
    | _, _ => None
    end
  else None.

Definition Vtview (t : tview) : V := Vl [Vn (fst (fst t)); Vn (snd (fst t)); Vl (map Vn (snd t))].
Definition Vmview (m : mview) : V :=
  let '(u, sym, target, binds) := m in
  Vl [Vn u; Voaval sym; Vn target; Vl (map (fun b => Vl [Voaval (fst (fst b)); Voaval (snd (fst b)); Voaval (snd b)]) binds)].
Fixpoint Vnview (n : nview) : V :=
  match n with
  | NNode u i nme ts cs => Vl [Vn 0%N; Vn u; Voaval i; Voaval nme; Vl (map Vtview ts); Vl (map Vnview cs)]
  | NRef k u t ms => Vl [Vn 1%N; Vn k; Vn u; Vn t; Vl (map Vmview ms)]
  | NExtra u => Vl [Vn 2%N; Vn u]
  end.

Definition nview_uid (n : nview) : N := match n with NNode u _ _ _ _ => u | NRef _ u _ _ => u | NExtra u => u end.
Definition nview_id (n : nview) : option aval := match n with NNode _ i _ _ _ => i | _ => None end.

(* one pass of the library / scene loops: nodes that load are appended, nodes whose instance_node is
   not loaded yet are kept for the next pass.  [node_loader] is load_node (MODEL) or read_node (SPEC). *)
Section Passes.
  Variable node_loader : env -> et -> outcome nview.

  (* sorted(nodes, key=position): stable insertion sort *)
  Fixpoint insert_pos (x : nat * nview) (l : list (nat * nview)) : list (nat * nview) :=
    match l with
    | [] => [x]
    | y :: r => if Nat.ltb (fst x) (fst y) then x :: y :: r else y :: insert_pos x r
    end.
  Definition sort_pos (l : list (nat * nview)) : list (nat * nview) := fold_left (fun acc x => insert_pos x acc) l [].

  Definition with_nodes (en : env) (nodes : lib) : env :=
    mkEnv (e_num en) (e_geoms en) (e_ctrls en) (e_lights en) (e_cams en) (e_mats en) nodes (e_local en).

  (* library_nodes: loaded nodes are visible through collada.nodes at once; every loaded node
     remembers its position among the <node> children *)
  Fixpoint lib_pass (en : env) (todo : list (nat * et)) (loaded : list (nat * nview)) (pending : list (nat * et))
           (progress : bool) : outcome (env * list (nat * nview) * list (nat * et) * bool) :=
    match todo with
    | [] => Ok (en, loaded, pending, progress)
    | (pos, n) :: r =>
        match node_loader en n with
        | Ok v => lib_pass (with_nodes en (e_nodes en ++ [(nview_id v, nview_uid v)])) r (loaded ++ [(pos, v)]) pending true
        | Raise PyOther => lib_pass en r loaded (pending ++ [(pos, n)]) progress
        | Raise x => Raise x
        end
    end.

  Fixpoint lib_retry (fuel : nat) (en : env) (loaded : list (nat * nview)) (pending : list (nat * et)) (progress : bool)
    : outcome (env * list (nat * nview)) :=
    match pending with
    | [] => Ok (en, loaded)
    | _ =>
      if progress then
        match fuel with
        | O => Raise OutOfFuel
        | S f => obind (lib_pass en pending loaded [] false) (fun r =>
                 let '(en', loaded', pending', progress') := r in lib_retry f en' loaded' pending' progress')
        end
      else Raise DaeBrokenRef
    end.

  (* since /repo e99e57c the nodes of one <library_nodes> end up in document order, whatever pass loaded them *)
  (* since /repo 43677d4 the <node> children of ALL <library_nodes> elements form one pool *)
  Definition load_library_nodes (en : env) (nodes : list et) : outcome (env * list nview) :=
    obind (lib_pass en (combine (seq 0 (length nodes)) nodes) [] [] false) (fun r =>
    let '(en', loaded, pending, progress) := r in
    obind (lib_retry (S (length pending)) en' loaded pending progress) (fun r2 =>
    let sorted := map snd (sort_pos (snd r2)) in
    Ok (with_nodes (fst r2) (e_nodes en ++ map (fun v => (nview_id v, nview_uid v)) sorted), sorted))).

  (* visual_scene: a local scope of the top-level nodes that have an id (first definition wins);
     every loaded node remembers its position, the result is in document order (since /repo c91a4c8) *)
  Fixpoint scene_pass (en : env) (todo : list (nat * et)) (loaded : list (nat * nview)) (pending : list (nat * et))
           (progress : bool) : outcome (env * list (nat * nview) * list (nat * et) * bool) :=
    match todo with
    | [] => Ok (en, loaded, pending, progress)
    | (pos, n) :: r =>
        match node_loader en n with
        | Ok v =>
            let loc := match nview_id v with
                       | Some (AStr a) => match dget N.eqb (e_local en) a with
                                          | Some _ => e_local en
                                          | None => e_local en ++ [(a, nview_uid v)]
                                          end
                       | _ => e_local en
                       end in
            let en' := mkEnv (e_num en) (e_geoms en) (e_ctrls en) (e_lights en) (e_cams en) (e_mats en) (e_nodes en) loc in
            scene_pass en' r (loaded ++ [(pos, v)]) pending true
        | Raise PyOther => scene_pass en r loaded (pending ++ [(pos, n)]) progress
        | Raise x => Raise x
        end
    end.

  Fixpoint scene_retry (fuel : nat) (en : env) (loaded : list (nat * nview)) (pending : list (nat * et)) (progress : bool)
    : outcome (list (nat * nview)) :=
    match pending with
    | [] => Ok loaded
    | _ =>
      if progress then
        match fuel with
        | O => Raise OutOfFuel
        | S f => obind (scene_pass en pending loaded [] false) (fun r =>
                 let '(en', loaded', pending', progress') := r in scene_retry f en' loaded' pending' progress')
        end
      else Raise DaeBrokenRef
    end.

  Definition load_scene (en : env) (s : et) : outcome (option aval * N * list nview) :=
    let en0 := mkEnv (e_num en) (e_geoms en) (e_ctrls en) (e_lights en) (e_cams en) (e_mats en) (e_nodes en) [] in
    let nodes := efindall a_node s in
    obind (scene_pass en0 (combine (seq 0 (length nodes)) nodes) [] [] false) (fun r =>
    let '(en', loaded, pending, progress) := r in
    obind (scene_retry (S (length pending)) en' loaded pending progress) (fun nodes =>
    Ok (eattr a_id s, euid s, map snd (sort_pos nodes)))).
End Passes.

(* ------------------------------------------------------------------ asset *)

Definition text_of (o : option et) : option (list tok) := match o with Some n => etext n | None => None end.

(* Asset.load.  Dates and the unit's meter are kept as the text / attribute of the file (opaque: the harness
   checks with its own parse that pycollada's datetime / float is that instant / number); the up axis is
   X_UP, Y_UP or Z_UP, anything else (or no element) is read as Y_UP *)
Definition up_axis_of (o : option et) : atom :=
  match text_of o with
  | Some [TWord a] => if N.eqb a a_X_UP || N.eqb a a_Y_UP || N.eqb a a_Z_UP then a else a_Y_UP
  | _ => a_Y_UP
  end.
Definition load_contributor (c : et) : V :=
  Vl (map (fun t => Vtext (text_of (efind t c))) [a_author; a_authoring_tool; a_comments; a_copyright; a_source_data]).
Definition load_asset (root : et) : V :=
  match efind a_asset root with
  | None => Vnone                         (* Asset(): nothing of the file *)
  | Some a =>
      let unit := match efind a_unit a with
                  | Some u => match eattr a_meter u with
                              | Some m => Vl [Voaval (eattr a_name u); Vaval m]
                              | None => Vnone
                              end
                  | None => Vnone
                  end in
      Vl [Vn (euid a); Vtext (text_of (efind a_title a)); Vtext (text_of (efind a_subject a));
          Vtext (text_of (efind a_revision a)); Vtext (text_of (efind a_keywords a)); unit;
          Vn (up_axis_of (efind a_up_axis a)); Vtext (text_of (efind a_created a)); Vtext (text_of (efind a_modified a));
          Vl (map load_contributor (efindall a_contributor a))]
  end.
(* SPEC of the one normalisation here: the up axis defaults to Y_UP *)
Definition spec_up_axis (t : option (list tok)) : atom :=
  if opt_eqb (list_eqb tok_eqb) t (Some [TWord a_X_UP]) then a_X_UP
  else if opt_eqb (list_eqb tok_eqb) t (Some [TWord a_Z_UP]) then a_Z_UP else a_Y_UP.

(* ------------------------------------------------------------------ controllers, animations *)

Definition dict_sources (srcs : list source_view) : outcome (list (atom * source_view)) :=
  omap (fun kv => dict_of kv []) (omapM (fun s => omap (fun a => (a, s)) (id_atom (s_id s))) srcs).
Definition Vdict (d : list (atom * source_view)) : V := Vl (map (fun kv => Vl [Vn (fst kv); Vsource (snd kv)]) d).

(* ---- Skin *)

(* numpy.array([float(v) for v in text.split()], dtype=int32) on integer tokens *)
Fixpoint float_ints (l : list tok) : outcome (list Z) :=
  match l with
  | [] => Ok []
  | TInt z :: r => omap (cons z) (float_ints r)
  | TNum _ :: _ => Raise OutOfFuel
  | TWord _ :: _ => Raise DaeMalformed
  end.
(* [int(v) for v in text.split()] *)
Fixpoint strict_ints (l : list tok) : outcome (list Z) :=
  match l with
  | [] => Ok []
  | TInt z :: r => omap (cons z) (strict_ints r)
  | _ :: _ => Raise DaeMalformed
  end.
Definition identity16 : list N := [2; 0; 0; 0;  0; 2; 0; 0;  0; 0; 2; 0;  0; 0; 0; 2]%N.

(* Skin.__init__: the <v> stream cut into one (count x nindices) block per vertex *)
Fixpoint skin_split (nind : nat) (vc : list Z) (idx : list Z) : outcome (list (list (list Z))) :=
  match vc with
  | [] => match idx with [] => Ok [] | _ => Raise DaeMalformed end
  | c :: r =>
      if (c <? 0)%Z then Raise OutOfFuel else
      let n := nind * Z.to_nat c in
      if Nat.ltb (length idx) n then Raise DaeMalformed else
      obind (skin_split nind r (skipn n idx)) (fun rest => Ok (chunk (Z.to_nat c) nind (firstn n idx) :: rest))
  end.
(* SPEC: influence j of vertex i reads the stream directly *)
Definition skin_at (vc : list Z) (i : nat) : nat := Z.to_nat (sumZ (firstn i vc)).
Definition spec_skin_index (nind off : nat) (vc idx : list Z) (i j : nat) : Z :=
  nth ((skin_at vc i + j) * nind + off) idx 0%Z.

Fixpoint tdset {B} (d : list (tok * B)) (k : tok) (v : B) : list (tok * B) :=
  match d with
  | [] => [(k, v)]
  | (k', v') :: r => if tok_eqb k k' then (k', v) :: r else (k', v') :: tdset r k v
  end.

Definition skin_input_source (o : option aval) : outcome atom :=
  match o with
  | Some (ARef true a) => Ok a
  | None => Raise PyTypeError
  | Some _ => Raise DaeBrokenRef
  end.

(* checkSource(source, (name,), maxindex) on an entry of the skin's source dict *)
Definition check_named (d : list (atom * source_view)) (k : atom) (name : atom) (mx : Z)
  : outcome (list (atom * source_view)) :=
  match dget N.eqb d k with
  | None => Raise PyKeyError
  | Some s =>
      if (Z.of_nat (s_rows s) <=? mx)%Z then Raise DaeMalformed
      else if Nat.eqb (length (s_comps s)) 1
           then Ok (dset N.eqb d k (mkSV (s_uid s) (s_id s) (s_kind s) [nm name] (s_rows s) (s_data s)))
           else Raise DaeMalformed
  end.

Definition load_skin (numtab : list N) (geoms : lib) (ce b : et) (d : list (atom * source_view))
  : outcome (V * list (atom * source_view)) :=
  if Nat.ltb (length d) 3 then Raise DaeMalformed else
  obind (match eattr a_source b with
         | Some (ARef true a) => of_option DaeBrokenRef (lib_get geoms a)
         | _ => Raise DaeBrokenRef
         end) (fun geom =>
  obind (match efind a_bind_shape_matrix b with
         | None => Ok identity16
         | Some m => match etext m with None => Raise PyAttributeError | Some l => of_option DaeMalformed (classes numtab l) end
         end) (fun bind =>
  let jin := efindall_path [a_joints; a_input] b in
  if Nat.ltb (length jin) 2 then Raise DaeIncomplete else
  obind (fold_left (fun acc i => obind acc (fun jm => obind (skin_input_source (eattr a_source i)) (fun s =>
                    match eattr a_semantic i with
                    | Some (AStr sem) => if N.eqb sem a_JOINT then Ok (Some s, snd jm)
                                         else if N.eqb sem a_INV_BIND_MATRIX then Ok (fst jm, Some s) else Ok jm
                    | _ => Ok jm
                    end))) jin (Ok (None, None))) (fun jm =>
  match efind a_vertex_weights b with
  | None => Raise DaeIncomplete
  | Some vw =>
    match efind a_v vw, efind a_vcount vw with
    | None, _ | _, None => Raise DaeIncomplete
    | Some vn, Some vcn =>
      obind (float_ints (match etext vn with Some l => l | None => [] end)) (fun index =>
      obind (strict_ints (match etext vcn with Some l => l | None => [] end)) (fun vcounts =>
      obind (omapM (fun i => match eattr a_offset i with
                             | Some (AInt z) => if (0 <=? z)%Z then Ok (eattr a_semantic i, eattr a_source i, Z.to_nat z) else Raise OutOfFuel
                             | None => Raise PyTypeError
                             | Some _ => Raise DaeMalformed
                             end) (efindall a_input vw)) (fun wins =>
      obind (fold_left (fun acc i => obind acc (fun st => obind (skin_input_source (snd (fst i))) (fun s =>
                        let '(wj, ws, o0, o1) := st in
                        match fst (fst i) with
                        | Some (AStr sem) => if N.eqb sem a_JOINT then Ok (Some s, ws, snd i, o1)
                                             else if N.eqb sem a_WEIGHT then Ok (wj, Some s, o0, snd i) else Ok st
                        | _ => Ok st
                        end))) wins (Ok (None, None, 0, 0))) (fun st =>
      let '(wj, ws, o0, o1) := st in
      match fst jm, ws with
      | None, _ | _, None => Raise DaeMalformed
      | Some js, Some wsrc =>
        (* Skin.__init__ *)
        match eattr a_id ce with None => Raise DaeMalformed | Some _ =>
        let nind := S (Nat.max o0 o1) in
        if negb (Nat.eqb (length bind) 16) then Raise DaeMalformed else
        match dget N.eqb d js, match snd jm with Some m => dget N.eqb d m | None => None end with
        | Some jsrc, Some msrc =>
          if negb (N.eqb (s_kind jsrc) 1 || N.eqb (s_kind jsrc) 2) then Raise DaeIncomplete else
          match s_data msrc, s_data jsrc with
          | DFloat mdata, DWords names =>
            if negb (Nat.eqb (length (s_comps jsrc)) 1) then Raise OutOfFuel else
            match reshape 16 mdata with
            | None => Raise PyValueError
            | Some mats =>
              if negb (Nat.eqb (length names) (length mats)) then Raise DaeMalformed else
              let jmat := fold_left (fun acc nm0 => tdset acc (fst nm0) (snd nm0)) (combine names mats) [] in
              match dget N.eqb d wsrc, match wj with Some w => dget N.eqb d w | None => None end with
              | Some wsv, Some wjsv =>
                match s_data wsv, s_data wjsv with
                | DFloat wdata, DWords wjnames =>
                  obind (skin_split nind vcounts index) (fun blocks =>
                  let jidx := map (fun rows => col o0 rows) blocks in
                  let widx := map (fun rows => col o1 rows) blocks in
                  let mx (l : list (list Z)) := fold_right Z.max (-1)%Z (map (fun r => fold_right Z.max (-1)%Z r) (List.filter (fun r => negb (Nat.eqb (length r) 0)) l)) in
                  obind (check_named d (match wj with Some w => w | None => 0%N end) a_JOINT (mx jidx)) (fun d1 =>
                  obind (check_named d1 wsrc a_WEIGHT (mx widx)) (fun d2 =>
                  Ok (Vl [Vn geom; Vl (map Vn bind); Vn js; Vopt Vn (snd jm); Vn wsrc; Vopt Vn wj;
                          Vl (map (fun kv => Vl [Vtok (fst kv); Vl (map Vn (snd kv))]) jmat);
                          Vl (map Vn wdata); Vl (map Vtok wjnames); Vl (map Vz vcounts); Vl [Vnat o0; Vnat o1];
                          Vl (map (fun r => Vl (map Vz r)) jidx); Vl (map (fun r => Vl (map Vz r)) widx)], d2))))
                | DWords _, _ => Raise DaeIncomplete
                | _, DFloat _ => Raise DaeIncomplete
                end
              | _, _ => Raise DaeBrokenRef
              end
            end
          | DWords _, _ => Raise DaeIncomplete
          | _, DFloat _ => Raise DaeIncomplete
          end
        | _, _ => Raise DaeBrokenRef
        end
        end
      end))))
    end
  end))).

(* ---- Morph *)
Definition load_morph (geoms : lib) (ce b : et) (d : list (atom * source_view)) : outcome V :=
  obind (match eattr a_source b with
         | Some (ARef true a) => of_option DaeBrokenRef (lib_get geoms a)
         | None => Raise PyTypeError
         | Some _ => Raise DaeBrokenRef
         end) (fun base =>
  obind (match eattr a_method b with
         | Some (AStr m) => if N.eqb m a_NORMALIZED || N.eqb m a_RELATIVE then Ok tt else Raise DaeMalformed
         | Some _ => Raise DaeMalformed
         | None => Ok tt
         end) (fun _ =>
  let ins := efindall_path [a_targets; a_input] b in
  if Nat.ltb (length ins) 2 then Raise DaeIncomplete else
  obind (fold_left (fun acc i => obind acc (fun tw =>
                    match eattr a_source i with
                    | Some (ARef true s) =>
                        match dget N.eqb d s with
                        | None => Raise DaeBrokenRef
                        | Some sv =>
                            match eattr a_semantic i with
                            | Some (AStr sem) => if N.eqb sem a_MORPH_TARGET then Ok (Some sv, snd tw)
                                                 else if N.eqb sem a_MORPH_WEIGHT then Ok (fst tw, Some sv) else Ok tw
                            | _ => Ok tw
                            end
                        end
                    | None => Raise PyTypeError
                    | Some _ => Raise DaeBrokenRef
                    end)) ins (Ok (None, None))) (fun tw =>
  match tw with
  | (Some t, Some w) =>
      match s_data t, s_data w with
      | DWords names, DFloat ws =>
          if negb (N.eqb (s_kind t) 1) then Raise DaeIncomplete else
          if negb (Nat.eqb (s_rows t) (s_rows w)) then Raise DaeMalformed else
          if negb (Nat.eqb (length (s_comps t)) 1) || negb (Nat.eqb (length (s_comps w)) 1) then Raise OutOfFuel else
          obind (omapM (fun nw => match fst nw with
                                  | TWord a => omap (fun g => Vl [Vn g; Vn (snd nw)]) (of_option DaeBrokenRef (lib_get geoms a))
                                  | _ => Raise OutOfFuel
                                  end) (combine names ws)) (fun targets =>
          match eattr a_id ce with
          | None => Raise DaeMalformed
          | Some _ => Ok (Vl [Vn base; Vl targets])
          end)
      | _, _ => Raise DaeIncomplete
      end
  | _ => Raise DaeIncomplete
  end))).

(* Controller.load *)
Definition load_controller (numtab : list N) (geoms : lib) (e : et) : outcome (option (option aval * N * V)) :=
  let body := match efind a_skin e with Some s => Some (a_skin, s) | None =>
              match efind a_morph e with Some m => Some (a_morph, m) | None => None end end in
  match body with
  | None => Ok None
  | Some (k, b) =>
      obind (omapM (load_source numtab) (efindall a_source b)) (fun srcs =>
      obind (dict_sources srcs) (fun d =>
      if N.eqb k a_skin then
        obind (load_skin numtab geoms e b d) (fun r =>
        Ok (Some (eattr a_id e, euid e, Vl [Vn (euid e); Voaval (eattr a_id e); Vn k; Vdict (snd r); fst r])))
      else
        (* a Morph does not expose its source dict *)
        obind (load_morph geoms e b d) (fun r =>
        Ok (Some (eattr a_id e, euid e, Vl [Vn (euid e); Voaval (eattr a_id e); Vn k; Vnone; r])))))
  end.

(* Animation.load: the children share the parent's source dict *)
Inductive aview := AV (uid : N) (id name : aval) (children : list aview).
Fixpoint Vaview (a : aview) : V :=
  let 'AV u i n cs := a in Vl [Vn u; Vaval i; Vaval n; Vl (map Vaview cs)].

Fixpoint load_animation (numtab : list N) (d : list (atom * source_view)) (e : et)
  : outcome (aview * list (atom * source_view)) :=
  let 'ET u _ _ attrs _ kids := e in
  obind (omapM (load_source numtab) (List.filter (has_own a_source) kids)) (fun srcs =>
  obind (omapM (fun s => omap (fun a => (a, s)) (id_atom (s_id s))) srcs) (fun kv =>
  match
    (fix go (ks : list et) (d : list (atom * source_view)) (cs : list aview)
       : outcome (list aview * list (atom * source_view)) :=
       match ks with
       | [] => Ok (cs, d)
       | k :: r =>
           if has_own a_animation k then
             match load_animation numtab d k with
             | Ok (c, d') => go r d' (cs ++ [c])
             | Raise x => Raise x
             end
           else go r d cs
       end) kids (dict_of kv d) []
  with
  | Ok (cs, d') => Ok (AV u (or_empty (attr a_id attrs)) (or_empty (attr a_name attrs)) cs, d')
  | Raise x => Raise x
  end)).

(* ------------------------------------------------------------------ the document *)

Definition lib_elems (libtag item : atom) (root : et) : list et :=
  flat_map (efindall item) (efindall libtag root).

Definition geometry_elems (root : et) : list et :=
  List.filter (fun g => match efind a_mesh g with Some _ => true | None => false end)
              (lib_elems a_library_geometries a_geometry root).

Record doc := mkDoc { d_asset : V; d_images : list V; d_effects : list V; d_materials : list V; d_animations : list V; d_geometries : list V;
                      d_controllers : list V; d_lights : list V; d_cameras : list V; d_nodes : list V;
                      d_scenes : list V; d_scene : option N }.
Definition Vdoc (d : doc) : V :=
  Vl [d_asset d; Vl (d_images d); Vl (d_effects d); Vl (d_materials d); Vl (d_animations d); Vl (d_geometries d); Vl (d_controllers d);
      Vl (d_lights d); Vl (d_cameras d); Vl (d_nodes d); Vl (d_scenes d); Vopt Vn (d_scene d)].

Section Document.
  Variable numtab : list N.
  (* MODEL or SPEC versions of the three interesting loaders *)
  Variable geometry_loader : et -> outcome geom_view.
  Variable node_loader : env -> et -> outcome nview.
  Variable light_loader : et -> outcome V.

  Definition load_document (root : et) : outcome doc :=
    obind (omapM load_image (lib_elems a_library_images a_image root)) (fun imgs =>
    let imglib : lib := map (fun i => (fst (fst i), snd (fst i))) imgs in
    obind (omapM (load_effect numtab imglib) (lib_elems a_library_effects a_effect root)) (fun effs =>
    let efflib : lib := map (fun x => (fst (fst x), snd (fst x))) effs in
    obind (omapM (load_material efflib) (lib_elems a_library_materials a_material root)) (fun mats =>
    obind (omapM (fun a => omap (fun p => Vl [Vaview (fst p); Vdict (snd p)]) (load_animation numtab [] a))
                 (lib_elems a_library_animations a_animation root)) (fun anims =>
    obind (omapM geometry_loader (geometry_elems root)) (fun geoms =>
    obind (omapM (load_controller numtab (map (fun g => (Some (g_id g), g_uid g)) geoms))
                 (lib_elems a_library_controllers a_controller root)) (fun ctrls0 =>
    let ctrls := flat_map (fun o => match o with Some c => [c] | None => [] end) ctrls0 in
    obind (omapM light_loader (lib_elems a_library_lights a_light root)) (fun lights =>
    obind (omapM (load_camera numtab) (lib_elems a_library_cameras a_camera root)) (fun cams =>
    let vid (v : V) : option aval * N :=
        match v with
        | Vl (Vn u :: Vl [Vn 0%N; Vn a] :: _) => (Some (AStr a), u)
        | Vl (Vn u :: _) => (None, u)
        | _ => (None, 0%N)
        end in
    let en := mkEnv numtab (map (fun g => (Some (g_id g), g_uid g)) geoms)
                    (map (fun c => (fst (fst c), snd (fst c))) ctrls)
                    (map vid lights) (map vid cams) (map (fun m => (fst (fst m), snd (fst m))) mats) [] [] in
    obind (load_library_nodes node_loader en (flat_map (efindall a_node) (efindall a_library_nodes root))) (fun ln =>
    obind (omapM (load_scene node_loader (fst ln)) (lib_elems a_library_visual_scenes a_visual_scene root)) (fun scenes =>
    obind (match efind_path [a_scene; a_instance_visual_scene] root with
           | None => Ok None
           | Some i => omap Some (resolve_url (map (fun s => (fst (fst s), snd (fst s))) scenes) (eattr a_url i))
           end) (fun sc =>
    Ok (mkDoc (load_asset root) (map snd imgs) (map snd effs)
              (map snd mats) anims (map Vgeom geoms) (map snd ctrls) lights cams
              (map Vnview (snd ln))
              (map (fun s => Vl [Vn (snd (fst s)); Voaval (fst (fst s)); Vl (map Vnview (snd s))]) scenes)
              sc)))))))))))).
End Document.

(* MODEL: the loader's algorithms *)
Definition load_doc (numtab : list N) (root : et) : outcome V :=
  omap Vdoc (load_document numtab (load_geometry numtab) load_node (load_light numtab) root).

(* SPEC: the same walk with the declarative readings of geometry (direct indexing, per-semantic
   inputs, normalisations only) and of nodes ([read_node] gives the value; whether a top-level node
   has to wait for a later one - or fails - is the loader's control flow) *)
Definition read_geometry_loader (numtab : list N) (e : et) : outcome geom_view :=
  of_option PyOther (read_geometry numtab e).
Definition read_node_loader (en : env) (e : et) : outcome nview :=
  match load_node en e with
  | Ok _ => match read_node en e with Some w => Ok w | None => Raise OutOfFuel end
  | Raise x => Raise x
  end.
Definition read_light_loader (numtab : list N) (e : et) : outcome V :=
  omap Vlight (of_option PyOther (read_light numtab e)).
Definition read_doc (numtab : list N) (root : et) : outcome V :=
  omap Vdoc (load_document numtab (read_geometry_loader numtab) read_node_loader (read_light_loader numtab) root).
