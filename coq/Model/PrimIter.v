(* MODEL of len(), item access and iteration of primitives, unbound and bound.

   Unbound sets define __len__ and __getitem__ only, so `for x in prim` / list(prim) go
   through Python's legacy sequence protocol: call __getitem__(0), (1), ... until an
   IndexError ends the loop; any other exception propagates.  Bound sets also offer
   shapes() = `for i in range(n): yield self[i]`.

   SPEC: [spec_item], written with positions and [nth] only (no slicing, no failure). *)
From Coq Require Import List Bool Arith ZArith NArith Lia.
From PC Require Base.Py.
From PC Require Import Base.Outcome Model.IndexTable Model.PrimCtor.
Import ListNotations.

(* ---- Python's legacy iteration protocol *)
Fixpoint legacy_iter {A} (fuel : nat) (get : nat -> outcome A) (i : nat) : outcome (list A) :=
  match fuel with
  | 0 => Raise OutOfFuel
  | S f => match get i with
           | Raise PyIndexError => Ok []
           | Raise e => Raise e
           | Ok a => match legacy_iter f get (S i) with
                     | Ok l => Ok (a :: l)
                     | Raise e => Raise e
                     end
           end
  end.

(* ---- items *)
Inductive nidx := NIAttrAbsent       (* Line has no normal_indices attribute *)
                | NINone | NIZero    (* absent normals: None (bound, polygons) or 0 (unbound triangles) *)
                | NIdx (l : list N).
Inductive nrm := NNone | NGenerated  (* Triangle computes face normals when it gets None *)
               | NRows (r : list (list Z)).

Record item := Item {
  it_indices : list N;
  it_vertices : list (list Z);
  it_normal_indices : nidx;
  it_normals : nrm;
  it_texcoord_indices : list (list N);      (* [] for Line, which does not carry them *)
  it_texcoords : list (list (list Z));
  it_material : option N }.

(* a primitive ready for item access: the arrays it indexes (bound sets hold transformed
   copies) and the material its items report *)
Record iprim := IPrim {
  ip_kind : kind; ip_bound : bool; ip_nrows : nat; ip_vcounts : list nat;
  ip_vertex : option (list (list Z) * list N);
  ip_normal : option (list (list Z) * list N);
  ip_texcoord : list (list (list Z) * list N);
  ip_material : option N }.

Definition vw (v : view) := (s_rows (v_src v), v_idx v).

Definition unbound (p : prim) : iprim :=
  IPrim (p_kind p) false (p_nrows p) (p_vcounts p)
        (option_map vw (p_vertex p)) (option_map vw (p_normal p)) (map vw (p_texcoord p))
        (p_material p).

(* __len__: len(index) for triangles and lines, npolygons = len(vcounts) for polygons *)
Definition ilen (p : iprim) : nat :=
  if is_poly (ip_kind p) then length (ip_vcounts p) else ip_nrows p.

(* polystarts: cumulative sums *)
Definition start_of (vcounts : list nat) (i : nat) : nat := sum (firstn i vcounts).

(* the corner range of item i, or IndexError *)
Definition range_of (p : iprim) (i : nat) : outcome (nat * nat) :=
  if is_poly (ip_kind p) then
    match nth_error (ip_vcounts p) i with        (* self.polyindex[i] *)
    | None => Raise PyIndexError
    | Some c => Ok (start_of (ip_vcounts p) i, c)
    end
  else if Nat.eqb (ip_nrows p) 0 then Raise PyIndexError       (* empty set *)
  else if Nat.ltb i (ip_nrows p)                                (* self._vertex_index[i] *)
       then Ok (i * kind_k (ip_kind p), kind_k (ip_kind p))
       else Raise PyIndexError.

Definition getitem (p : iprim) (i : nat) : outcome item :=
  match range_of p i with Raise e => Raise e | Ok (st, cnt) =>
  match ip_vertex p with
  | None =>
      (* no array views at all (empty index).  Polylists / polygons can still have polygons
         (vcount 0): each is an item without corners; the other kinds never get here *)
      if is_poly (ip_kind p) then Ok (Item [] [] NINone NNone [] [] (ip_material p))
      else Raise PyTypeError
  | Some (vdata, vidx) =>
    let vi := slice st cnt vidx in
    match gather vdata vi with Raise e => Raise e | Ok vs =>
    match (match ip_normal p with
           | None => Ok (match ip_kind p with
                         | KTri => (if ip_bound p then NINone else NIZero, NGenerated)
                         | KLine => (NIAttrAbsent, NNone)
                         | _ => (NINone, NNone) end)
           | Some (ndata, nidx') =>
               let ni := slice st cnt nidx' in
               match gather ndata ni with
               | Raise e => Raise e
               | Ok ns => Ok (match ip_kind p with KLine => NIAttrAbsent | _ => NIdx ni end, NRows ns)
               end
           end) with Raise e => Raise e | Ok (nix, nrmv) =>
    match omapM (fun t => gather (fst t) (slice st cnt (snd t))) (ip_texcoord p) with
    | Raise e => Raise e
    | Ok uvs =>
      Ok (Item vi vs nix nrmv
               (match ip_kind p with KLine => [] | _ => map (fun t => slice st cnt (snd t)) (ip_texcoord p) end)
               uvs (ip_material p))
    end end end
  end end.

(* prim[z] for any Python integer: numpy's (and list's) index normalisation - negative
   positions count from the end, anything outside [-len, len) is an IndexError *)
Definition getitem_z (p : iprim) (z : Z) : outcome item :=
  match Py.norm_index (ilen p) z with
  | None => Raise PyIndexError
  | Some i => getitem p i
  end.

(* list(prim) *)
Definition iter (p : iprim) : outcome (list item) := legacy_iter (S (ilen p)) (getitem p) 0.

(* bound.shapes(): for i in range(n): yield self[i] *)
Definition shapes (p : iprim) : outcome (list item) := omapM (getitem p) (seq 0 (ilen p)).

(* ---- binding: M is matrix[:3, :] as three rows of four integers *)
Definition dot3 (a : list Z) (v : list Z) : Z :=
  (nth 0 a 0 * nth 0 v 0 + nth 1 a 0 * nth 1 v 0 + nth 2 a 0 * nth 2 v 0)%Z.
Definition xform_point (m : list (list Z)) (v : list Z) : list Z :=
  map (fun r => (dot3 r v + nth 3 r 0)%Z) m.
Definition xform_dir (m : list (list Z)) (v : list Z) : list Z :=
  map (fun r => dot3 r v) m.

Definition lookup (d : list (N * N)) (k : N) : option N :=
  match find (fun e => N.eqb (fst e) k) d with Some e => Some (snd e) | None => None end.

Definition bind (p : prim) (m : list (list Z)) (matmap : list (N * N)) : iprim :=
  IPrim (p_kind p) true (p_nrows p) (p_vcounts p)
        (option_map (fun v => (map (xform_point m) (s_rows (v_src v)), v_idx v)) (p_vertex p))
        (option_map (fun v => (map (xform_dir m) (s_rows (v_src v)), v_idx v)) (p_normal p))
        (map vw (p_texcoord p))
        (match p_material p with Some s => lookup matmap s | None => None end).

(* ------------------------------------------------------------------------- *)
(* SPEC: what item i must carry, read off the array views by position. *)
Definition pick {A} (d : A) (l : list A) (st cnt : nat) : list A :=
  map (fun c => nth (st + c) l d) (seq 0 cnt).
Definition rows_at (data : list (list Z)) (idx : list N) : list (list Z) :=
  map (fun ix => nth (N.to_nat ix) data []) idx.

Definition spec_range (p : iprim) (i : nat) : nat * nat :=
  if is_poly (ip_kind p) then (sum (firstn i (ip_vcounts p)), nth i (ip_vcounts p) 0)
  else (i * kind_k (ip_kind p), kind_k (ip_kind p)).

Definition spec_item (p : iprim) (i : nat) : item :=
  let '(st, cnt) := spec_range p i in
  let vdata := match ip_vertex p with Some x => fst x | None => [] end in
  let vidx := match ip_vertex p with Some x => snd x | None => [] end in
  Item (pick 0%N vidx st cnt)
       (rows_at vdata (pick 0%N vidx st cnt))
       (match ip_normal p, ip_kind p with
        | _, KLine => NIAttrAbsent
        | Some x, _ => NIdx (pick 0%N (snd x) st cnt)
        | None, KTri => if ip_bound p then NINone else NIZero
        | None, _ => NINone end)
       (match ip_normal p, ip_kind p with
        | Some x, _ => NRows (rows_at (fst x) (pick 0%N (snd x) st cnt))
        | None, KTri => NGenerated
        | None, _ => NNone end)
       (match ip_kind p with KLine => [] | _ => map (fun t => pick 0%N (snd t) st cnt) (ip_texcoord p) end)
       (map (fun t => rows_at (fst t) (pick 0%N (snd t) st cnt)) (ip_texcoord p))
       (ip_material p).

(* well-formedness of an indexable primitive: what acceptance by a constructor gives *)
Definition view_ok (ncorners : nat) (x : list (list Z) * list N) : Prop :=
  length (snd x) = ncorners /\ Forall (fun ix => (ix < N.of_nat (length (fst x)))%N) (snd x).

Definition iwf (p : iprim) : Prop :=
  let nc := ip_nrows p * kind_k (ip_kind p) in
  (is_poly (ip_kind p) = true -> sum (ip_vcounts p) = ip_nrows p) /\
  (ip_nrows p <> 0 -> ip_vertex p <> None) /\
  (ip_vertex p = None -> ip_normal p = None /\ ip_texcoord p = []) /\
  (forall x, ip_vertex p = Some x -> view_ok nc x) /\
  (forall x, ip_normal p = Some x -> view_ok nc x) /\
  Forall (view_ok nc) (ip_texcoord p).
