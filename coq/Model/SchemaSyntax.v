(* C04 - deep embedding of the fragment of XML Schema that collada/resources/schema-1.4.1.xml
   uses.  Gen/Schema141.v (regenerated from /repo on every run by harness/translate/schema141.py)
   is a closed term of type [schema]; Model/Schema.v interprets it.  No proofs here. *)
From Coq Require Import List ZArith NArith.
From PC Require Import Base.Atoms.
Import ListNotations.

(* Lexical classes of strings.  Strings never enter Coq: the harness attaches to every atom that
   occurs in a document a bit mask saying which lexical classes its string belongs to
   (harness/props/c04.py: lex_flags, ~40 lines of regular expressions, in the trusted base and
   cross-checked against xmllint through the mutation pool). *)
Definition lx_NCName   : N := 0%N.   (* also xs:ID, xs:IDREF *)
Definition lx_Name     : N := 1%N.
Definition lx_NMTOKEN  : N := 2%N.
Definition lx_dateTime : N := 3%N.
Definition lx_anyURI   : N := 4%N.
Definition lx_double   : N := 5%N.   (* a string that is an xs:double/xs:float literal *)
Definition lx_boolean  : N := 6%N.
Definition lx_hexBinary: N := 7%N.
Definition lx_hash     : N := 8%N.   (* the string starts with '#' (the schema's one pattern facet: hash then anything) *)
Definition lx_fragURI  : N := 9%N.   (* '#' followed by this string is a valid xs:anyURI *)

Inductive stype : Type :=
  | SAnyString                                   (* xs:string / xs:token: no lexical constraint *)
  | SLex (bit : N)                               (* one item of the lexical class *)
  | SInt (lo hi : option Z)                      (* integer types with their value range *)
  | SFloat                                       (* xs:float / xs:double *)
  | SBool
  | SEnum (vals : list atom)                     (* xs:enumeration over a string-like base *)
  | SFragment                                    (* xs:string restricted by that pattern (URIFragmentType) *)
  | SList (item : stype) (lo : nat) (hi : option nat)   (* xs:list with min/maxLength *)
  | SUnion (ms : list stype).

(* content-model particles; element types are indices into the schema's type table *)
Inductive particle : Type :=
  | PElem (name : atom) (ty : N) (mn : nat) (mx : option nat)
  | PSeq (ps : list particle) (mn : nat) (mx : option nat)
  | PChoice (ps : list particle) (mn : nat) (mx : option nat)
  | PAny (mn : nat) (mx : option nat).           (* xs:any namespace="##any" processContents="lax" *)

Inductive content : Type :=
  | CEmpty                                       (* no children, no text *)
  | CSimple (st : stype)                         (* simple content *)
  | CElems (p : particle)                        (* element-only content *)
  | CAnyType                                     (* xs:anyType: anything, children assessed laxly *)
  | CCut.                                        (* declared in the XSD but outside the translated
                                                    closure: fail closed (validate = false) *)

Record attruse := AttrUse { au_name : atom; au_req : bool; au_type : stype }.

Record ctype := CType { ct_attrs : list attruse; ct_content : content }.

Record schema := Schema {
  s_tns : atom;                                  (* target namespace *)
  s_root : atom;                                 (* the element a document must start with *)
  s_globals : list (atom * N);                   (* global element declarations: name -> type *)
  s_types : list ctype;                          (* type table *)
  s_names : list atom                            (* every element name declared in the closure *)
}.
