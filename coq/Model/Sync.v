(* C02 - reconciliation of an XML element's children with the model's object list, as
   collada.util._syncChildren does it (after the fix: commits 80e2cb6 / d491ede in /repo):

     def _syncChildren(parent, xmlnodes):
         for child in list(parent):                       (* phase 1 *)
             if child not in xmlnodes:
                 parent.remove(child)
         for i, xmlnode in enumerate(xmlnodes):           (* phase 2 *)
             if i >= len(parent) or parent[i] is not xmlnode:
                 if xmlnode in list(parent):
                     parent.remove(xmlnode)
                 parent.insert(i, xmlnode)

   XML nodes are represented by their identity (uid : N); what a node contains is the
   business of Model/Emit.v.  MODEL = [py_sync]; SPEC = [sync_spec].  No proofs here. *)
From Coq Require Import List Bool NArith Lia.
From PC Require Import Base.Py.
Import ListNotations.

Definition memN (u : N) (l : list N) : bool := existsb (N.eqb u) l.

(* list.remove(x): the first element equal to x goes (the model never calls it on an absent x) *)
Fixpoint remove_first (u : N) (l : list N) : list N :=
  match l with
  | [] => []
  | x :: r => if N.eqb x u then r else x :: remove_first u r
  end.

(* list.insert(i, x) for i >= 0: positions past the end append *)
Definition insert_at (i : nat) (u : N) (l : list N) : list N := firstn i l ++ u :: skipn i l.

(* phase 1: iterate over a COPY of the children, removing from the live list *)
Definition phase1_step (want : list N) (live : list N) (c : N) : list N :=
  if memN c want then live else remove_first c live.
Definition phase1 (want old : list N) : list N := fold_left (phase1_step want) old old.

(* phase 2: position i must hold the i-th wanted node *)
Definition place (i : nat) (u : N) (live : list N) : list N :=
  match nth_error live i with
  | Some x => if N.eqb x u then live
              else insert_at i u (if memN u live then remove_first u live else live)
  | None => insert_at i u (if memN u live then remove_first u live else live)
  end.
Fixpoint phase2 (i : nat) (want live : list N) : list N :=
  match want with
  | [] => live
  | u :: w => phase2 (S i) w (place i u live)
  end.

Definition py_sync (old want : list N) : list N := phase2 0 want (phase1 want old).

(* The ORIGINAL algorithm (before the fix), kept as a regression witness:
     for o in objs: if o.xmlnode not in node: node.append(o.xmlnode)
     for n in node: if n not in xmlnodes: node.remove(n)        -- removes while iterating *)
Definition append_missing (old want : list N) : list N :=
  fold_left (fun live u => if memN u live then live else live ++ [u]) want old.
Definition py_sync_original (old want : list N) : list N :=
  iter_remove (fun c => memN c want) (append_missing old want).

(* SPEC.  [managed] selects the children the model accounts for. The result has exactly
   the objects' nodes, in model order, as its managed children; every other child keeps
   its identity and its position relative to the other unmanaged children. *)
Definition sync_spec (managed : N -> bool) (old want res : list N) : Prop :=
  filter managed res = want /\
  filter (fun c => negb (managed c)) res = filter (fun c => negb (managed c)) old.

(* -------- instances: what each save method hands to _syncChildren -------- *)

(* Collada.save, one library element: all children are managed *)
Definition library_sync (old objs : list N) := py_sync old objs.
(* Node.save: transforms first, then children (the order the constructor emits) *)
Definition node_sync (old transforms children : list N) := py_sync old (transforms ++ children).
(* Scene.save *)
Definition scene_sync (old nodes : list N) := py_sync old nodes.
(* GeometryNode.save: bind_material/technique_common <-> materials *)
Definition bind_material_sync (old materials : list N) := py_sync old materials.
(* Geometry.save: sources (sourceById order, aliases dropped), <vertices>, primitives, then the
   <extra> children the mesh already had ([is_extra] tells which old children are <extra>) *)
Definition mesh_sync (is_extra : N -> bool) (old sources : list N) (vertices : N) (prims : list N) :=
  py_sync old (sources ++ vertices :: prims ++ filter is_extra old).

(* Effect.save: every <newparam> (and every <image> declared locally: it belongs to the document's
   image library and is written there) is taken out of <profile_COMMON>, then the parameters' nodes
   are inserted, in list order, where <technique> is.  [is_param] selects the children that are
   taken out; <technique> and <extra> are not managed by the parameter list. *)
Fixpoint index_of (u : N) (l : list N) : nat :=
  match l with [] => O | x :: r => if N.eqb x u then O else S (index_of u r) end.
Definition profile_sync (is_param : N -> bool) (tec : N) (old params : list N) : list N :=
  let rest := filter (fun c => negb (is_param c)) old in
  let loc := index_of tec rest in
  firstn loc rest ++ params ++ skipn loc rest.

(* MaterialNode.save: the bind_vertex_input children are rebuilt from the tuples, after the
   <bind> children and before anything else ([is_bvi] / [is_bind] classify old children) *)
Definition instance_material_sync (is_bvi is_bind : N -> bool) (old fresh_inputs : list N) : list N :=
  let rest := filter (fun c => negb (is_bvi c)) old in
  let loc := length (filter is_bind rest) in
  firstn loc rest ++ fresh_inputs ++ skipn loc rest.

(* -------- documents as trees of objects; the heap gives, for every node identity, the
   child identities its XML element has right now (ANY old tree) -------- *)
Inductive obj := Obj (u : N) (kids : list obj).
Definition ouid (o : obj) := let 'Obj u _ := o in u.
Definition okids (o : obj) := let 'Obj _ k := o in k.

Inductive skel := Sk (u : N) (kids : list skel).

(* the emission of a model: every element's children are its objects' elements, in order *)
Fixpoint emit_skel (o : obj) : skel :=
  let 'Obj u k := o in Sk u (map emit_skel k).

(* save(): children first (recursively), then this element is reconciled; the resulting
   element lists its children by identity, each child's content being its own saved tree *)
Fixpoint lookup_obj (u : N) (l : list obj) : option obj :=
  match l with
  | [] => None
  | o :: r => if N.eqb (ouid o) u then Some o else lookup_obj u r
  end.

Fixpoint save_onto (heap : N -> list N) (o : obj) : skel :=
  let 'Obj u k := o in
  let saved := map (fun c => (ouid c, save_onto heap c)) k in
  Sk u (flat_map (fun cu => match find (fun p => N.eqb (fst p) cu) saved with
                            | Some p => [snd p]
                            | None => []      (* a child identity no object owns: impossible by the theorem *)
                            end)
                 (py_sync (heap u) (map ouid k))).

(* distinct identities at every level of the model *)
Fixpoint wf_obj (o : obj) : Prop :=
  let 'Obj _ k := o in
  NoDup (map ouid k) /\ (fix all (l : list obj) : Prop := match l with [] => True | c :: r => wf_obj c /\ all r end) k.

(* edit histories at document level: an edit replaces the model by any other model (that is
   what add / remove / replace / reorder / move at any level amount to); a save reconciles *)
Inductive step := Edit (m : obj) | Save.

(* state: current model, heap of element children, last saved tree *)
Fixpoint skel_heap (s : skel) (h : N -> list N) : N -> list N :=
  let 'Sk u k := s in
  let h' := (fix go (l : list skel) (h : N -> list N) := match l with [] => h | c :: r => go r (skel_heap c h) end) k h in
  fun v => if N.eqb v u then map (fun c => let 'Sk cu _ := c in cu) k else h' v.

Definition state := (obj * (N -> list N) * option skel)%type.
Definition do_step (st : state) (s : step) : state :=
  let '(m, h, t) := st in
  match s with
  | Edit m' => (m', h, t)
  | Save => let t' := save_onto h m in (m, skel_heap t' h, Some t')
  end.
Definition run_history (st : state) (hs : list step) : state := fold_left do_step hs st.

