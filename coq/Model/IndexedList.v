(* MODEL of collada.util.IndexedList (the code as it stands in /repo):
   a Python list of objects together with a dict  id -> object.
   An object is (uid, id): uid stands for Python object identity, id for its `.id`.
   Every public mutator is one constructor of [op]; [step] follows the code line
   by line, including which exception escapes and whether the list or the dict
   is touched first. *)
From Coq Require Import List Bool ZArith NArith Lia.
From PC Require Import Base.Outcome Base.Py.
Import ListNotations.
Open Scope Z_scope.

Definition obj := (N * N)%type.          (* (uid, id) *)
Definition ouid (o : obj) : N := fst o.
Definition oid  (o : obj) : N := snd o.

Record il := IL { items : list obj; index : list (N * N) (* id -> uid *) }.

Definition iget := @dget N N N.eqb.
Definition iset := @dset N N N.eqb.

(* _addindex *)
Definition addindex (d : list (N * N)) (o : obj) := iset d (oid o) (ouid o).
(* _reindex: start from {} and _addindex every object in list order *)
Definition reindex (l : list obj) : list (N * N) := fold_left addindex l [].

Definition init : il := IL [] [].
(* IndexedList(items, ('id',)) *)
Definition of_list (l : list obj) : il := IL l (reindex l).

Inductive key := KInt (z : Z) | KId (a : N) | KObj (o : obj).

Inductive op :=
  | Append (o : obj) | Extend (os : list obj) | IAdd (os : list obj)
  | Insert (k : key) (o : obj) | SetItem (k : key) (o : obj) | DelItem (k : key)
  | Pop (k : option key) | Remove (k : key) | Clear | Reassign (os : list obj) | Reverse
  (* argument forms of the bulk operations: an iterable that raises before it is exhausted,
     and iterables computed lazily from the list itself *)
  | BulkFail            (* extend / += / attribute assignment with an iterable that raises *)
  | ExtendSelf          (* L.extend(L) *)
  | ReassignRev.        (* doc.lib = reversed(doc.lib) *)

(* list.index(self, obj): first position holding that very object *)
Definition pos_of_uid (l : list obj) (u : N) : option nat :=
  find_index (fun o => N.eqb (ouid o) u) l.

(* _position(ind): ints pass through, anything else is looked up in the dict *)
Definition position (s : il) (k : key) : outcome Z :=
  match k with
  | KInt z => Ok z
  | KId a => match iget (index s) a with
             | None => Raise PyKeyError
             | Some u => match pos_of_uid (items s) u with
                         | Some n => Ok (Z.of_nat n)
                         | None => Raise PyValueError
                         end
             end
  | KObj _ => Raise PyKeyError
  end.

(* result reported to the caller: the popped object's uid, or nothing *)
Definition ret := option N.

Definition step (s : il) (o : op) : il * outcome ret :=
  match o with
  | Append x => (IL (items s ++ [x]) (addindex (index s) x), Ok None)
  | Extend xs | IAdd xs => (IL (items s ++ xs) (fold_left addindex xs (index s)), Ok None)
  | Insert k x =>
      match position s k with
      | Raise e => (s, Raise e)
      | Ok z => let l := list_insert z x (items s) in (IL l (reindex l), Ok None)
      end
  | SetItem k x =>
      match position s k with
      | Raise e => (s, Raise e)
      | Ok z => match norm_index (length (items s)) z with
                | None => (s, Raise PyIndexError)
                | Some n => let l := replace_at n x (items s) in (IL l (reindex l), Ok None)
                end
      end
  | DelItem k =>
      match position s k with
      | Raise e => (s, Raise e)
      | Ok z => match norm_index (length (items s)) z with
                | None => (s, Raise PyIndexError)
                | Some n => let l := remove_at n (items s) in (IL l (reindex l), Ok None)
                end
      end
  | Pop k =>
      match position s (match k with Some k => k | None => KInt (-1) end) with
      | Raise e => (s, Raise e)
      | Ok z => match norm_index (length (items s)) z with
                | None => (s, Raise PyIndexError)
                | Some n => match nth_error (items s) n with
                            | None => (s, Raise PyIndexError)
                            | Some x => let l := remove_at n (items s) in
                                        (IL l (reindex l), Ok (Some (ouid x)))
                            end
                end
      end
  | Remove k =>
      (* obj = self._index[k] if present else k itself; then list.index(self, obj) *)
      let target : option N :=
        match k with
        | KId a => iget (index s) a          (* a bare string is never an element *)
        | KObj x => Some (ouid x)
        | KInt _ => None
        end in
      match target with
      | None => (s, Raise PyValueError)
      | Some u => match pos_of_uid (items s) u with
                  | None => (s, Raise PyValueError)
                  | Some n => let l := remove_at n (items s) in (IL l (reindex l), Ok None)
                  end
      end
  | Clear => (IL [] [], Ok None)
  | Reassign xs => (of_list xs, Ok None)
  | Reverse => let l := rev (items s) in (IL l (reindex l), Ok None)
  | BulkFail => (s, Raise PyOther)      (* the argument is copied into a list before anything is touched *)
  | ExtendSelf => (IL (items s ++ items s) (fold_left addindex (items s) (index s)), Ok None)
  | ReassignRev => (of_list (rev (items s)), Ok None)
  end.

Definition run (s : il) (ops : list op) : il := fold_left (fun s o => fst (step s o)) ops s.

(* ------------------------------------------------------------------------- *)
(* SPEC: a plain Python list of objects.  Look-up by id is *derived* from the
   list: the last object in the list carrying that id. *)

Fixpoint spec_lookup (l : list obj) (a : N) : option N :=
  match l with
  | [] => None
  | x :: r => match spec_lookup r a with
              | Some u => Some u
              | None => if N.eqb a (oid x) then Some (ouid x) else None
              end
  end.

Definition spec_position (l : list obj) (k : key) : outcome Z :=
  match k with
  | KInt z => Ok z
  | KId a => match spec_lookup l a with
             | None => Raise PyKeyError
             | Some u => match pos_of_uid l u with
                         | Some n => Ok (Z.of_nat n)
                         | None => Raise PyValueError
                         end
             end
  | KObj _ => Raise PyKeyError
  end.

Definition list_step (l : list obj) (o : op) : list obj * outcome ret :=
  match o with
  | Append x => (l ++ [x], Ok None)
  | Extend xs | IAdd xs => (l ++ xs, Ok None)
  | Insert k x => match spec_position l k with
                  | Raise e => (l, Raise e)
                  | Ok z => (list_insert z x l, Ok None)
                  end
  | SetItem k x => match spec_position l k with
                   | Raise e => (l, Raise e)
                   | Ok z => match norm_index (length l) z with
                             | None => (l, Raise PyIndexError)
                             | Some n => (replace_at n x l, Ok None)
                             end
                   end
  | DelItem k => match spec_position l k with
                 | Raise e => (l, Raise e)
                 | Ok z => match norm_index (length l) z with
                           | None => (l, Raise PyIndexError)
                           | Some n => (remove_at n l, Ok None)
                           end
                 end
  | Pop k => match spec_position l (match k with Some k => k | None => KInt (-1) end) with
             | Raise e => (l, Raise e)
             | Ok z => match norm_index (length l) z with
                       | None => (l, Raise PyIndexError)
                       | Some n => match nth_error l n with
                                   | None => (l, Raise PyIndexError)
                                   | Some x => (remove_at n l, Ok (Some (ouid x)))
                                   end
                       end
             end
  | Remove k =>
      let target := match k with
                    | KId a => spec_lookup l a | KObj x => Some (ouid x) | KInt _ => None end in
      match target with
      | None => (l, Raise PyValueError)
      | Some u => match pos_of_uid l u with
                  | None => (l, Raise PyValueError)
                  | Some n => (remove_at n l, Ok None)
                  end
      end
  | Clear => ([], Ok None)
  | Reassign xs => (xs, Ok None)
  | Reverse => (rev l, Ok None)
  | BulkFail => (l, Raise PyOther)
  | ExtendSelf => (l ++ l, Ok None)
  | ReassignRev => (rev l, Ok None)
  end.

(* The coherence invariant: the dict answers exactly what the list says. *)
Definition Inv (s : il) : Prop := forall a, iget (index s) a = spec_lookup (items s) a.
