(* MODEL of collada.util.IndexedList (the code as it stands in /repo):
   a Python list of objects together with a dict  id -> object.
   An object is (uid, id): uid stands for Python object identity, id for its `.id`.
   Every public mutator is one constructor of [op]; [step] follows the code line
   by line, including which exception escapes and whether the list or the dict
   is touched first. *)
From Coq Require Import List Bool ZArith NArith Lia.
From PC Require Import Base.Outcome Base.Py Base.IlProg Gen.IndexedList.
Import ListNotations.
Open Scope Z_scope.

Definition obj := (N * N)%type.          (* (uid, id) *)
Definition ouid (o : obj) : N := fst o.
Definition oid  (o : obj) : N := snd o.

Record il := IL { items : list obj; index : list (N * N) (* id -> uid *) }.

Definition iget := @dget N N N.eqb.
Definition iset := @dset N N N.eqb.

(* _addindex *)
Definition addindex (d : list (N * N)) (o : obj) := iset d (oid o) (ouid o).
(* _reindex: start from {} and _addindex every object in list order *)
Definition reindex (l : list obj) : list (N * N) := fold_left addindex l [].

Definition init : il := IL [] [].
(* IndexedList(items, ('id',)) *)
Definition of_list (l : list obj) : il := IL l (reindex l).

Inductive key := KInt (z : Z) | KId (a : N) | KObj (o : obj).

Inductive op :=
  | Append (o : obj) | Extend (os : list obj) | IAdd (os : list obj)
  | Insert (k : key) (o : obj) | SetItem (k : key) (o : obj) | DelItem (k : key)
  | Pop (k : option key) | Remove (k : key) | Clear | Reassign (os : list obj) | Reverse
  (* argument forms of the bulk operations: an iterable that raises before it is exhausted,
     and iterables computed lazily from the list itself *)
  | BulkFail            (* extend / += / attribute assignment with an iterable that raises *)
  | ExtendSelf          (* L.extend(L) *)
  | ReassignRev.        (* doc.lib = reversed(doc.lib) *)

(* list.index(self, obj): first position holding that very object *)
Definition pos_of_uid (l : list obj) (u : N) : option nat :=
  find_index (fun o => N.eqb (ouid o) u) l.

(* _position(ind): ints pass through, anything else is looked up in the dict *)
Definition position (s : il) (k : key) : outcome Z :=
  match k with
  | KInt z => Ok z
  | KId a => match iget (index s) a with
             | None => Raise PyKeyError
             | Some u => match pos_of_uid (items s) u with
                         | Some n => Ok (Z.of_nat n)
                         | None => Raise PyValueError
                         end
             end
  | KObj _ => Raise PyKeyError
  end.

(* result reported to the caller: the popped object's uid, or nothing *)
Definition ret := option N.

(* the hand-written reading of the mutators (reference; [step] below interprets the generated programs
   and Proofs/IndexedList.v shows step = step_ref) *)
Definition step_ref (s : il) (o : op) : il * outcome ret :=
  match o with
  | Append x => (IL (items s ++ [x]) (addindex (index s) x), Ok None)
  | Extend xs | IAdd xs => (IL (items s ++ xs) (fold_left addindex xs (index s)), Ok None)
  | Insert k x =>
      match position s k with
      | Raise e => (s, Raise e)
      | Ok z => let l := list_insert z x (items s) in (IL l (reindex l), Ok None)
      end
  | SetItem k x =>
      match position s k with
      | Raise e => (s, Raise e)
      | Ok z => match norm_index (length (items s)) z with
                | None => (s, Raise PyIndexError)
                | Some n => let l := replace_at n x (items s) in (IL l (reindex l), Ok None)
                end
      end
  | DelItem k =>
      match position s k with
      | Raise e => (s, Raise e)
      | Ok z => match norm_index (length (items s)) z with
                | None => (s, Raise PyIndexError)
                | Some n => let l := remove_at n (items s) in (IL l (reindex l), Ok None)
                end
      end
  | Pop k =>
      match position s (match k with Some k => k | None => KInt (-1) end) with
      | Raise e => (s, Raise e)
      | Ok z => match norm_index (length (items s)) z with
                | None => (s, Raise PyIndexError)
                | Some n => match nth_error (items s) n with
                            | None => (s, Raise PyIndexError)
                            | Some x => let l := remove_at n (items s) in
                                        (IL l (reindex l), Ok (Some (ouid x)))
                            end
                end
      end
  | Remove k =>
      (* obj = self._index[k] if present else k itself; then list.index(self, obj) *)
      let target : option N :=
        match k with
        | KId a => iget (index s) a          (* a bare string is never an element *)
        | KObj x => Some (ouid x)
        | KInt _ => None
        end in
      match target with
      | None => (s, Raise PyValueError)
      | Some u => match pos_of_uid (items s) u with
                  | None => (s, Raise PyValueError)
                  | Some n => let l := remove_at n (items s) in (IL l (reindex l), Ok None)
                  end
      end
  | Clear => (IL [] [], Ok None)
  | Reassign xs => (of_list xs, Ok None)
  | Reverse => let l := rev (items s) in (IL l (reindex l), Ok None)
  | BulkFail => (s, Raise PyOther)      (* the argument is copied into a list before anything is touched *)
  | ExtendSelf => (IL (items s ++ items s) (fold_left addindex (items s) (index s)), Ok None)
  | ReassignRev => (of_list (rev (items s)), Ok None)
  end.

(* ------------------------------------------------------------------------- *)
(* INTERPRETER of the programs of Gen/IndexedList.v (one instruction per statement of the Python
   method, in source order).  A failing instruction stops the method with the state reached so
   far, so the order of list operation and index update, and of argument materialisation and
   mutation, is observable. *)

(* a bulk argument: its elements, whether it can be traversed only once (generator / iterator:
   the worst case every plain argument stands for), whether it raises when exhausted *)
Record iterv := IT { it_content : list obj; it_oneshot : bool; it_fails : bool }.
Definition consume (it : iterv) : list obj * iterv :=
  (it_content it, if it_oneshot it then IT [] true (it_fails it) else it).

(* the method's local variables *)
Record regs := RG { r_key : key; r_pos : Z; r_obj : obj; r_it : iterv; r_tgt : option N; r_ret : ret }.
Definition set_pos (r : regs) (z : Z) := RG (r_key r) z (r_obj r) (r_it r) (r_tgt r) (r_ret r).
Definition set_it (r : regs) (it : iterv) := RG (r_key r) (r_pos r) (r_obj r) it (r_tgt r) (r_ret r).
Definition set_tgt (r : regs) (t : option N) := RG (r_key r) (r_pos r) (r_obj r) (r_it r) t (r_ret r).
Definition set_ret (r : regs) (x : ret) := RG (r_key r) (r_pos r) (r_obj r) (r_it r) (r_tgt r) x.

Inductive res := Cont (s : il) (r : regs) | Fail (s : il) (e : exn).

Fixpoint run_list (ex : il -> regs -> instr -> res) (p : list instr) (s : il) (r : regs) : res :=
  match p with
  | [] => Cont s r
  | i :: p' => match ex s r i with
               | Cont s' r' => run_list ex p' s' r'
               | Fail s' e => Fail s' e
               end
  end.

Definition exec_list (o : listop) (s : il) (r : regs) : res :=
  match o with
  | LInsert => Cont (IL (list_insert (r_pos r) (r_obj r) (items s)) (index s)) r
  | LSetItem => match norm_index (length (items s)) (r_pos r) with
                | None => Fail s PyIndexError
                | Some n => Cont (IL (replace_at n (r_obj r) (items s)) (index s)) r
                end
  | LDelItem => match norm_index (length (items s)) (r_pos r) with
                | None => Fail s PyIndexError
                | Some n => Cont (IL (remove_at n (items s)) (index s)) r
                end
  | LPop => match norm_index (length (items s)) (r_pos r) with
            | None => Fail s PyIndexError
            | Some n => match nth_error (items s) n with
                        | None => Fail s PyIndexError
                        | Some x => Cont (IL (remove_at n (items s)) (index s)) (set_ret r (Some (ouid x)))
                        end
            end
  | LExtend => let '(xs, it') := consume (r_it r) in
               let s' := IL (items s ++ xs) (index s) in
               if it_fails (r_it r) then Fail s' PyOther else Cont s' (set_it r it')
  | LInit => let '(xs, it') := consume (r_it r) in
             if it_fails (r_it r) then Fail s PyOther else Cont (IL xs (index s)) (set_it r it')
  | LAppend => Cont (IL (items s ++ [r_obj r]) (index s)) r
  | LClear => Cont (IL [] (index s)) r
  | LReverse => Cont (IL (rev (items s)) (index s)) r
  | LSort => Cont s r                 (* sort() is outside the property's operation list: not modelled *)
  end.

Fixpoint exec (fuel : nat) (s : il) (r : regs) (i : instr) {struct fuel} : res :=
  match i with
  | IPosition => match position s (r_key r) with
                 | Ok z => Cont s (set_pos r z)
                 | Raise e => Fail s e
                 end
  | IMaterialise => if it_fails (r_it r) then Fail s PyOther
                    else Cont s (set_it r (IT (it_content (r_it r)) false false))
  | IMaterialiseIfSlice => Cont s r                     (* positions are integers here *)
  | ILookupOrSelf caught =>
      (* self._index[x]: a hit for a key that is in the dict, KeyError otherwise (objects and
         integers are never keys); a caught KeyError makes the argument itself the target *)
      match r_key r with
      | KId a => match iget (index s) a with
                 | Some u => Cont s (set_tgt r (Some u))
                 | None => if caught_b PyKeyError caught then Cont s (set_tgt r None)   (* a bare string is never an element *)
                           else Fail s PyKeyError
                 end
      | KObj x => if caught_b PyKeyError caught then Cont s (set_tgt r (Some (ouid x))) else Fail s PyKeyError
      | KInt _ => if caught_b PyKeyError caught then Cont s (set_tgt r None) else Fail s PyKeyError
      end
  | IListIndex => match r_tgt r with
                  | None => Fail s PyValueError
                  | Some u => match pos_of_uid (items s) u with
                              | None => Fail s PyValueError
                              | Some n => Cont s (set_pos r (Z.of_nat n))
                              end
                  end
  | IList o => exec_list o s r
  | IAddIndexArg => Cont (IL (items s) (addindex (index s) (r_obj r))) r
  | IAddIndexEach => let '(xs, it') := consume (r_it r) in
                     let s' := IL (items s) (fold_left addindex xs (index s)) in
                     if it_fails (r_it r) then Fail s' PyOther else Cont s' (set_it r it')
  | IAddIndexSelfEach => Cont (IL (items s) (fold_left addindex (items s) (index s))) r
  | IIndexClear => Cont (IL (items s) []) r
  | IReindex => match fuel with
                | O => Fail s OutOfFuel
                | S f => run_list (exec f) prog_reindex s r
                end
  | ICallExtend => match fuel with
                   | O => Fail s OutOfFuel
                   | S f => run_list (exec f) prog_extend s r
                   end
  end.

Definition run_prog (p : list instr) (s : il) (r : regs) : res := run_list (exec 2) p s r.

Definition regs0 : regs := RG (KInt 0) 0 (0%N, 0%N) (IT [] false false) None None.
Definition with_key (k : key) (x : obj) : regs := RG k 0 x (IT [] false false) None None.
Definition with_it (it : iterv) : regs := RG (KInt 0) 0 (0%N, 0%N) it None None.

Definition finish (res0 : res) : il * outcome ret :=
  match res0 with Cont s r => (s, Ok (r_ret r)) | Fail s e => (s, Raise e) end.

(* attribute assignment: Collada._setIndexedList builds a NEW IndexedList(data, ('id',)); if the
   constructor raises, the attribute keeps the old list *)
Definition reassign (s : il) (it : iterv) : il * outcome ret :=
  match run_prog prog_init init (with_it it) with
  | Cont s' _ => (s', Ok None)
  | Fail _ e => (s, Raise e)
  end.

Definition step (s : il) (o : op) : il * outcome ret :=
  match o with
  | Append x => finish (run_prog prog_append s (with_key (KInt 0) x))
  | Extend xs => finish (run_prog prog_extend s (with_it (IT xs true false)))
  | IAdd xs => finish (run_prog prog_iadd s (with_it (IT xs true false)))
  | Insert k x => finish (run_prog prog_insert s (with_key k x))
  | SetItem k x => finish (run_prog prog_setitem s (with_key k x))
  | DelItem k => finish (run_prog prog_delitem s (with_key k (0%N, 0%N)))
  | Pop k => finish (run_prog prog_pop s (with_key (match k with Some k => k | None => KInt (-1) end) (0%N, 0%N)))
  | Remove k => finish (run_prog prog_remove s (with_key k (0%N, 0%N)))
  | Clear => finish (run_prog prog_clear s regs0)
  | Reverse => finish (run_prog prog_reverse s regs0)
  | Reassign xs => reassign s (IT xs true false)
  | ReassignRev => reassign s (IT (rev (items s)) true false)
  | BulkFail => finish (run_prog prog_extend s (with_it (IT [] true true)))
  | ExtendSelf => finish (run_prog prog_extend s (with_it (IT (items s) false false)))
  end.

Definition run (s : il) (ops : list op) : il := fold_left (fun s o => fst (step s o)) ops s.

(* ------------------------------------------------------------------------- *)
(* SPEC: a plain Python list of objects.  Look-up by id is *derived* from the
   list: the last object in the list carrying that id. *)

Fixpoint spec_lookup (l : list obj) (a : N) : option N :=
  match l with
  | [] => None
  | x :: r => match spec_lookup r a with
              | Some u => Some u
              | None => if N.eqb a (oid x) then Some (ouid x) else None
              end
  end.

Definition spec_position (l : list obj) (k : key) : outcome Z :=
  match k with
  | KInt z => Ok z
  | KId a => match spec_lookup l a with
             | None => Raise PyKeyError
             | Some u => match pos_of_uid l u with
                         | Some n => Ok (Z.of_nat n)
                         | None => Raise PyValueError
                         end
             end
  | KObj _ => Raise PyKeyError
  end.

Definition list_step (l : list obj) (o : op) : list obj * outcome ret :=
  match o with
  | Append x => (l ++ [x], Ok None)
  | Extend xs | IAdd xs => (l ++ xs, Ok None)
  | Insert k x => match spec_position l k with
                  | Raise e => (l, Raise e)
                  | Ok z => (list_insert z x l, Ok None)
                  end
  | SetItem k x => match spec_position l k with
                   | Raise e => (l, Raise e)
                   | Ok z => match norm_index (length l) z with
                             | None => (l, Raise PyIndexError)
                             | Some n => (replace_at n x l, Ok None)
                             end
                   end
  | DelItem k => match spec_position l k with
                 | Raise e => (l, Raise e)
                 | Ok z => match norm_index (length l) z with
                           | None => (l, Raise PyIndexError)
                           | Some n => (remove_at n l, Ok None)
                           end
                 end
  | Pop k => match spec_position l (match k with Some k => k | None => KInt (-1) end) with
             | Raise e => (l, Raise e)
             | Ok z => match norm_index (length l) z with
                       | None => (l, Raise PyIndexError)
                       | Some n => match nth_error l n with
                                   | None => (l, Raise PyIndexError)
                                   | Some x => (remove_at n l, Ok (Some (ouid x)))
                                   end
                       end
             end
  | Remove k =>
      let target := match k with
                    | KId a => spec_lookup l a | KObj x => Some (ouid x) | KInt _ => None end in
      match target with
      | None => (l, Raise PyValueError)
      | Some u => match pos_of_uid l u with
                  | None => (l, Raise PyValueError)
                  | Some n => (remove_at n l, Ok None)
                  end
      end
  | Clear => ([], Ok None)
  | Reassign xs => (xs, Ok None)
  | Reverse => (rev l, Ok None)
  | BulkFail => (l, Raise PyOther)
  | ExtendSelf => (l ++ l, Ok None)
  | ReassignRev => (rev l, Ok None)
  end.

(* The coherence invariant: the dict answers exactly what the list says. *)
Definition Inv (s : il) : Prop := forall a, iget (index s) a = spec_lookup (items s) a.

(* get(key) / key in L for an id key, with the generated except clauses: a KeyError of the dict
   look-up that is not caught escapes *)
Definition get_model (s : il) (a : N) : outcome (option N) :=
  match iget (index s) a with
  | Some u => Ok (Some u)
  | None => if caught_b PyKeyError get_caught then Ok None else Raise PyKeyError
  end.
