(* C17 - queries are pure and repeatable: a FOOTPRINT model.

   The heap is a map from locations to values.  A location is (class, identity); the classes
   are what harness/impl/c17_walk.py measures on the implementation: fields of model objects,
   array buffers (bytes), array metadata (shape/dtype), XML nodes, the recorded-error list,
   source component names, aliasing and container structure are OBSERVABLE; the triangulation
   cache (Polylist._triangleset, BoundPolylist._triangleset), the image caches
   (CImage._data/_pilimage/_uintarray/_floatarray) and freshly allocated objects (bound
   primitives and their transformed vertex/normal arrays, shapes) are HIDDEN.

   MODEL: every read-only operation is a transition [exec q : heap -> heap * val] with a
   declared write set; the faithful part is the table [declared] below, which says, per
   query kind of the implementation, which classes of locations the code really writes:
     - Polylist.triangleset() fills _triangleset (and allocates the TriangleSet; the
       TriangleSet constructor reshapes the fresh index array in place and calls checkSource,
       whose assignment source.components := components is value-preserving because the
       Polylist constructor already normalised the same sources);
     - BoundPolylist.triangleset() fills the cache of the unbound original and its own;
     - CImage.data fills _data;
     - binding (scene.objects, BoundGeometry.primitives, shapes) only allocates.
   SPEC: [snapshot] reads observable locations only; purity = the snapshot and every saved
   output are those of the history with the queries erased.

   This property is PARTIAL by design: numpy's aliasing rules are not modelled.  That the
   implementation's writes stay inside [declared] is measured on every run (Check/C17.v). *)
From Coq Require Import List NArith Bool.
Import ListNotations.

Definition lclass := N.
Definition c_field : lclass := 1%N.
Definition c_array_data : lclass := 2%N.
Definition c_array_meta : lclass := 3%N.
Definition c_xml : lclass := 4%N.
Definition c_errors : lclass := 5%N.
Definition c_components : lclass := 6%N.
Definition c_alias : lclass := 7%N.
Definition c_structure : lclass := 8%N.
Definition c_tricache : lclass := 20%N.
Definition c_imgcache : lclass := 21%N.
Definition c_fresh : lclass := 22%N.
(* a private attribute (._name) that the operation itself created: a cache, not part of the
   model's public state; no query kind declares it, so measuring one breaks the tie *)
Definition c_newprivate : lclass := 23%N.

Definition hidden_class (c : lclass) : bool :=
  N.eqb c c_tricache || N.eqb c c_imgcache || N.eqb c c_fresh || N.eqb c c_newprivate.

Definition loc := (lclass * N)%type.
Definition val := N.
Definition heap := loc -> val.

Definition observable (l : loc) : bool := negb (hidden_class (fst l)).

Definition loc_eqb (a b : loc) : bool := N.eqb (fst a) (fst b) && N.eqb (snd a) (snd b).

Definition upd (h : heap) (l : loc) (v : val) : heap :=
  fun l' => if loc_eqb l' l then v else h l'.

(* what a user can see of the model: hidden locations read as 0 *)
Definition snapshot (h : heap) : heap := fun l => if observable l then h l else 0%N.

Definition obs_eq (h h' : heap) : Prop := forall l, observable l = true -> h l = h' l.

(* ---- the query kinds of the implementation (atoms shared with harness/props/c17.py) *)
Definition k_scene_objects := 1%N.
Definition k_node_objects := 2%N.
Definition k_shapes := 3%N.
Definition k_polygon_triangles := 4%N.
Definition k_bound_triangleset := 5%N.
Definition k_bound_item := 6%N.
Definition k_triangleset := 7%N.
Definition k_unbound_item := 8%N.
Definition k_input_list := 9%N.
Definition k_prim_props := 10%N.
Definition k_index_lib := 11%N.
Definition k_print := 12%N.
Definition k_image_data := 13%N.
Definition k_source_item := 14%N.
Definition k_effect_eq := 15%N.
Definition k_partial_iter := 16%N.

(* declared write set of a query kind, as location classes *)
Definition declared (k : N) : list lclass :=
  if N.eqb k k_triangleset then [c_tricache; c_fresh]
  else if N.eqb k k_bound_triangleset then [c_tricache; c_fresh]
  else if N.eqb k k_image_data then [c_imgcache]
  else if N.eqb k k_scene_objects || N.eqb k k_node_objects || N.eqb k k_shapes
          || N.eqb k k_polygon_triangles || N.eqb k k_bound_item || N.eqb k k_unbound_item
          || N.eqb k k_input_list || N.eqb k k_partial_iter then [c_fresh]
  else [].

Definition in_classes (c : lclass) (cs : list lclass) : bool := existsb (N.eqb c) cs.

Definition writes_of_kind (k : N) (l : loc) : bool := in_classes (fst l) (declared k).

(* ---- histories: queries with saves interleaved *)
Section Histories.
  Variable query : Type.
  Variable exec : query -> heap -> heap * val.
  Variable save : heap -> heap * val.

  Inductive op := Q (q : query) | Save.

  Definition is_save (o : op) : bool := match o with Save => true | Q _ => false end.

  (* final heap and the outputs in order, each tagged "came from a save" *)
  Fixpoint run (h : heap) (ops : list op) : heap * list (bool * val) :=
    match ops with
    | [] => (h, [])
    | Q q :: r => let '(h1, v) := exec q h in let '(h2, out) := run h1 r in (h2, (false, v) :: out)
    | Save :: r => let '(h1, v) := save h in let '(h2, out) := run h1 r in (h2, (true, v) :: out)
    end.

  Definition saves_only (ops : list op) : list op := filter is_save ops.

  Definition saved_outputs (out : list (bool * val)) : list val := map snd (filter fst out).
End Histories.

Arguments Q {query} q.
Arguments Save {query}.

(* ---- a concrete small heap for the non-vacuity example:
   source data, an index array, an XML text node (observable); a triangulation cache
   (hidden); two freshly allocated bound arrays (hidden). *)
Definition l_src : loc := (c_array_data, 0%N).
Definition l_idx : loc := (c_array_data, 1%N).
Definition l_xml : loc := (c_xml, 0%N).
Definition l_cache : loc := (c_tricache, 0%N).
Definition l_bv : loc := (c_fresh, 0%N).
Definition l_bn : loc := (c_fresh, 1%N).

Inductive tq := TTri | TBind | TPrint.

Definition tri_of (h : heap) : val := (1 + h l_src + 2 * h l_idx)%N.

Definition texec (q : tq) (h : heap) : heap * val :=
  match q with
  | TTri => if N.eqb (h l_cache) 0 then (upd h l_cache (tri_of h), tri_of h) else (h, h l_cache)
  | TBind => (upd (upd h l_bv (h l_src + 5)%N) l_bn (h l_src + 7)%N, (h l_src + 5)%N)
  | TPrint => (h, (h l_src + h l_idx)%N)
  end.

Definition twrites (q : tq) (l : loc) : bool :=
  match q with
  | TTri => loc_eqb l l_cache
  | TBind => loc_eqb l l_bv || loc_eqb l l_bn
  | TPrint => false
  end.

Definition towned (q : tq) : list loc := match q with TBind => [l_bv; l_bn] | _ => [] end.

Definition tsave (h : heap) : heap * val :=
  (upd h l_xml (3 * h l_src + h l_idx)%N, (3 * h l_src + h l_idx)%N).

Definition tcoherent (h : heap) : Prop := h l_cache = 0%N \/ h l_cache = tri_of h.

Definition theap0 : heap :=
  fun l => if loc_eqb l l_src then 4%N else if loc_eqb l l_idx then 9%N else if loc_eqb l l_xml then 2%N else 0%N.
