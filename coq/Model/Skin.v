(* C19 - skin and morph controllers (collada/controller.py, collada/scene.py ControllerNode,
   collada/util.py checkSource), as observed through collada.Collada(...).

   The model starts from the *parsed description* of a <controller> (what the find/findall/get
   calls of Controller.load, Skin.load and Morph.load extract; strings are atoms, numbers are
   integers) and follows Skin.load + Skin.__init__ / Morph.load statement by statement,
   including the order in which the checks raise.  Built-in exceptions escaping from the
   loader are reported by Collada._loadControllers as DaeMalformedError
   (Collada.handleRawLoadError); the model returns DaeMalformed for those sites.

   MODEL = [load_skin], [load_morph], [bound_skin_matrix].   SPEC = [spec_group], [spec_accepts].
   No proofs in this file. *)
From Coq Require Import List Bool Arith ZArith NArith.
From PC Require Import Base.Outcome Base.Py Base.Mat.
Close Scope Z_scope.
Import ListNotations.

(* input semantics that the loaders distinguish *)
Inductive sem := SJoint | SInvBind | SWeight | SMorphTarget | SMorphWeight | SOther.

(* a loaded <source>: Name_array / IDREF_array (one param) or float_array with [ncomp] params
   (values are integers in the model: matrices and weights are generated integer-valued) *)
Inductive src :=
  | SrcNames (idref : bool) (names : list N)
  | SrcFloats (ncomp : nat) (vals : list Z).

Definition scope := list (N * src).

(* sourcebyid[ch.id] = ch in document order: a later source with the same id replaces the value *)
Fixpoint lookup (sc : scope) (id : N) : option src :=
  match sc with
  | [] => None
  | (k, s) :: r => match lookup r id with Some s' => Some s' | None => if N.eqb k id then Some s else None end
  end.
Fixpoint count_distinct (ids : list N) : nat :=
  match ids with
  | [] => 0
  | k :: r => if existsb (N.eqb k) r then count_distinct r else S (count_distinct r)
  end.

(* len(source.data) *)
Definition src_len (s : src) : nat :=
  match s with
  | SrcNames _ names => length names
  | SrcFloats ncomp vals => length vals / ncomp
  end.
Definition src_ncomp (s : src) : nat :=
  match s with SrcNames _ _ => 1 | SrcFloats n _ => n end.

(* util.checkSource(source, (one component,), maxindex); maxindex = -1 when nothing refers to it *)
Definition check_source (s : src) (maxindex : Z) : outcome unit :=
  if (Z.of_nat (src_len s) <=? maxindex)%Z then Raise DaeMalformed
  else if Nat.eqb (src_ncomp s) 1 then Ok tt else Raise DaeMalformed.

(* ---------------------------------------------------------------- rows and slices *)
Fixpoint chunk_fuel (fuel n : nat) (l : list Z) : list (list Z) :=
  match fuel with
  | O => []
  | S f => match l with [] => [] | _ => firstn n l :: chunk_fuel f n (skipn n l) end
  end.
(* an array of size k*n reshaped (k, n) *)
Definition chunk (n : nat) (l : list Z) : list (list Z) := chunk_fuel (length l) n l.

(* the partition loop of Skin.__init__:
       at = 0
       for ct in vcounts:
           this_set = v[nind*at : nind*(at+ct)];  this_set.shape = (ct, nind);  at += ct
   the slice is clamped by Python, the reshape raises when the slice is too short; the
   position reached is returned as well *)
Fixpoint split_by_vcount (nind : nat) (vcounts : list nat) (at_ : nat) (v : list Z)
  : outcome (list (list (list Z)) * nat) :=
  match vcounts with
  | [] => Ok ([], at_)
  | ct :: r =>
      let this := firstn (nind * ct) (skipn (nind * at_) v) in
      if Nat.eqb (length this) (ct * nind) then
        match split_by_vcount nind r (at_ + ct) v with
        | Ok (gs, e) => Ok (chunk nind this :: gs, e)
        | Raise e => Raise e
        end
      else Raise DaeMalformed
  end.

(* influence[:, k] *)
Definition column (k : nat) (g : list (list Z)) : list Z := map (fun row => nth k row 0%Z) g.

(* numpy.max over the non-empty columns; -1 when there is no index at all *)
Definition max_index (cols : list (list Z)) : Z := fold_right Z.max (-1)%Z (concat cols).

(* numpy.min over the non-empty columns; 0 when there is no index at all *)
Definition min_index (cols : list (list Z)) : Z := fold_right Z.min 0%Z (concat cols).
(* a joint index of -1 refers to the bind shape (COLLADA); anything below it, and any negative
   weight index, is rejected *)
Definition negative_indices (ji wi : list (list Z)) : bool :=
  (min_index ji <? -1)%Z || (min_index wi <? 0)%Z.

(* ---------------------------------------------------------------- the parsed <skin> *)
Record skin_desc := mk_skin_desc {
  sd_scope : scope;                    (* the <source> children, document order *)
  sd_geom : bool;                      (* skin/@source is "#id" of a loaded geometry *)
  sd_bind_shape : option (list Z);     (* numbers of <bind_shape_matrix>, if present *)
  sd_joints : list (sem * N);          (* <joints>/<input>: semantic, source id *)
  sd_vw : list (sem * N * Z);          (* <vertex_weights>/<input>: semantic, source id, offset *)
  sd_vcount : list nat;
  sd_v : list Z }.

Record skin_view := mk_skin_view {
  sv_nindices : nat;
  sv_groups : list (list (list Z));    (* skin[i]: rows of nindices integers *)
  sv_joint_index : list (list Z);
  sv_weight_index : list (list Z);
  sv_joint_matrices : list (N * list Z);   (* joint name -> inverse bind matrix, in order *)
  sv_bind_shape : list Z }.

Definition identity16 : list Z := [1;0;0;0; 0;1;0;0; 0;0;1;0; 0;0;0;1]%Z.

(* for i in inputs: if JOINT: joint_source = id  elif INV_BIND_MATRIX: matrix_source = id *)
Definition pick_joints (ins : list (sem * N)) : option N * option N :=
  fold_left (fun acc i => match fst i with
                          | SJoint => (Some (snd i), snd acc)
                          | SInvBind => (fst acc, Some (snd i))
                          | _ => acc
                          end) ins (None, None).

(* offsets = [0, 0]; JOINT: weight_joint_source, offsets[0]; WEIGHT: weight_source, offsets[1] *)
Record vw_pick := mk_vw_pick { vp_wj : option N; vp_w : option N; vp_oj : Z; vp_ow : Z }.
Definition pick_vw (ins : list (sem * N * Z)) : vw_pick :=
  fold_left (fun acc i => match fst (fst i) with
                          | SJoint => mk_vw_pick (Some (snd (fst i))) (vp_w acc) (snd i) (vp_ow acc)
                          | SWeight => mk_vw_pick (vp_wj acc) (Some (snd (fst i))) (vp_oj acc) (snd i)
                          | _ => acc
                          end) ins (mk_vw_pick None None 0%Z 0%Z).

Definition lookup_opt (sc : scope) (id : option N) : option src :=
  match id with Some k => lookup sc k | None => None end.

Definition is_names (s : src) : bool := match s with SrcNames _ _ => true | _ => false end.
Definition is_floats (s : src) : bool := match s with SrcFloats _ _ => true | _ => false end.
Definition names_of (s : src) : list N := match s with SrcNames _ l => l | _ => [] end.
Definition vals_of (s : src) : list Z := match s with SrcFloats _ l => l | _ => [] end.

(* whether the loader rejects an index stream that continues after the last group
   (collada/controller.py today: it does) *)
Definition code_rejects_long_stream : bool := true.

Definition load_skin (d : skin_desc) : outcome skin_view :=
  (* Skin.load *)
  if Nat.ltb (count_distinct (map fst (sd_scope d))) 3 then Raise DaeMalformed else
  if negb (sd_geom d) then Raise DaeBrokenRef else
  let bind := match sd_bind_shape d with None => identity16 | Some l => l end in
  if Nat.ltb (length (sd_joints d)) 2 then Raise DaeIncomplete else
  let '(joint_source, matrix_source) := pick_joints (sd_joints d) in
  let p := pick_vw (sd_vw d) in
  match joint_source, vp_w p with
  | None, _ | _, None => Raise DaeMalformed
  | Some _, Some _ =>
  (* Skin.__init__ *)
  let nind := Z.to_nat (Z.max (vp_oj p) (vp_ow p) + 1) in
  if negb (Nat.eqb (length bind) 16) then Raise DaeMalformed else
  match lookup_opt (sd_scope d) joint_source, lookup_opt (sd_scope d) matrix_source with
  | None, _ | _, None => Raise DaeBrokenRef
  | Some js, Some ms =>
  if negb (is_names js) then Raise DaeIncomplete else
  if negb (is_floats ms) then Raise DaeIncomplete else
  let names := names_of js in
  let mats := vals_of ms in
  (* joint_matrices.shape = (-1, 4, 4): ValueError unless a multiple of 16 *)
  if negb (Nat.eqb (length mats mod 16) 0) then Raise DaeMalformed else
  if negb (Nat.eqb (length names) (length mats / 16)) then Raise DaeMalformed else
  match lookup_opt (sd_scope d) (vp_w p), lookup_opt (sd_scope d) (vp_wj p) with
  | None, _ | _, None => Raise DaeBrokenRef
  | Some ws, Some wjs =>
  if negb (is_floats ws) then Raise DaeIncomplete else
  if negb (is_names wjs) then Raise DaeIncomplete else
  match split_by_vcount nind (sd_vcount d) 0 (sd_v d) with
  | Raise e => Raise e
  | Ok (groups, stop) =>
  if code_rejects_long_stream && negb (Nat.eqb (nind * stop) (length (sd_v d))) then Raise DaeMalformed else
  let ji := map (column (Z.to_nat (vp_oj p))) groups in
  let wi := map (column (Z.to_nat (vp_ow p))) groups in
  if negative_indices ji wi then Raise DaeMalformed else
  match check_source wjs (max_index ji) with
  | Raise e => Raise e
  | Ok _ =>
  match check_source ws (max_index wi) with
  | Raise e => Raise e
  | Ok _ => Ok (mk_skin_view nind groups ji wi (combine names (chunk 16 mats)) bind)
  end end end end end end.

(* ---------------------------------------------------------------- SPEC *)
Definition sum_nat (l : list nat) : nat := fold_right Nat.add 0 l.
(* the i-th group: the vcount[i] rows that follow the rows of all earlier vertices *)
Definition spec_group (nind : nat) (vcounts : list nat) (v : list Z) (i : nat) : list (list Z) :=
  chunk nind (firstn (nind * nth i vcounts 0) (skipn (nind * sum_nat (firstn i vcounts)) v)).

(* ---------------------------------------------------------------- BoundSkin *)
(* numpy.dot(matrix, skin.bind_shape_matrix); the path matrix of nested nodes is the product
   of their matrices, outermost first *)
Definition bound_skin_matrix (path : list matZ) (bind_shape : matZ) : matZ :=
  zmmul (zmprod path) bind_shape.

(* BoundSkin.getJoint(i) = skin.weight_joints[i], BoundSkin.getWeight(i) = skin.weights[i]:
   indexing a source (negative positions count from the end, as numpy does) *)
Definition get_joint (wjs : src) (i : Z) : option N :=
  match norm_index (src_len wjs) i with Some k => nth_error (names_of wjs) k | None => None end.
Definition get_weight (ws : src) (i : Z) : option (list Z) :=
  match norm_index (src_len ws) i with
  | Some k => nth_error (chunk (src_ncomp ws) (vals_of ws)) k
  | None => None
  end.

(* ---------------------------------------------------------------- BoundMorph *)
(* Morph.bind(matrix, materials) = BoundMorph(morph, matrix, materials): it keeps the path matrix
   and the morph itself; len() and [] delegate to the morph.  (Unlike BoundSkin it does not bind
   the base geometry or the targets, and there is no bind shape matrix.) *)
Record bound_morph := mk_bound_morph {
  bm_matrix : matZ;
  bm_base : N;
  bm_pairs : list (N * Z) }.
Definition bind_morph (path : list matZ) (m : N * list (N * Z)) : bound_morph :=
  mk_bound_morph (zmprod path) (fst m) (snd m).
Definition bound_morph_get (b : bound_morph) (i : Z) : option (N * Z) :=
  match norm_index (length (bm_pairs b)) i with Some k => nth_error (bm_pairs b) k | None => None end.

(* ---------------------------------------------------------------- the parsed <morph> *)
Record morph_desc := mk_morph_desc {
  md_scope : scope;
  md_base : option N;                  (* morph/@source as "#id" -> id *)
  md_method_ok : bool;                 (* method absent, NORMALIZED or RELATIVE *)
  md_inputs : list (sem * N);          (* <targets>/<input> *)
  md_geoms : list N }.                 (* ids of the loaded geometries *)

Definition memN (x : N) (l : list N) : bool := existsb (N.eqb x) l.

Fixpoint morph_inputs (sc : scope) (ins : list (sem * N)) (t w : option src)
  : outcome (option src * option src) :=
  match ins with
  | [] => Ok (t, w)
  | (s, id) :: r =>
      match lookup sc id with
      | None => Raise DaeBrokenRef
      | Some x => match s with
                  | SMorphTarget => morph_inputs sc r (Some x) w
                  | SMorphWeight => morph_inputs sc r t (Some x)
                  | _ => morph_inputs sc r t w
                  end
      end
  end.

Fixpoint morph_pairs (geoms : list N) (targets : list N) (weights : list Z) : outcome (list (N * Z)) :=
  match targets, weights with
  | t :: ts, w :: ws =>
      if memN t geoms then
        match morph_pairs geoms ts ws with Ok l => Ok ((t, w) :: l) | Raise e => Raise e end
      else Raise DaeBrokenRef
  | _, _ => Ok []
  end.

(* weight[0] of every row *)
Definition first_components (ncomp : nat) (vals : list Z) : list Z :=
  map (fun row => nth 0 row 0%Z) (chunk ncomp vals).

(* result: base geometry id and the (target geometry id, weight) pairs *)
Definition load_morph (d : morph_desc) : outcome (N * list (N * Z)) :=
  match md_base d with
  | None => Raise DaeBrokenRef
  | Some b =>
  if negb (memN b (md_geoms d)) then Raise DaeBrokenRef else
  if negb (md_method_ok d) then Raise DaeMalformed else
  if Nat.ltb (length (md_inputs d)) 2 then Raise DaeIncomplete else
  match morph_inputs (md_scope d) (md_inputs d) None None with
  | Raise e => Raise e
  | Ok (Some (SrcNames true targets), Some (SrcFloats ncomp vals)) =>
      if negb (Nat.eqb (length targets) (length vals / ncomp)) then Raise DaeMalformed
      else match morph_pairs (md_geoms d) targets (first_components ncomp vals) with
           | Ok l => Ok (b, l)
           | Raise e => Raise e
           end
  | Ok _ => Raise DaeIncomplete
  end end.
