(* C04 - the emit grammar: a small hand-written table of what pycollada's writer can put into a
   document built from scratch through the public API by a user who respects the schema's value
   constraints (the E.* builders of the constructors and the save() methods; file:function given
   per rule).  [conforms] checks a written document against the table (done inside Coq for every
   document the implementation writes: the tie of the table to the code); [included] (in
   Model/SchemaIncl.v) decides that everything the table allows is accepted by a schema.

   A rule describes an element in one context: its attribute uses (same [attruse] as the schema)
   and its body.  Children are a sequence of items; each item offers alternatives (tag, rule);
   the same tag may occur with several rules (e.g. the five legal shapes of <perspective>).
   No proofs here. *)
From Coq Require Import List Bool ZArith NArith.
From PC Require Import Base.Atoms Base.Xml Model.SchemaSyntax Model.Schema Gen.Schema141.
Import ListNotations.

Inductive item : Type :=
  | IOne (alts : list (atom * N))      (* exactly one child, of one of the alternatives *)
  | IOpt (alts : list (atom * N))      (* at most one *)
  | IStar (alts : list (atom * N)).    (* any number, alternatives mixed freely *)

Inductive gbody : Type :=
  | GKids (items : list item)          (* element-only content (no children when items = []) *)
  | GText (st : stype)                 (* simple content *)
  | GLax.                              (* an element the schema does not declare, without children
                                          (only ever written below <extra><technique>) *)

Record grule := GRule { gr_attrs : list attruse; gr_body : gbody }.

Record grammar := Grammar {
  gg_ns : atom; gg_root : atom; gg_rootrule : N;
  gg_rules : list (N * grule)
}.

Fixpoint rule_of (r : N) (l : list (N * grule)) : option grule :=
  match l with [] => None | (k, v) :: t => if N.eqb k r then Some v else rule_of r t end.

Section Conforms.
  Variable G : grammar.
  Variable lex : atom -> N.

  Definition tag_is (t : atom) (k : xml) : bool := N.eqb (xns k) (gg_ns G) && N.eqb (xtag k) t.

  (* the first alternative the child satisfies *)
  Fixpoint pick (cv : N -> xml -> bool) (alts : list (atom * N)) (k : xml) : option (atom * N) :=
    match alts with
    | [] => None
    | a :: r => if tag_is (fst a) k && cv (snd a) k then Some a else pick cv r k
    end.

  (* longest prefix of children each of which satisfies an alternative; returns the rest *)
  Fixpoint star_rest (cv : N -> xml -> bool) (alts : list (atom * N)) (kids : list xml) : list xml :=
    match kids with
    | [] => []
    | k :: r => match pick cv alts k with Some _ => star_rest cv alts r | None => kids end
    end.

  Fixpoint gmatch (cv : N -> xml -> bool) (items : list item) (kids : list xml) : bool :=
    match items with
    | [] => match kids with [] => true | _ => false end
    | IOne alts :: rest =>
        match kids with
        | k :: ks => match pick cv alts k with Some _ => gmatch cv rest ks | None => false end
        | [] => false
        end
    | IOpt alts :: rest =>
        match kids with
        | k :: ks => match pick cv alts k with Some _ => gmatch cv rest ks | None => gmatch cv rest kids end
        | [] => gmatch cv rest []
        end
    | IStar alts :: rest => gmatch cv rest (star_rest cv alts kids)
    end.

  Definition no_kids (x : xml) : bool := match xkids x with [] => true | _ => false end.

  Fixpoint conf_el (fuel : nat) (r : N) (x : xml) : bool :=
    match fuel with
    | O => false
    | S f =>
        match rule_of r (gg_rules G) with
        | None => false
        | Some ru =>
            match gr_body ru with
            | GLax => no_kids x
            | GText st => attrs_ok_l lex (gr_attrs ru) x && no_kids x && val_ok lex st (vals_of_text (xtext x))
            | GKids items => attrs_ok_l lex (gr_attrs ru) x && text_empty x && gmatch (conf_el f) items (xkids x)
            end
        end
    end.

  Definition conforms (x : xml) : bool :=
    N.eqb (xns x) (gg_ns G) && N.eqb (xtag x) (gg_root G) && conf_el (xml_size x) (gg_rootrule G) x.
End Conforms.

(* ------------------------------------------------------------------------- the table *)

Definition req (n : atom) (t : stype) := AttrUse n true t.
Definition opt (n : atom) (t : stype) := AttrUse n false t.
Definition one (t : atom) (r : N) := IOne [(t, r)].
Definition maybe (t : atom) (r : N) := IOpt [(t, r)].
Definition star (t : atom) (r : N) := IStar [(t, r)].
Definition kids (a : list attruse) (l : list item) := GRule a (GKids l).
Definition text (a : list attruse) (t : stype) := GRule a (GText t).

Definition tNCName := SLex lx_NCName.
Definition tURI := SLex lx_anyURI.
Definition tNMTOKEN := SLex lx_NMTOKEN.
Definition tUInt := SInt (Some 0%Z) (Some 18446744073709551615%Z).
Definition tFloats (n : nat) := SList SFloat n (Some n).
Definition idname := [opt a_id tNCName; opt a_name tNCName].

(* rule numbers *)
Definition rCOLLADA := 0%N.        Definition rAsset := 1%N.         Definition rContributor := 2%N.
Definition rDate := 3%N.           Definition rString := 4%N.        Definition rUnit := 5%N.
Definition rUpAxis := 6%N.         Definition rURIText := 7%N.       Definition rLibCameras := 8%N.
Definition rCamera := 9%N.         Definition rOptics := 10%N.       Definition rOpticsTC := 11%N.
Definition rPerspX := 12%N.        Definition rPerspY := 13%N.       Definition rPerspXA := 14%N.
Definition rPerspYA := 15%N.       Definition rPerspXY := 16%N.      Definition rOrthoX := 17%N.
Definition rOrthoY := 18%N.        Definition rOrthoXA := 19%N.      Definition rOrthoYA := 20%N.
Definition rOrthoXY := 21%N.       Definition rFloat := 22%N.        Definition rLibLights := 23%N.
Definition rLight := 24%N.         Definition rLightTC := 25%N.      Definition rAmbient := 26%N.
Definition rPoint := 27%N.         Definition rSpot := 28%N.         Definition rColor3 := 29%N.
Definition rLibImages := 30%N.     Definition rImage := 31%N.        Definition rLibEffects := 32%N.
Definition rEffect := 33%N.        Definition rProfile := 34%N.      Definition rNewSurface := 35%N.
Definition rNewSampler := 36%N.    Definition rSurface := 37%N.      Definition rIdrefText := 38%N.
Definition rSampler := 39%N.       Definition rFilter := 40%N.       Definition rFxTechnique := 41%N.
Definition rPhong := 42%N.         Definition rLambert := 43%N.      Definition rConstant := 44%N.
Definition rColorOrTex := 45%N.    Definition rTransparent := 46%N.  Definition rFloatParam := 47%N.
Definition rColor4 := 48%N.        Definition rTexture := 49%N.      Definition rExtra := 50%N.
Definition rExtraTech := 51%N.     Definition rLaxLeaf := 52%N.      Definition rLibMaterials := 53%N.
Definition rMaterial := 54%N.      Definition rInstanceURL := 55%N.  Definition rLibGeometries := 56%N.
Definition rGeometry := 57%N.      Definition rMesh := 58%N.         Definition rSourceF := 59%N.
Definition rSourceN := 60%N.       Definition rSourceI := 61%N.      Definition rFloatArray := 62%N.
Definition rNameArray := 63%N.     Definition rIdrefArray := 64%N.   Definition rSourceTC := 65%N.
Definition rAccessor := 66%N.      Definition rParam := 67%N.        Definition rVertices := 68%N.
Definition rInputV := 69%N.        Definition rPrimP := 70%N.        Definition rPolylist := 71%N.
Definition rPolygons := 72%N.      Definition rInputP := 73%N.       Definition rUInts := 74%N.
Definition rLibNodes := 75%N.      Definition rLibScenes := 76%N.    Definition rNode := 77%N.
Definition rFloats9 := 78%N.       Definition rFloats16 := 79%N.     Definition rFloats4 := 80%N.
Definition rFloats3 := 81%N.       Definition rInstGeom := 82%N.     Definition rBindMat := 83%N.
Definition rBindTC := 84%N.        Definition rInstMat := 85%N.      Definition rBindVI := 86%N.
Definition rVisualScene := 87%N.   Definition rScene := 88%N.        Definition rDirectional := 89%N.
Definition rNCNameText := 90%N.    Definition rBlinn := 91%N.        Definition rColor4T := 92%N.
Definition rTextureT := 93%N.      Definition rFloatSid := 94%N.     Definition rLines := 95%N.
Definition rInstEffect := 96%N.

Definition persp (l : list item) := kids [] (l ++ [one a_znear rFloat; one a_zfar rFloat]).

Definition shader_params (names : list atom) : list item :=
  map (fun n => if existsb (N.eqb n) [a_shininess; a_reflectivity; a_transparency; a_index_of_refraction]
                then maybe n rFloatParam
                else if N.eqb n a_transparent then maybe n rTransparent else maybe n rColorOrTex) names.

Definition filters := [sa_NONE; a_NEAREST; a_LINEAR; sa_NEAREST_MIPMAP_NEAREST; sa_LINEAR_MIPMAP_NEAREST;
                       sa_NEAREST_MIPMAP_LINEAR; a_LINEAR_MIPMAP_LINEAR].

Definition emit_rules : list (N * grule) := [
  (* collada/__init__.py: Collada.__init__ (E.COLLADA(..., version='1.4.1')), Collada.save *)
  (rCOLLADA, kids [req a_version (SEnum [sa_1_4_1])]
     [one a_asset rAsset;
      IStar [(a_library_cameras, rLibCameras); (a_library_effects, rLibEffects);
             (a_library_geometries, rLibGeometries); (a_library_images, rLibImages);
             (a_library_lights, rLibLights); (a_library_materials, rLibMaterials);
             (a_library_nodes, rLibNodes); (a_library_visual_scenes, rLibScenes)];
      maybe a_scene rScene]);
  (* asset.py: Asset._recreateXmlNode, Contributor.__init__/save *)
  (rAsset, kids [] [star a_contributor rContributor; one a_created rDate; maybe a_keywords rString;
                    one a_modified rDate; maybe a_revision rString; maybe a_subject rString;
                    maybe a_title rString; maybe a_unit rUnit; maybe a_up_axis rUpAxis]);
  (rContributor, kids [] [maybe a_author rString; maybe a_authoring_tool rString; maybe a_comments rString;
                          maybe a_copyright rString; maybe a_source_data rURIText]);
  (rDate, text [] (SLex lx_dateTime));
  (rString, text [] SAnyString);
  (rUnit, kids [opt a_name tNMTOKEN; opt a_meter SFloat] []);
  (rUpAxis, text [] (SEnum [a_X_UP; a_Y_UP; a_Z_UP]));
  (rURIText, text [] tURI);
  (* camera.py: PerspectiveCamera/OrthographicCamera._recreateXmlNode, _checkValidParams *)
  (rLibCameras, kids idname [one a_camera rCamera; star a_camera rCamera]);
  (rCamera, kids idname [one a_optics rOptics]);
  (rOptics, kids [] [one a_technique_common rOpticsTC]);
  (rOpticsTC, kids [] [IOne [(a_perspective, rPerspX); (a_perspective, rPerspY); (a_perspective, rPerspXA);
                             (a_perspective, rPerspYA); (a_perspective, rPerspXY);
                             (a_orthographic, rOrthoX); (a_orthographic, rOrthoY); (a_orthographic, rOrthoXA);
                             (a_orthographic, rOrthoYA); (a_orthographic, rOrthoXY)]]);
  (rPerspX, persp [one a_xfov rFloat]);
  (rPerspY, persp [one a_yfov rFloat]);
  (rPerspXA, persp [one a_xfov rFloat; one a_aspect_ratio rFloat]);
  (rPerspYA, persp [one a_yfov rFloat; one a_aspect_ratio rFloat]);
  (rPerspXY, persp [one a_xfov rFloat; one a_yfov rFloat]);
  (rOrthoX, persp [one a_xmag rFloat]);
  (rOrthoY, persp [one a_ymag rFloat]);
  (rOrthoXA, persp [one a_xmag rFloat; one a_aspect_ratio rFloat]);
  (rOrthoYA, persp [one a_ymag rFloat; one a_aspect_ratio rFloat]);
  (rOrthoXY, persp [one a_xmag rFloat; one a_ymag rFloat]);
  (rFloat, text [] SFloat);
  (* light.py: *Light.__init__/save *)
  (rLibLights, kids idname [one a_light rLight; star a_light rLight]);
  (rLight, kids idname [one a_technique_common rLightTC]);
  (rLightTC, kids [] [IOne [(a_ambient, rAmbient); (a_directional, rDirectional); (a_point, rPoint); (a_spot, rSpot)]]);
  (rAmbient, kids [] [one a_color rColor3]);
  (rDirectional, kids [] [one a_color rColor3]);
  (rPoint, kids [] [one a_color rColor3; maybe a_constant_attenuation rFloat; maybe a_linear_attenuation rFloat;
                    maybe a_quadratic_attenuation rFloat]);
  (rSpot, kids [] [one a_color rColor3; maybe a_constant_attenuation rFloat; maybe a_linear_attenuation rFloat;
                   maybe a_quadratic_attenuation rFloat; maybe a_falloff_angle rFloat; maybe a_falloff_exponent rFloat]);
  (rColor3, text [] (tFloats 3));
  (* material.py: CImage *)
  (rLibImages, kids idname [one a_image rImage; star a_image rImage]);
  (rImage, kids idname [one a_init_from rURIText]);
  (* material.py: Effect.__init__/save, Surface, Sampler2D, Map *)
  (rLibEffects, kids idname [one a_effect rEffect; star a_effect rEffect]);
  (rEffect, kids [req a_id tNCName; opt a_name tNCName] [one a_profile_COMMON rProfile]);
  (rProfile, kids [] [IStar [(a_newparam, rNewSurface); (a_newparam, rNewSampler)];
                      one a_technique rFxTechnique; star a_extra rExtra]);
  (rNewSurface, kids [req a_sid tNCName] [one a_surface rSurface]);
  (rNewSampler, kids [req a_sid tNCName] [one a_sampler2D rSampler]);
  (rSurface, kids [req a_type (SEnum [a_2D])] [one a_init_from rIdrefText; maybe a_format rString]);
  (rIdrefText, text [] tNCName);
  (rNCNameText, text [] tNCName);
  (rSampler, kids [] [one a_source rNCNameText; maybe a_minfilter rFilter; maybe a_magfilter rFilter]);
  (rFilter, text [] (SEnum filters));
  (rFxTechnique, kids [req a_sid tNCName]
     [IOne [(a_phong, rPhong); (a_blinn, rBlinn); (a_lambert, rLambert); (a_constant, rConstant)]]);
  (rPhong, kids [] (shader_params [a_emission; a_ambient; a_diffuse; a_specular; a_shininess; a_reflective;
                                   a_reflectivity; a_transparent; a_transparency; a_index_of_refraction]));
  (rBlinn, kids [] (shader_params [a_emission; a_ambient; a_diffuse; a_specular; a_shininess; a_reflective;
                                   a_reflectivity; a_transparent; a_transparency; a_index_of_refraction]));
  (rLambert, kids [] (shader_params [a_emission; a_ambient; a_diffuse; a_reflective; a_reflectivity;
                                     a_transparent; a_transparency; a_index_of_refraction]));
  (rConstant, kids [] (shader_params [a_emission; a_reflective; a_reflectivity; a_transparent; a_transparency;
                                      a_index_of_refraction]));
  (rColorOrTex, kids [] [IOne [(a_color, rColor4); (a_texture, rTexture)]]);
  (rTransparent, kids [opt a_opaque (SEnum [a_A_ONE; a_RGB_ZERO])] [IOne [(a_color, rColor4T); (a_texture, rTextureT)]]);
  (rFloatParam, kids [] [one a_float rFloatSid]);
  (rFloatSid, text [] SFloat);
  (rColor4, text [] (tFloats 4));
  (rColor4T, text [] (tFloats 4));
  (rTexture, kids [req a_texture tNCName; req a_texcoord tNCName] []);
  (rTextureT, kids [req a_texture tNCName; req a_texcoord tNCName] []);
  (* the GOOGLEEARTH double_sided extra of Effect.save and Geometry.save; user-made <extra>s of
     the same shape *)
  (rExtra, kids [] [one a_technique rExtraTech]);
  (rExtraTech, kids [req a_profile tNMTOKEN] [star a_double_sided rLaxLeaf]);
  (rLaxLeaf, GRule [] GLax);
  (* material.py: Material *)
  (rLibMaterials, kids idname [one a_material rMaterial; star a_material rMaterial]);
  (rMaterial, kids idname [one a_instance_effect rInstEffect]);
  (rInstEffect, kids [req a_url tURI] []);
  (rInstanceURL, kids [req a_url tURI] []);
  (* geometry.py: Geometry.__init__/save; source.py; the primitive constructors *)
  (rLibGeometries, kids idname [one a_geometry rGeometry; star a_geometry rGeometry]);
  (rGeometry, kids idname [one a_mesh rMesh; star a_extra rExtra]);
  (rMesh, kids [] [IOne [(a_source, rSourceF); (a_source, rSourceN); (a_source, rSourceI)];
                   IStar [(a_source, rSourceF); (a_source, rSourceN); (a_source, rSourceI)];
                   one a_vertices rVertices;
                   IStar [(a_triangles, rPrimP); (a_lines, rLines); (a_polylist, rPolylist); (a_polygons, rPolygons)]]);
  (rSourceF, kids [req a_id tNCName] [one a_float_array rFloatArray; one a_technique_common rSourceTC]);
  (rSourceN, kids [req a_id tNCName] [one a_Name_array rNameArray; one a_technique_common rSourceTC]);
  (rSourceI, kids [req a_id tNCName] [one a_IDREF_array rIdrefArray; one a_technique_common rSourceTC]);
  (rFloatArray, text [req a_count tUInt; opt a_id tNCName] (SList SFloat 0 None));
  (rNameArray, text [req a_count tUInt; opt a_id tNCName] (SList (SLex lx_Name) 0 None));
  (rIdrefArray, text [req a_count tUInt; opt a_id tNCName] (SList tNCName 1 None));
  (rSourceTC, kids [] [one a_accessor rAccessor]);
  (rAccessor, kids [req a_count tUInt; req a_source tURI; opt a_stride tUInt] [star a_param rParam]);
  (rParam, text [opt a_name tNCName; req a_type tNMTOKEN] SAnyString);
  (rVertices, kids [req a_id tNCName] [one a_input rInputV; star a_input rInputV]);
  (rInputV, kids [req a_semantic tNMTOKEN; req a_source SFragment] []);
  (rPrimP, kids [req a_count tUInt; opt a_material tNCName] [star a_input rInputP; maybe a_p rUInts]);
  (rLines, kids [req a_count tUInt; opt a_material tNCName] [star a_input rInputP; maybe a_p rUInts]);
  (rPolylist, kids [req a_count tUInt; opt a_material tNCName] [star a_input rInputP; maybe a_vcount rUInts; maybe a_p rUInts]);
  (rPolygons, kids [req a_count tUInt; opt a_material tNCName] [star a_input rInputP; star a_p rUInts]);
  (rInputP, kids [req a_offset tUInt; req a_semantic tNMTOKEN; req a_source SFragment; opt a_set tUInt] []);
  (rUInts, text [] (SList tUInt 0 None));
  (* scene.py: Node, transforms, instance nodes, MaterialNode, Scene; Collada.save's <scene> *)
  (rLibNodes, kids idname [one a_node rNode; star a_node rNode]);
  (rLibScenes, kids idname [one a_visual_scene rVisualScene; star a_visual_scene rVisualScene]);
  (rNode, kids idname
     [IStar [(a_lookat, rFloats9); (a_matrix, rFloats16); (a_rotate, rFloats4); (a_scale, rFloats3); (a_translate, rFloats3)];
      star a_instance_camera rInstanceURL; star a_instance_geometry rInstGeom; star a_instance_light rInstanceURL;
      star a_instance_node rInstanceURL; star a_node rNode; star a_extra rExtra]);
  (rFloats9, text [] (tFloats 9));
  (rFloats16, text [] (tFloats 16));
  (rFloats4, text [] (tFloats 4));
  (rFloats3, text [] (tFloats 3));
  (rInstGeom, kids [req a_url tURI] [maybe a_bind_material rBindMat]);
  (rBindMat, kids [] [one a_technique_common rBindTC]);
  (rBindTC, kids [] [one a_instance_material rInstMat; star a_instance_material rInstMat]);
  (rInstMat, kids [req a_symbol tNCName; req a_target tURI] [star a_bind_vertex_input rBindVI]);
  (rBindVI, kids [req a_semantic tNCName; req a_input_semantic tNCName; opt a_input_set tUInt] []);
  (rVisualScene, kids idname [one a_node rNode; star a_node rNode]);
  (rScene, kids [] [maybe a_instance_visual_scene rInstanceURL])
].

Definition emit_grammar : grammar := Grammar a_ns141 a_COLLADA rCOLLADA emit_rules.
