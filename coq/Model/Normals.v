(* C18 - generated normals and texture tangents (collada/triangleset.py, collada/util.py).

   Everything is written over an arbitrary carrier R with ring operations (no theory is needed to
   *define* or to *run* the model; Proofs/Normals.v adds [ring_theory] to reason about it, and
   Check/C18.v instantiates R with the canonical rationals Qc to run it).

   MODEL  = what the Python does now, statement by statement.
   SPEC   = what property C18 says: the sum over all incident (triangle, corner) pairs.
   No proofs in this file. *)
From Coq Require Import List Bool Arith.
Import ListNotations.

(* the carrier and its ring operations, bundled *)
Record ops := mk_ops {
  car : Type;
  rO : car; rI : car;
  radd : car -> car -> car; rmul : car -> car -> car; rsub : car -> car -> car;
  ropp : car -> car }.

Section Ops.
  Variable o : ops.
  Local Notation R := (car o).
  Local Notation rO := (rO o).
  Local Infix "+" := (radd o).
  Local Infix "*" := (rmul o).
  Local Infix "-" := (rsub o).

  (* ---------------------------------------------------------------- 3-vectors *)
  Definition vec := (R * R * R)%type.
  Definition vx (a : vec) : R := fst (fst a).
  Definition vy (a : vec) : R := snd (fst a).
  Definition vz (a : vec) : R := snd a.
  Definition vzero : vec := (rO, rO, rO).
  Definition vadd (a b : vec) : vec := (vx a + vx b, vy a + vy b, vz a + vz b).
  Definition vsub (a b : vec) : vec := (vx a - vx b, vy a - vy b, vz a - vz b).
  Definition vscale (k : R) (a : vec) : vec := (k * vx a, k * vy a, k * vz a).
  (* numpy.cross *)
  Definition cross (a b : vec) : vec :=
    (vy a * vz b - vz a * vy b, vz a * vx b - vx a * vz b, vx a * vy b - vy a * vx b).
  (* numpy.vdot on 3-vectors *)
  Definition dot (a b : vec) : R := vx a * vx b + vy a * vy b + vz a * vz b.
  (* util.dot_v3: arr1[:,0]*arr2[:,0] + arr1[:,1]*arr2[:,1] + arr2[:,2]*arr1[:,2] *)
  Definition dot_v3 (a b : vec) : R := vx a * vx b + vy a * vy b + vz b * vz a.
  Definition vsum (l : list vec) : vec := fold_right vadd vzero l.

  (* ---------------------------------------------------------------- arrays of rows *)
  Definition vnth (a : list vec) (i : nat) : vec := nth i a vzero.
  Fixpoint upd {A} (l : list A) (i : nat) (x : A) : list A :=
    match l, i with
    | [], _ => []
    | _ :: t, O => x :: t
    | h :: t, S j => h :: upd t j x
    end.

  (* numpy.add.at(a, idx, vs): unbuffered, every (index, row) pair is added in turn *)
  Fixpoint add_at (a : list vec) (idx : list nat) (vs : list vec) : list vec :=
    match idx, vs with
    | i :: idx', v :: vs' => add_at (upd a i (vadd (vnth a i) v)) idx' vs'
    | _, _ => a
    end.

  (* a[idx] += vs: numpy evaluates tmp = a[idx] + vs from the OLD array (gather, add), then
     a[idx] = tmp (scatter, in order): for a repeated index the last write wins and every
     earlier contribution to that row is lost. *)
  Definition gather (a : list vec) (idx : list nat) : list vec := map (vnth a) idx.
  Fixpoint scatter (a : list vec) (idx : list nat) (vals : list vec) : list vec :=
    match idx, vals with
    | i :: idx', v :: vals' => scatter (upd a i v) idx' vals'
    | _, _ => a
    end.
  Fixpoint zip_add (xs ys : list vec) : list vec :=
    match xs, ys with
    | x :: xs', y :: ys' => vadd x y :: zip_add xs' ys'
    | _, _ => []
    end.
  Definition fancy_iadd (a : list vec) (idx : list nat) (vs : list vec) : list vec :=
    scatter a idx (zip_add (gather a idx) vs).

  (* ---------------------------------------------------------------- triangles *)
  Definition tri := (nat * nat * nat)%type.
  Definition c0 (t : tri) : nat := fst (fst t).
  Definition c1 (t : tri) : nat := snd (fst t).
  Definition c2 (t : tri) : nat := snd t.
  Definition corner (t : tri) (c : nat) : nat :=
    match c with O => c0 t | S O => c1 t | _ => c2 t end.

  (* ---------------------------------------------------------------- implicit normal of a Triangle
     Triangle.__init__ (normals is None):
         vec1 = vertices[0] - vertices[1]
         vec2 = vertices[2] - vertices[0]
         vec3 = toUnitVec(cross(toUnitVec(vec2), toUnitVec(vec1)))
     toUnitVec(v) = v / sqrt(vdot(v, v)); [linv v] stands for 1/sqrt(v.v). *)
  Section Unit.
    Variable linv : vec -> R.
    Definition unitv (v : vec) : vec := vscale (linv v) v.
    Definition tri_normal (p0 p1 p2 : vec) : vec :=
      let vec1 := vsub p0 p1 in
      let vec2 := vsub p2 p0 in
      unitv (cross (unitv vec2) (unitv vec1)).
  End Unit.
  (* the vector whose direction the property talks about: the right-hand normal *)
  Definition rh_normal (p0 p1 p2 : vec) : vec := cross (vsub p1 p0) (vsub p2 p0).

  (* ---------------------------------------------------------------- generateNormals *)
  Section Gen.
    (* util.normalize_v3 on one row (v / |v|, the zero row stays zero) *)
    Variable nrm : vec -> vec.
    (* the accumulation primitive the code uses: [add_at] or [fancy_iadd] *)
    Variable accumulate : list vec -> list nat -> list vec -> list vec.

    (* the right-hand normal of triangle t (not normalised) *)
    Definition face_cross (verts : list vec) (t : tri) : vec :=
      rh_normal (vnth verts (c0 t)) (vnth verts (c1 t)) (vnth verts (c2 t)).
    (* n = cross(normalize_v3(tris[:,1] - tris[:,0]), normalize_v3(tris[:,2] - tris[:,0]));
       normalize_v3(n) *)
    Definition face_n (verts : list vec) (t : tri) : vec :=
      let p0 := vnth verts (c0 t) in
      let p1 := vnth verts (c1 t) in
      let p2 := vnth verts (c2 t) in
      nrm (cross (nrm (vsub p1 p0)) (nrm (vsub p2 p0))).

    (* the three accumulation statements, on any per-triangle rows [rows] *)
    Definition accumulate3 (nverts : nat) (tris : list tri) (rows : list vec) : list vec :=
      let a0 := repeat vzero nverts in
      let a1 := accumulate a0 (map c0 tris) rows in
      let a2 := accumulate a1 (map c1 tris) rows in
      accumulate a2 (map c2 tris) rows.

    Definition gen_sums (verts : list vec) (tris : list tri) : list vec :=
      accumulate3 (length verts) tris (map (face_n verts) tris).
    (* self._normal = normalize_v3(norms); self._normal_index = self._vertex_index *)
    Definition gen_normals (verts : list vec) (tris : list tri) : list vec :=
      map nrm (gen_sums verts tris).
    Definition gen_normal_index (tris : list tri) : list tri := tris.

    (* ------------------------------------------------------------ SPEC *)
    (* all (triangle, corner) pairs of the set *)
    Definition corners (tris : list tri) : list (tri * nat) :=
      flat_map (fun t => [(t, 0); (t, 1); (t, 2)]) tris.
    Definition incident (v : nat) (tc : tri * nat) : bool := Nat.eqb (corner (fst tc) (snd tc)) v.
    (* sum, over every (triangle, corner) pair that puts vertex v in that corner, of the rows *)
    Definition spec_sum_rows (row : tri -> vec) (tris : list tri) (v : nat) : vec :=
      vsum (map (fun tc => row (fst tc)) (filter (incident v) (corners tris))).
    Definition spec_sum (verts : list vec) (tris : list tri) (v : nat) : vec :=
      spec_sum_rows (face_n verts) tris v.
    Definition spec_normal (verts : list vec) (tris : list tri) (v : nat) : vec :=
      nrm (spec_sum verts tris v).

    (* ------------------------------------------------------------ generateTexTangentsAndBinormals *)
    Variable rinv : R -> R.       (* 1.0 / x *)
    Definition uv := (R * R)%type.
    Definition uvnth (a : list uv) (i : nat) : uv := nth i a (rO, rO).

    (* sdir of one triangle (x2,y2,z2 and s2,t2 are taken from corner 1 to corner 2 in the code) *)
    Definition sdir (p0 p1 p2 : vec) (w0 w1 w2 : uv) : vec :=
      let e1 := vsub p1 p0 in
      let e2 := vsub p2 p1 in
      let s1 := fst w1 - fst w0 in
      let s2 := fst w2 - fst w1 in
      let t1 := snd w1 - snd w0 in
      let t2 := snd w2 - snd w1 in
      let r := rinv (s1 * t2 - s2 * t1) in
      ((t2 * vx e1 - t1 * vx e2) * r, (t2 * vy e1 - t1 * vy e2) * r, (t2 * vz e1 - t1 * vz e2) * r).
    Definition tdir (p0 p1 p2 : vec) (w0 w1 w2 : uv) : vec :=
      let e1 := vsub p1 p0 in
      let e2 := vsub p2 p1 in
      let s1 := fst w1 - fst w0 in
      let s2 := fst w2 - fst w1 in
      let t1 := snd w1 - snd w0 in
      let t2 := snd w2 - snd w1 in
      let r := rinv (s1 * t2 - s2 * t1) in
      ((s1 * vx e2 - s2 * vx e1) * r, (s1 * vy e2 - s2 * vy e1) * r, (s1 * vz e2 - s2 * vz e1) * r).
    Definition uv_det (w0 w1 w2 : uv) : R :=
      (fst w1 - fst w0) * (snd w2 - snd w1) - (fst w2 - fst w1) * (snd w1 - snd w0).

    Fixpoint rows2 (f : tri -> tri -> vec) (tris uvtris : list tri) : list vec :=
      match tris, uvtris with
      | t :: ts, u :: us => f t u :: rows2 f ts us
      | _, _ => []
      end.
    Definition sdir_of (verts : list vec) (uvs : list uv) (t u : tri) : vec :=
      sdir (vnth verts (c0 t)) (vnth verts (c1 t)) (vnth verts (c2 t))
           (uvnth uvs (c0 u)) (uvnth uvs (c1 u)) (uvnth uvs (c2 u)).

    (* tan1 - norm * dot_v3(norm, tan1) *)
    Definition project (n t : vec) : vec := vsub t (vscale (dot_v3 n t) n).

    (* tans1 accumulated per vertex *)
    Definition tan_sums (verts : list vec) (uvs : list uv) (tris uvtris : list tri) : list vec :=
      accumulate3 (length verts) tris (rows2 (sdir_of verts uvs) tris uvtris).
    (* projected (not yet normalised) tangent of every corner, row 3*i + c *)
    Fixpoint corner_rows (f : tri -> tri -> nat -> vec) (tris ntris : list tri) : list vec :=
      match tris, ntris with
      | t :: ts, n :: ns => f t n 0 :: f t n 1 :: f t n 2 :: corner_rows f ts ns
      | _, _ => []
      end.
    Definition gen_tangents_raw (verts : list vec) (uvs : list uv) (normals : list vec)
               (tris uvtris ntris : list tri) : list vec :=
      let tans1 := tan_sums verts uvs tris uvtris in
      corner_rows (fun t n c => project (vnth normals (corner n c)) (vnth tans1 (corner t c))) tris ntris.
    Definition gen_tangents (verts : list vec) (uvs : list uv) (normals : list vec)
               (tris uvtris ntris : list tri) : list vec :=
      map nrm (gen_tangents_raw verts uvs normals tris uvtris ntris).
    (* numpy.arange(3 * ntriangles) reshaped (ntriangles, 3) *)
    Fixpoint arange_tris (start n : nat) : list tri :=
      match n with
      | O => []
      | S m => (start, S start, S (S start)) :: arange_tris (3 + start) m
      end.
    Definition gen_tangent_index (tris : list tri) : list tri := arange_tris 0 (length tris).
  End Gen.
End Ops.

Arguments upd {A} l i x.

(* What collada/triangleset.py uses today for the per-vertex accumulation in generateNormals (both
   classes) and generateTexTangentsAndBinormals is [code_accumulate] in Gen/NormalsAcc.v, which
   harness/translate/normalsacc.py regenerates from the Python source on every run: [add_at] for
   `numpy.add.at(norms, idx, n)`, [fancy_iadd] for the former `norms[idx] += n`
   (see C18_fancy_iadd_refuted). *)
