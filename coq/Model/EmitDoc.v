(* C04 - a Gallina model of the whole writer for documents built from scratch through the public
   API (constructors, then Collada.write = save() + serialisation): [emit : doc -> xml], and the
   boolean well-formedness of the user's content [wf_user].  Follows the Python as it is now:
   collada/__init__.py (Collada.__init__: libraries created in alphabetical order; save: asset
   first, empty libraries removed, <scene> rebuilt), asset.py, camera.py, light.py, material.py
   (Effect.__init__/save: properties in the order of Effect.supported, GOOGLEEARTH double_sided
   extra), geometry.py (first VERTEX source re-targets <vertices>, redirect, double_sided extra
   only when set), source.py and the primitive constructors (Model/Bookkeeping.v), scene.py.
   Numbers and free text are opaque token lists; names, ids and urls are attribute values.
   No proofs here (Proofs/EmitConf.v). *)
From Coq Require Import List Bool ZArith NArith.
From PC Require Import Base.Atoms Base.Xml Model.SchemaSyntax Model.Schema Model.Bookkeeping Gen.Schema141.
Import ListNotations.

Definition toks := list tok.
Definition el (t : atom) (a : list (atom * aval)) (tx : option toks) (k : list xml) : xml := El 0%N tns t a tx k.
Definition txt (t : atom) (l : toks) : xml := el t [] (Some l) [].
Definition opt_el {A} (f : A -> xml) (o : option A) : list xml := match o with Some v => [f v] | None => [] end.
Definition opt_at (n : atom) (o : option aval) : list (atom * aval) := match o with Some v => [(n, v)] | None => [] end.

Section WF.
  Variable lex : atom -> N.

  (* lexical checks on user content, by the same functions the validator uses *)
  Definition tval (st : stype) (l : toks) : bool := val_ok lex st (map vtok_of_tok l).
  Definition aval_is (st : stype) (v : aval) : bool := val_ok lex st (vals_of_aval v).
  Definition is_ncname := aval_is (SLex lx_NCName).
  Definition is_uint := aval_is (SInt (Some 0%Z) (Some 18446744073709551615%Z)).
  Definition is_float1 := tval SFloat.
  Definition floats (n : nat) := tval (SList SFloat n (Some n)).
  Definition ref_ok (a : atom) : bool := aval_is (SLex lx_anyURI) (ARef true a).
  Definition oall {A} (f : A -> bool) (o : option A) : bool := match o with Some v => f v | None => true end.

  (* ---------------------------------------------------------------- asset *)
  Record contributor := Contributor { c_author : option toks; c_tool : option toks; c_comments : option toks;
                                      c_copyright : option toks; c_source_data : option toks }.
  Definition emit_contributor (c : contributor) : xml :=
    el a_contributor [] None
       (opt_el (txt a_author) (c_author c) ++ opt_el (txt a_authoring_tool) (c_tool c) ++
        opt_el (txt a_comments) (c_comments c) ++ opt_el (txt a_copyright) (c_copyright c) ++
        opt_el (txt a_source_data) (c_source_data c)).
  Definition wf_contributor (c : contributor) : bool := oall (tval (SLex lx_anyURI)) (c_source_data c).

  Record asset := Asset { as_contributors : list contributor; as_created : toks; as_modified : toks;
                          as_keywords : option toks; as_revision : option toks; as_subject : option toks;
                          as_title : option toks; as_unit : option (aval * aval); as_upaxis : toks }.
  Definition emit_unit (u : aval * aval) : xml := el a_unit [(a_name, fst u); (a_meter, snd u)] None [].
  Definition emit_asset (a : asset) : xml :=
    el a_asset [] None
       (map emit_contributor (as_contributors a) ++ [txt a_created (as_created a)] ++
        opt_el (txt a_keywords) (as_keywords a) ++ [txt a_modified (as_modified a)] ++
        opt_el (txt a_revision) (as_revision a) ++ opt_el (txt a_subject) (as_subject a) ++
        opt_el (txt a_title) (as_title a) ++ opt_el emit_unit (as_unit a) ++ [txt a_up_axis (as_upaxis a)]).
  Definition wf_asset (a : asset) : bool :=
    forallb wf_contributor (as_contributors a) &&
    tval (SLex lx_dateTime) (as_created a) && tval (SLex lx_dateTime) (as_modified a) &&
    oall (fun u => aval_is (SLex lx_NMTOKEN) (fst u) && aval_is SFloat (snd u)) (as_unit a) &&
    tval (SEnum [a_X_UP; a_Y_UP; a_Z_UP]) (as_upaxis a).

  (* ---------------------------------------------------------------- cameras *)
  Record camera := Camera { cam_id : aval; cam_persp : bool; cam_x : option toks; cam_y : option toks;
                            cam_aspect : option toks; cam_znear : toks; cam_zfar : toks }.
  Definition emit_camera (c : camera) : xml :=
    el a_camera [(a_id, cam_id c); (a_name, cam_id c)] None
      [el a_optics [] None
        [el a_technique_common [] None
          [el (if cam_persp c then a_perspective else a_orthographic) [] None
              (opt_el (txt (if cam_persp c then a_xfov else a_xmag)) (cam_x c) ++
               opt_el (txt (if cam_persp c then a_yfov else a_ymag)) (cam_y c) ++
               opt_el (txt a_aspect_ratio) (cam_aspect c) ++
               [txt a_znear (cam_znear c); txt a_zfar (cam_zfar c)])]]].
  (* _checkValidParams: x, y, x+aspect, y+aspect, x+y *)
  Definition cam_combo_ok (c : camera) : bool :=
    match cam_x c, cam_y c, cam_aspect c with
    | Some _, None, None | None, Some _, None | Some _, None, Some _ | None, Some _, Some _ | Some _, Some _, None => true
    | _, _, _ => false
    end.
  Definition wf_camera (c : camera) : bool :=
    is_ncname (cam_id c) && cam_combo_ok c && oall is_float1 (cam_x c) && oall is_float1 (cam_y c) &&
    oall is_float1 (cam_aspect c) && is_float1 (cam_znear c) && is_float1 (cam_zfar c).

  (* ---------------------------------------------------------------- lights *)
  Inductive lkind := LAmbient | LDirectional | LPoint | LSpot.
  Record light := Light { l_id : aval; l_kind : lkind; l_color : toks; l_catt : option toks; l_latt : option toks;
                          l_qatt : option toks; l_fang : option toks; l_fexp : option toks }.
  Definition emit_light_body (l : light) : xml :=
    match l_kind l with
    | LAmbient => el a_ambient [] None [txt a_color (l_color l)]
    | LDirectional => el a_directional [] None [txt a_color (l_color l)]
    | LPoint => el a_point [] None
                   ([txt a_color (l_color l)] ++ opt_el (txt a_constant_attenuation) (l_catt l) ++
                    opt_el (txt a_linear_attenuation) (l_latt l) ++ opt_el (txt a_quadratic_attenuation) (l_qatt l))
    | LSpot => el a_spot [] None
                   ([txt a_color (l_color l)] ++ opt_el (txt a_constant_attenuation) (l_catt l) ++
                    opt_el (txt a_linear_attenuation) (l_latt l) ++ opt_el (txt a_quadratic_attenuation) (l_qatt l) ++
                    opt_el (txt a_falloff_angle) (l_fang l) ++ opt_el (txt a_falloff_exponent) (l_fexp l))
    end.
  Definition emit_light (l : light) : xml :=
    el a_light [(a_id, l_id l); (a_name, l_id l)] None [el a_technique_common [] None [emit_light_body l]].
  Definition wf_light (l : light) : bool :=
    is_ncname (l_id l) && floats 3 (l_color l) && oall is_float1 (l_catt l) && oall is_float1 (l_latt l) &&
    oall is_float1 (l_qatt l) && oall is_float1 (l_fang l) && oall is_float1 (l_fexp l).

  (* ---------------------------------------------------------------- images, effects, materials *)
  Record image := Image { i_id : aval; i_path : toks }.
  Definition emit_image (i : image) : xml :=
    el a_image [(a_id, i_id i); (a_name, i_id i)] None [txt a_init_from (i_path i)].
  Definition wf_image (i : image) : bool := is_ncname (i_id i) && tval (SLex lx_anyURI) (i_path i).

  Inductive eparam :=
    | PSurface (sid : aval) (img : toks) (format : toks)
    | PSampler (sid : aval) (surface : toks) (minf magf : option toks).
  Definition emit_eparam (p : eparam) : xml :=
    match p with
    | PSurface sid img fmt =>
        el a_newparam [(a_sid, sid)] None
           [el a_surface [(a_type, AStr a_2D)] None [txt a_init_from img; txt a_format fmt]]
    | PSampler sid sf mn mg =>
        el a_newparam [(a_sid, sid)] None
           [el a_sampler2D [] None ([txt a_source sf] ++ opt_el (txt a_minfilter) mn ++ opt_el (txt a_magfilter) mg)]
    end.
  Definition filters : list atom := [sa_NONE; a_NEAREST; a_LINEAR; sa_NEAREST_MIPMAP_NEAREST; sa_LINEAR_MIPMAP_NEAREST;
                                     sa_NEAREST_MIPMAP_LINEAR; a_LINEAR_MIPMAP_LINEAR].
  Definition wf_eparam (p : eparam) : bool :=
    match p with
    | PSurface sid img _ => is_ncname sid && tval (SLex lx_NCName) img
    | PSampler sid sf mn mg => is_ncname sid && tval (SLex lx_NCName) sf && oall (tval (SEnum filters)) mn &&
                               oall (tval (SEnum filters)) mg
    end.

  Inductive pval := VColor (l : toks) | VFloat (l : toks) | VMap (sampler texcoord : aval).
  Inductive shader := ShPhong | ShLambert | ShBlinn | ShConstant.
  Definition shader_tag (s : shader) : atom :=
    match s with ShPhong => a_phong | ShLambert => a_lambert | ShBlinn => a_blinn | ShConstant => a_constant end.
  Record effect := Effect { e_id : aval; e_sid : aval; e_params : list eparam; e_shader : shader;
                            e_emission : option pval; e_ambient : option pval; e_diffuse : option pval;
                            e_specular : option pval; e_shininess : option pval; e_reflective : option pval;
                            e_reflectivity : option pval; e_transparent : option pval; e_transparency : option pval;
                            e_ior : option pval; e_rgbzero : bool; e_double_sided : toks }.
  Definition emit_pval (v : pval) : xml :=
    match v with
    | VColor l => txt a_color l
    | VFloat l => txt a_float l
    | VMap s t => el a_texture [(a_texture, s); (a_texcoord, t)] None []
    end.
  Definition emit_prop (name : atom) (attrs : list (atom * aval)) (v : pval) : xml := el name attrs None [emit_pval v].
  Definition emit_ds_extra (profile : atom) (l : toks) : xml :=
    el a_extra [] None [el a_technique [(a_profile, AStr profile)] None [txt a_double_sided l]].
  Definition emit_shader (e : effect) : xml :=
    el (shader_tag (e_shader e)) [] None
       (opt_el (emit_prop a_emission []) (e_emission e) ++ opt_el (emit_prop a_ambient []) (e_ambient e) ++
        opt_el (emit_prop a_diffuse []) (e_diffuse e) ++ opt_el (emit_prop a_specular []) (e_specular e) ++
        opt_el (emit_prop a_shininess []) (e_shininess e) ++ opt_el (emit_prop a_reflective []) (e_reflective e) ++
        opt_el (emit_prop a_reflectivity []) (e_reflectivity e) ++
        opt_el (emit_prop a_transparent (if e_rgbzero e then [(a_opaque, AStr a_RGB_ZERO)] else [])) (e_transparent e) ++
        opt_el (emit_prop a_transparency []) (e_transparency e) ++
        opt_el (emit_prop a_index_of_refraction []) (e_ior e)).
  Definition emit_effect (e : effect) : xml :=
    el a_effect [(a_id, e_id e); (a_name, e_id e)] None
      [el a_profile_COMMON [] None
          (map emit_eparam (e_params e) ++
           [el a_technique [(a_sid, e_sid e)] None [emit_shader e]] ++
           [emit_ds_extra a_GOOGLEEARTH (e_double_sided e)])].
  (* colour-valued and float-valued parameters; which parameters a shader has *)
  Definition colour_ok (v : pval) : bool :=
    match v with VColor l => floats 4 l | VMap s t => is_ncname s && is_ncname t | VFloat _ => false end.
  Definition float_ok (v : pval) : bool := match v with VFloat l => is_float1 l | _ => false end.
  Definition none {A} (o : option A) : bool := match o with None => true | Some _ => false end.
  Definition shader_params_ok (e : effect) : bool :=
    match e_shader e with
    | ShPhong | ShBlinn => true
    | ShLambert => none (e_specular e) && none (e_shininess e)
    | ShConstant => none (e_ambient e) && none (e_diffuse e) && none (e_specular e) && none (e_shininess e)
    end.
  Definition wf_effect (e : effect) : bool :=
    is_ncname (e_id e) && is_ncname (e_sid e) && forallb wf_eparam (e_params e) && shader_params_ok e &&
    oall colour_ok (e_emission e) && oall colour_ok (e_ambient e) && oall colour_ok (e_diffuse e) &&
    oall colour_ok (e_specular e) && oall float_ok (e_shininess e) && oall colour_ok (e_reflective e) &&
    oall float_ok (e_reflectivity e) && oall colour_ok (e_transparent e) && oall float_ok (e_transparency e) &&
    oall float_ok (e_ior e).

  Record material := Material { m_id : aval; m_name : aval; m_effect : atom }.
  Definition emit_material (m : material) : xml :=
    el a_material [(a_id, m_id m); (a_name, m_name m)] None [el a_instance_effect [(a_url, ARef true (m_effect m))] None []].
  Definition wf_material (m : material) : bool := is_ncname (m_id m) && is_ncname (m_name m) && ref_ok (m_effect m).

  (* ---------------------------------------------------------------- geometry *)
  Record geometry := Geometry { g_id : aval; g_name : option aval; g_src0 : srcm; g_sources : list srcm;
                                g_vid : atom; g_vref : atom; g_prims : list primm; g_ds : bool }.
  Definition emit_vertices (vid vref : atom) : xml :=
    el a_vertices [(a_id, AStr vid)] None [el a_input [(a_semantic, AStr a_POSITION); (a_source, ARef true vref)] None []].
  Definition emit_geometry (g : geometry) : xml :=
    el a_geometry ((a_id, g_id g) :: opt_at a_name (g_name g)) None
       ([el a_mesh [] None
            ([emit_source (g_src0 g)] ++ map emit_source (g_sources g) ++ [emit_vertices (g_vid g) (g_vref g)] ++
             map (fun p => emit_prim (redirect_prim (g_vid g) (g_vref g) p)) (g_prims g))] ++
        (if g_ds g then [emit_ds_extra a_GOOGLEEARTH [TInt 1%Z]] else [])).

  Definition tUIntT := SInt (Some 0%Z) (Some 18446744073709551615%Z).
  Definition wf_srcm (s : srcm) : bool :=
    is_ncname (AStr (sm_id s)) && is_ncname (AStr (sm_arr_id s)) && ref_ok (sm_arr_id s) &&
    forallb (fun c => is_ncname (AStr c)) (sm_comps s) && aval_is (SLex lx_NMTOKEN) (AStr (sm_ptype s)) &&
    is_uint (AInt (zlen (sm_vals s))) && is_uint (AInt (zlen (sm_vals s) / zlen (sm_comps s))) &&
    is_uint (AInt (zlen (sm_comps s))) &&
    (N.eqb (sm_arrtag s) a_float_array && tval (SList SFloat 0 None) (sm_vals s) ||
     N.eqb (sm_arrtag s) a_Name_array && tval (SList (SLex lx_Name) 0 None) (sm_vals s) ||
     N.eqb (sm_arrtag s) a_IDREF_array && tval (SList (SLex lx_NCName) 1 None) (sm_vals s)).
  Definition wf_inpm (i : inpm) : bool :=
    is_uint (AInt (im_offset i)) && aval_is (SLex lx_NMTOKEN) (AStr (im_sem i)) && aval_is SFragment (im_src i) &&
    oall is_uint (im_set i).
  Definition prim_count (p : primm) : Z :=
    match pm_kind p with
    | KTriangles => zlen (Bookkeeping.flat p) / (3 * nind_m p)
    | KLines => zlen (Bookkeeping.flat p) / (2 * nind_m p)
    | KPolylist vcs => zlen vcs
    | KPolygons => zlen (pm_index p)
    end.
  Definition wf_primm (p : primm) : bool :=
    forallb wf_inpm (pm_inputs p) && oall is_ncname (pm_material p) && is_uint (AInt (prim_count p)) &&
    forallb (tval (SList tUIntT 0 None)) (pm_index p) && tval (SList tUIntT 0 None) (Bookkeeping.flat p) &&
    match pm_kind p with KPolylist vcs => tval (SList tUIntT 0 None) (map TInt vcs) | _ => true end.
  Definition wf_geometry (g : geometry) : bool :=
    is_ncname (g_id g) && oall is_ncname (g_name g) && wf_srcm (g_src0 g) && forallb wf_srcm (g_sources g) &&
    is_ncname (AStr (g_vid g)) && aval_is SFragment (ARef true (g_vref g)) &&
    forallb (fun p => wf_primm (redirect_prim (g_vid g) (g_vref g) p)) (g_prims g).

  (* ---------------------------------------------------------------- scene graph *)
  Inductive tkind := TLookat | TMatrix | TRotate | TScale | TTranslate.
  Definition tkind_tag (k : tkind) : atom :=
    match k with TLookat => a_lookat | TMatrix => a_matrix | TRotate => a_rotate | TScale => a_scale | TTranslate => a_translate end.
  Definition tkind_len (k : tkind) : nat :=
    match k with TLookat => 9 | TMatrix => 16 | TRotate => 4 | TScale => 3 | TTranslate => 3 end.
  Definition emit_transform (t : tkind * toks) : xml := txt (tkind_tag (fst t)) (snd t).
  Definition wf_transform (t : tkind * toks) : bool := floats (tkind_len (fst t)) (snd t).

  Record bvi := Bvi { b_sem : aval; b_isem : aval; b_set : option aval }.
  Record matnode := MatNode { mn_symbol : aval; mn_target : atom; mn_inputs : list bvi }.
  Definition emit_bvi (b : bvi) : xml :=
    el a_bind_vertex_input ([(a_semantic, b_sem b); (a_input_semantic, b_isem b)] ++ opt_at a_input_set (b_set b)) None [].
  Definition emit_matnode (m : matnode) : xml :=
    el a_instance_material [(a_symbol, mn_symbol m); (a_target, ARef true (mn_target m))] None (map emit_bvi (mn_inputs m)).
  Definition wf_bvi (b : bvi) : bool := is_ncname (b_sem b) && is_ncname (b_isem b) && oall is_uint (b_set b).
  Definition wf_matnode (m : matnode) : bool :=
    is_ncname (mn_symbol m) && ref_ok (mn_target m) && forallb wf_bvi (mn_inputs m).

  (* a scene node or one of the things a node can hold; [rank] is the position of the kind in the
     schema's sequence (the user-side obligation "node children in schema order") *)
  Inductive snode :=
    | SNode (id name : aval) (ts : list (tkind * toks)) (kids : list snode)
    | SCamera (url : atom)
    | SGeometry (url : atom) (mats : list matnode)
    | SLight (url : atom)
    | SInst (url : atom)
    | SExtra.
  Definition rank (n : snode) : nat :=
    match n with SCamera _ => 0 | SGeometry _ _ => 1 | SLight _ => 2 | SInst _ => 3 | SNode _ _ _ _ => 4 | SExtra => 5 end.
  Definition emit_url (t : atom) (url : atom) : xml := el t [(a_url, ARef true url)] None [].
  Fixpoint emit_snode (n : snode) : xml :=
    match n with
    | SNode id name ts kids =>
        el a_node [(a_id, id); (a_name, name)] None (map emit_transform ts ++ map emit_snode kids)
    | SCamera u => emit_url a_instance_camera u
    | SGeometry u mats =>
        el a_instance_geometry [(a_url, ARef true u)] None
           (match mats with
            | [] => []
            | _ => [el a_bind_material [] None [el a_technique_common [] None (map emit_matnode mats)]]
            end)
    | SLight u => emit_url a_instance_light u
    | SInst u => emit_url a_instance_node u
    | SExtra => emit_ds_extra a_MAX3D [TInt 1%Z]
    end.
  Fixpoint sortedb (l : list snode) : bool :=
    match l with
    | a :: (b :: _) as t => Nat.leb (rank a) (rank b) && sortedb t
    | _ => true
    end.
  Definition is_node (n : snode) : bool := match n with SNode _ _ _ _ => true | _ => false end.
  Fixpoint wf_snode (n : snode) : bool :=
    match n with
    | SNode id name ts kids =>
        is_ncname id && is_ncname name && forallb wf_transform ts && sortedb kids &&
        (fix all (l : list snode) : bool := match l with [] => true | c :: r => wf_snode c && all r end) kids
    | SGeometry u mats => ref_ok u && forallb wf_matnode mats
    | SCamera u | SLight u | SInst u => ref_ok u
    | SExtra => true
    end.

  Record vscene := VScene { sc_id : aval; sc_node0 : snode; sc_nodes : list snode }.
  Definition emit_vscene (s : vscene) : xml :=
    el a_visual_scene [(a_id, sc_id s)] None (emit_snode (sc_node0 s) :: map emit_snode (sc_nodes s)).
  Definition wf_vscene (s : vscene) : bool :=
    is_ncname (sc_id s) && forallb (fun n => is_node n && wf_snode n) (sc_node0 s :: sc_nodes s).

  (* ---------------------------------------------------------------- the document *)
  Record doc := Doc { d_asset : asset; d_cameras : list camera; d_effects : list effect; d_geometries : list geometry;
                      d_images : list image; d_lights : list light; d_materials : list material;
                      d_nodes : list snode; d_scenes : list vscene; d_scene : option atom }.
  Definition emit_lib (t : atom) (kids : list xml) : list xml :=
    match kids with [] => [] | _ => [el t [] None kids] end.
  Definition emit_libs (d : doc) : list xml :=
    emit_lib a_library_cameras (map emit_camera (d_cameras d)) ++
    emit_lib a_library_effects (map emit_effect (d_effects d)) ++
    emit_lib a_library_geometries (map emit_geometry (d_geometries d)) ++
    emit_lib a_library_images (map emit_image (d_images d)) ++
    emit_lib a_library_lights (map emit_light (d_lights d)) ++
    emit_lib a_library_materials (map emit_material (d_materials d)) ++
    emit_lib a_library_nodes (map emit_snode (d_nodes d)) ++
    emit_lib a_library_visual_scenes (map emit_vscene (d_scenes d)).
  Definition emit (d : doc) : xml :=
    el a_COLLADA [(a_version, AStr sa_1_4_1)] None
       ([emit_asset (d_asset d)] ++ emit_libs d ++
        [el a_scene [] None (opt_el (emit_url a_instance_visual_scene) (d_scene d))]).

  (* what the user has to respect; the last conjunct is the uniqueness of all ids, derived
     -array / -vertices ones included, read off the emitted tree *)
  (* the lexical table knows the few fixed words the writer itself puts into attributes *)
  Definition wf_lex : bool :=
    aval_is (SLex lx_NMTOKEN) (AStr a_GOOGLEEARTH) && aval_is (SLex lx_NMTOKEN) (AStr a_MAX3D) &&
    aval_is (SLex lx_NMTOKEN) (AStr a_POSITION).
  Definition wf_content (d : doc) : bool :=
    wf_lex && wf_asset (d_asset d) && forallb wf_camera (d_cameras d) && forallb wf_effect (d_effects d) &&
    forallb wf_geometry (d_geometries d) && forallb wf_image (d_images d) && forallb wf_light (d_lights d) &&
    forallb wf_material (d_materials d) && forallb (fun n => is_node n && wf_snode n) (d_nodes d) &&
    forallb wf_vscene (d_scenes d) && oall ref_ok (d_scene d).
  Definition ids_distinct (d : doc) : bool := Nat.eqb (dup_count (all_ids (emit d))) 0.
  Definition wf_user (d : doc) : bool := wf_content d && ids_distinct d.
End WF.
