(* C13 - transforms and the node matrix.
   MODEL: the constructors/loaders/folds are the GENERATED definitions of Gen/Transforms.v
   (re-emitted from scene.py on every run); this file only adds the data around them:
   the transform sum type, the node object with its (stale until save) matrix, edit
   histories of the transform list, and the integer instance used by the correspondence.
   SPEC: [mprod] of the listed matrices (Base/Mat.v), the column-vector action [mapply]. *)
From Coq Require Import List ZArith Bool.
From PC Require Import Base.Py Base.Mat Gen.Transforms.
Import ListNotations.

Section Transforms.
  Variable R : Type.
  Variable O : ops R.

  (* a transform as the user gives it: constructor arguments, or the float list of a loaded
     element (tag 0 translate, 1 rotate, 2 scale, 3 matrix, 4 lookat) *)
  Inductive transform : Type :=
  | TTranslate (x y z : R)
  | TRotate (x y z angle : R)
  | TScale (x y z : R)
  | TMatrix (m : list R)
  | TLookAt (eye interest up : vec3 R)
  | TLoaded (tag : nat) (floats : list R).

  Definition transform_matrix (t : transform) : mat R :=
    match t with
    | TTranslate x y z => translate_matrix O x y z
    | TRotate x y z a => rotate_matrix O x y z a
    | TScale x y z => scale_matrix O x y z
    | TMatrix m => matrix_matrix O m
    | TLookAt e i u => lookat_matrix O e i u
    | TLoaded 0 f => translate_load O f
    | TLoaded 1 f => rotate_load O f
    | TLoaded 2 f => scale_load O f
    | TLoaded 3 f => matrix_load O f
    | TLoaded _ f => lookat_load O f
    end.

  (* Node(id, transforms=ts).matrix and what Node.save() stores *)
  Definition node_matrix (ts : list transform) : mat R := node_init_matrix O (map transform_matrix ts).
  Definition node_matrix_saved (ts : list transform) : mat R := node_save_matrix O (map transform_matrix ts).

  (* the node object as far as C13 is concerned: the transform list the user edits and the
     cached matrix, which only __init__ and save() write *)
  Record node : Type := Node { transforms : list transform; matrix : mat R }.
  Definition construct (ts : list transform) : node := Node ts (node_matrix ts).

  (* edits of node.transforms: plain Python list operations (failing ones leave the list as it is) *)
  Inductive edit : Type :=
  | EAppend (t : transform)
  | EInsert (i : Z) (t : transform)
  | EDelete (i : Z)
  | EReplace (i : Z) (t : transform)
  | EReverse
  | EClear.

  Definition apply_edit (ts : list transform) (e : edit) : list transform :=
    match e with
    | EAppend t => ts ++ [t]
    | EInsert i t => list_insert i t ts
    | EDelete i => match norm_index (length ts) i with Some n => remove_at n ts | None => ts end
    | EReplace i t => match norm_index (length ts) i with Some n => replace_at n t ts | None => ts end
    | EReverse => rev ts
    | EClear => []
    end.
  Definition edit_node (n : node) (e : edit) : node := Node (apply_edit (transforms n) e) (matrix n).
  Definition save (n : node) : node := Node (transforms n) (node_matrix_saved (transforms n)).
  Definition run_edits (n : node) (es : list edit) : node := fold_left edit_node es n.

  (* histories in which saves may FAIL: Node.save recomputes the matrix and then saves the children, one of
     which may raise.  Whatever such an attempt leaves in the cached matrix (here: any matrix at all) the
     transform list is untouched *)
  Inductive hstep : Type :=
  | HEdit (e : edit)
  | HSave
  | HSaveFailed (left_behind : mat R).
  Definition hstep_apply (n : node) (s : hstep) : node :=
    match s with
    | HEdit e => edit_node n e
    | HSave => save n
    | HSaveFailed m => Node (transforms n) m
    end.
  Definition run_history (n : node) (h : list hstep) : node := fold_left hstep_apply h n.
  Definition history_transforms (ts : list transform) (h : list hstep) : list transform :=
    fold_left (fun ts s => match s with HEdit e => apply_edit ts e | _ => ts end) h ts.

  (* SPEC: the product, in listed order, of the matrices of the transforms *)
  Definition spec_matrix (ts : list transform) : mat R :=
    mprod (o0 O) (o1 O) (oadd O) (omul O) (map transform_matrix ts).
End Transforms.

Arguments TTranslate {R}. Arguments TRotate {R}. Arguments TScale {R}. Arguments TMatrix {R}.
Arguments TLookAt {R}. Arguments TLoaded {R}.
Arguments transform_matrix {R}. Arguments node_matrix {R}. Arguments node_matrix_saved {R}.
Arguments Node {R}. Arguments transforms {R}. Arguments matrix {R}. Arguments construct {R}.
Arguments EAppend {R}. Arguments EInsert {R}. Arguments EDelete {R}. Arguments EReplace {R}.
Arguments EReverse {R}. Arguments EClear {R}.
Arguments apply_edit {R}. Arguments edit_node {R}. Arguments save {R}. Arguments run_edits {R}.
Arguments spec_matrix {R}.
Arguments HEdit {R}. Arguments HSave {R}. Arguments HSaveFailed {R}.
Arguments hstep_apply {R}. Arguments run_history {R}. Arguments history_transforms {R}.

(* ---- the integer instance.  Angles are multiples of 90 degrees: "radians" are measured in
   the unit in which pi is 180, so  angle * pi / 180  is the angle itself (exact division);
   cos/sin are the exact values at multiples of 90 (anything else is outside the instance
   and mapped to 2, which no implementation observation equals).  Division and square root
   are the exact integer ones (the harness only uses divisible / perfect-square data). *)
Definition cos_deg (a : Z) : Z :=
  match (a mod 360)%Z with 0%Z => 1 | 90%Z => 0 | 180%Z => -1 | 270%Z => 0 | _ => 2 end%Z.
Definition sin_deg (a : Z) : Z :=
  match (a mod 360)%Z with 0%Z => 0 | 90%Z => 1 | 180%Z => 0 | 270%Z => -1 | _ => 2 end%Z.
Definition zops : ops Z :=
  Ops Z 0%Z 1%Z Z.add Z.mul Z.sub Z.opp Z.div (fun _ => 0%Z) Z.sqrt cos_deg sin_deg 180%Z (fun k => k).
