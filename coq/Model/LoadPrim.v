(* C05 - how pycollada's loader builds a primitive from its XML, and what the file says.

   MODEL (follows the Python as it is now, collada/primitive.py, triangleset.py, lineset.py,
   polylist.py, polygons.py, source.py):
     - Primitive._getInputsFromList: queue the expansion of every VERTEX input that names a
       <vertices> dict (POSITION -> VERTEX, any other semantic under its own name, same offset
       and set), drop every input whose target is a dict, append the queue, resolve and bucket;
     - constructors: nindices = max offset + 1, reshape to rows of nindices, per-input column
       selection, polylist ends = cumsum vcounts, starts = ends - vcounts, polygons' vcounts
       from the per-<p> lengths, strips / fans expanded per <p> then concatenated;
     - FloatSource.load: NaN -> 0, (U,V) -> (S,T), (S,T,P) -> (S,T) with the third column deleted.
   SPEC (what an independent reading of the XML gives): direct indexing
       view o j = nth (j * nind + o) flat, the per-semantic input lists, `drop_third`.
   No proofs here (Proofs/LoadPrim.v). *)
From Coq Require Import List Bool ZArith NArith Lia.
From PC Require Import Base.Atoms Base.Xml Base.Outcome Base.Py.
Import ListNotations.
Local Open Scope nat_scope.

(* ------------------------------------------------------------------ reshape and columns *)

(* numpy reshape(-1, n) of a flat array holding m*n items: m rows *)
Fixpoint chunk {A} (m n : nat) (l : list A) : list (list A) :=
  match m with
  | O => []
  | S m' => firstn n l :: chunk m' n (skipn n l)
  end.

(* index.shape = (-1, n): fails unless the length is a multiple of n *)
Definition reshape {A} (n : nat) (l : list A) : option (list (list A)) :=
  match n with
  | O => None
  | _ => if Nat.eqb (Nat.modulo (length l) n) 0 then Some (chunk (Nat.div (length l) n) n l) else None
  end.

(* index[..., o] *)
Definition col (o : nat) (rows : list (list Z)) : list Z := map (fun r => nth o r 0%Z) rows.

(* SPEC: the index an input at offset o sees for the j-th vertex of the stream *)
Definition spec_view (nind o : nat) (flat : list Z) : list Z :=
  map (fun j => nth (j * nind + o) flat 0%Z) (seq 0 (Nat.div (length flat) nind)).

(* ------------------------------------------------------------------ inputs *)

(* an <input> as Primitive._getInputs reads it: offset, semantic, source attribute, set *)
Record input := mkInput { i_off : nat; i_sem : atom; i_src : aval; i_set : option aval }.

(* what an id of the mesh scope (sourcebyid) maps to: a Source (named by the uid of its element)
   or the dict of a <vertices> element, semantic -> id of the source it resolved to
   (None: sourcebyid.get(...) returned None) *)
Inductive entry := ESrc (uid : N) | EVerts (d : list (atom * option atom)).
Definition scope := list (atom * entry).

Definition ref_id (v : aval) : option atom := match v with ARef true a => Some a | _ => None end.
Definition target (sc : scope) (v : aval) : option entry :=
  match ref_id v with Some a => dget N.eqb sc a | None => None end.
Definition is_dict (sc : scope) (v : aval) : bool :=
  match target sc v with Some (EVerts _) => true | _ => false end.

(* pass 1: the entries queued for one input *)
Definition eff_sem (s : atom) : atom := if N.eqb s a_POSITION then a_VERTEX else s.
Definition expand_one (sc : scope) (i : input) : list input :=
  if N.eqb (i_sem i) a_VERTEX then
    match target sc (i_src i) with
    | Some (EVerts d) =>
        flat_map (fun e => match snd e with
                           | Some s => [mkInput (i_off i) (eff_sem (fst e)) (ARef true s) (i_set i)]
                           | None => []
                           end) d
    | _ => []
    end
  else [].
(* `'#' + inputsource.id` on a vertices entry that did not resolve raises AttributeError *)
Definition expand_ok (sc : scope) (i : input) : bool :=
  if N.eqb (i_sem i) a_VERTEX then
    match target sc (i_src i) with
    | Some (EVerts d) => forallb (fun e => match snd e with Some _ => true | None => false end) d
    | _ => true
    end
  else true.

(* passes 1-3 *)
Definition expand_inputs (sc : scope) (ins : list input) : outcome (list input) :=
  if forallb (expand_ok sc) ins
  then Ok (filter (fun i => negb (is_dict sc (i_src i))) ins ++ flat_map (expand_one sc) ins)
  else Raise PyAttributeError.

(* pass 4: resolved inputs (the 5-tuples) *)
Record rinput := mkR { r_off : nat; r_sem : atom; r_ref : atom; r_set : option aval; r_uid : N }.

Definition known_sems : list atom :=
  [a_VERTEX; a_NORMAL; a_TEXCOORD; a_TEXBINORMAL; a_TEXTANGENT; a_COLOR; a_TANGENT; a_BINORMAL].
Definition is_known (s : atom) : bool := existsb (N.eqb s) known_sems.

Definition resolve (sc : scope) (i : input) : outcome rinput :=
  match ref_id (i_src i) with
  | None => Raise DaeMalformed                       (* not "#x" *)
  | Some a =>
      match dget N.eqb sc a with
      | None => Raise DaeBrokenRef
      | Some (EVerts _) => Raise PyAttributeError      (* a dict where a Source is expected *)
      | Some (ESrc u) =>
          if is_known (i_sem i) then Ok (mkR (i_off i) (i_sem i) a (i_set i) u)
          else Raise DaeUnsupported                    (* handleError with an empty mask *)
      end
  end.

Definition get_inputs (sc : scope) (ins : list input) : outcome (list rinput) :=
  obind (expand_inputs sc ins) (omapM (resolve sc)).

Definition bucket (sem : atom) (l : list rinput) : list rinput := filter (fun r => N.eqb (r_sem r) sem) l.
Definition ibucket (sem : atom) (l : list input) : list input := filter (fun i => N.eqb (i_sem i) sem) l.

(* SPEC: the inputs of one semantic - primitive-level ones first (document order), then, for
   every VERTEX input naming a <vertices> element (document order), that element's entries of
   the semantic (POSITION counting as VERTEX) at the offset and set of the naming input *)
Definition spec_vertices_level (sc : scope) (sem : atom) (i : input) : list input :=
  if N.eqb (i_sem i) a_VERTEX then
    match target sc (i_src i) with
    | Some (EVerts d) =>
        flat_map (fun e => match snd e with
                           | Some s => if N.eqb (eff_sem (fst e)) sem
                                       then [mkInput (i_off i) sem (ARef true s) (i_set i)] else []
                           | None => []
                           end) d
    | _ => []
    end
  else [].
Definition spec_bucket (sc : scope) (ins : list input) (sem : atom) : list input :=
  filter (fun i => N.eqb (i_sem i) sem && negb (is_dict sc (i_src i))) ins
  ++ flat_map (spec_vertices_level sc sem) ins.

(* ------------------------------------------------------------------ index text *)

(* numpy.fromstring(text, int32, sep=' ') guarded by `text is None or text.isspace()` *)
Fixpoint ints_of (l : list tok) : option (list Z) :=
  match l with
  | [] => Some []
  | TInt z :: r => option_map (cons z) (ints_of r)
  | _ :: _ => None
  end.
Definition parse_index (t : option (list tok)) : option (list Z) :=
  match t with None => Some [] | Some l => ints_of l end.

(* ------------------------------------------------------------------ strips and fans *)

Definition row_at (rows : list (list Z)) (i : nat) : list Z := nth i rows [].
(* corner rows of the triangles of a strip with n vertices: (2i,2i+1,2i+2) for all i, then
   (2i+2,2i+1,2i+3) for all i; of a fan: (0,i+1,i+2) *)
Definition strip_corners (n : nat) : list nat :=
  flat_map (fun i => [2*i; 2*i+1; 2*i+2]) (seq 0 (Nat.div (n - 1) 2)) ++
  flat_map (fun i => [2*i+2; 2*i+1; 2*i+3]) (seq 0 (Nat.div (n - 2) 2)).
Definition fan_corners (n : nat) : list nat := flat_map (fun i => [0; i+1; i+2]) (seq 0 (n - 2)).
Definition gather (rows : list (list Z)) (cs : list nat) : list Z := concat (map (row_at rows) cs).

Inductive pkind := KTriangles | KStrips | KFans | KLines | KPolylist | KPolygons.
Definition corners_per (k : pkind) : nat :=
  match k with KTriangles | KStrips | KFans => 3 | KLines => 2 | _ => 1 end.

(* the flat index a loader hands to the constructor *)
Definition expand_p (k : pkind) (nind : nat) (idx : list Z) : outcome (list Z) :=
  match reshape nind idx with
  | None => Raise DaeMalformed
  | Some rows => Ok (gather rows (match k with KStrips => strip_corners (length rows) | _ => fan_corners (length rows) end))
  end.

Definition load_flat (k : pkind) (nind : nat) (ps : list (option (list tok))) : outcome (list Z) :=
  match k with
  | KTriangles | KLines | KPolylist =>
      match ps with
      | [] => Raise DaeIncomplete
      | p :: _ => of_option DaeMalformed (parse_index p)
      end
  | KStrips | KFans =>
      match ps with
      | [] => Raise DaeIncomplete
      | _ => omap (@concat Z)
               (omapM (fun p => obind (of_option DaeMalformed (parse_index p)) (expand_p k nind)) ps)
      end
  | KPolygons => omap (@concat Z) (omapM (fun p => of_option PyValueError (parse_index p)) ps)
  end.

(* SPEC: where the j-th vertex of the exposed stream sits in the file: (<p> number, row in it) *)
Definition rows_of (nind : nat) (p : list Z) : nat := Nat.div (length p) nind.
Definition spec_corners (k : pkind) (nind : nat) (ps : list (list Z)) : list (nat * nat) :=
  match k with
  | KTriangles | KLines | KPolylist =>
      match ps with [] => [] | p :: _ => map (fun r => (0, r)) (seq 0 (rows_of nind p)) end
  | KPolygons =>
      concat (map (fun ip => map (fun r => (fst ip, r)) (seq 0 (rows_of nind (snd ip)))) (combine (seq 0 (length ps)) ps))
  | KStrips =>
      concat (map (fun ip => map (fun r => (fst ip, r)) (strip_corners (rows_of nind (snd ip)))) (combine (seq 0 (length ps)) ps))
  | KFans =>
      concat (map (fun ip => map (fun r => (fst ip, r)) (fan_corners (rows_of nind (snd ip)))) (combine (seq 0 (length ps)) ps))
  end.
Definition spec_index (nind o : nat) (ps : list (list Z)) (cs : list (nat * nat)) : list Z :=
  map (fun pr => nth (snd pr * nind + o) (nth (fst pr) ps []) 0%Z) cs.

(* ------------------------------------------------------------------ polylist bookkeeping *)

Fixpoint cumsum_from (acc : Z) (l : list Z) : list Z :=
  match l with [] => [] | x :: r => (acc + x)%Z :: cumsum_from (acc + x)%Z r end.
Definition cumsum := cumsum_from 0%Z.
Definition sumZ (l : list Z) : Z := fold_right Z.add 0%Z l.
Definition poly_ends (vc : list Z) : list Z := cumsum vc.
Definition poly_starts (vc : list Z) : list Z := map (fun p => (fst p - snd p)%Z) (combine (poly_ends vc) vc).
(* SPEC *)
Definition spec_end (vc : list Z) (i : nat) : Z := sumZ (firstn (S i) vc).
Definition spec_start (vc : list Z) (i : nat) : Z := sumZ (firstn i vc).

(* Polygons.__init__: vcounts[i] = len(poly) / (max_offset + 1) *)
Definition polygons_vcounts (nind : nat) (ps : list (list Z)) : list Z :=
  map (fun p => Z.of_nat (Nat.div (length p) nind)) ps.

(* ------------------------------------------------------------------ the constructors *)

Fixpoint max_off (l : list rinput) : nat :=
  match l with [] => O | r :: t => Nat.max (r_off r) (max_off t) end.

(* one exposed (source, index view): the source's uid and the column, as rows of k corners *)
Definition sview := (N * list Z)%type.

Record pview := mkPV {
  pv_nind : nat;
  pv_table : list (list rinput);       (* the eight buckets in the order of known_sems *)
  pv_count : nat;                      (* ntriangles / nlines / nvertices *)
  pv_vertex : option sview;
  pv_normal : option sview;
  pv_tex : list sview;
  pv_textan : list sview;
  pv_texbin : list sview;
  pv_poly : option (list Z * list Z * list Z);      (* vcounts, starts, ends *)
  pv_checks : list (N * list atom * Z)              (* checkSource calls: source, expected components, max index *)
}.

Definition maxZ (l : list Z) : Z := fold_right Z.max 0%Z l.
Definition xyz := [a_X; a_Y; a_Z].
Definition st := [a_S; a_T].

Definition sv (rows : list (list Z)) (r : rinput) : sview := (r_uid r, col (r_off r) rows).
Definition chk (comps : list atom) (v : sview) : (N * list atom * Z) := (fst v, comps, maxZ (snd v)).

(* TriangleSet / LineSet / Polylist constructors after the inputs are resolved.
   vc: the vcounts of a polylist / polygons (None for the other kinds). *)
Definition construct (k : pkind) (ins : list rinput) (flat : list Z) (vc : option (list Z)) : outcome pview :=
  match ins with
  | [] => Raise PyValueError                     (* max() of an empty sequence *)
  | _ =>
    let nind := S (max_off ins) in
    match reshape nind flat with
    | None => Raise DaeMalformed
    | Some rows =>
      let kk := corners_per k in
      if negb (Nat.eqb (Nat.modulo (length rows) kk) 0) then Raise DaeMalformed else
      if (match vc with Some v => negb (Z.eqb (sumZ v) (Z.of_nat (length rows))) | None => false end)
      then Raise DaeMalformed else
      let nonempty := negb (Nat.eqb (length rows) 0) in
      let first sem := if nonempty then option_map (sv rows) (hd_error (bucket sem ins)) else None in
      let every sem := if nonempty then map (sv rows) (bucket sem ins) else [] in
      let tri := match k with KTriangles | KStrips | KFans => true | _ => false end in
      match bucket a_VERTEX ins, (match k with KLines => true | _ => nonempty end) with
      | [], true => match k with KLines => Raise DaeIncomplete   (* `if not sources.get('VERTEX')` *)
                    | _ => Raise PyIndexError end              (* sources['VERTEX'][0] *)
      | _, _ =>
        let vx := first a_VERTEX in
        let nm := first a_NORMAL in
        let tx := every a_TEXCOORD in
        let tt := if tri then every a_TEXTANGENT else [] in
        let tb := if tri then every a_TEXBINORMAL else [] in
        Ok (mkPV nind (map (fun s => bucket s ins) known_sems)
                 (Nat.div (length rows) kk) vx nm tx tt tb
                 (match vc with Some v => Some (v, poly_starts v, poly_ends v) | None => None end)
                 (match vx with Some v => [chk xyz v] | None => [] end ++
                  match nm with Some v => [chk xyz v] | None => [] end ++
                  map (chk st) tx ++ map (chk xyz) tt ++ map (chk xyz) tb))
      end
    end
  end.

(* <polylist>'s <vcount> *)
Definition load_vcounts (k : pkind) (nind : nat) (vcount : option (option (list tok))) (ps : list (option (list tok)))
  : outcome (option (list Z)) :=
  match k with
  | KPolylist => match vcount with
                 | None => Raise DaeIncomplete
                 | Some t => omap Some (of_option DaeMalformed (parse_index t))
                 end
  | KPolygons => omap (fun l => Some (polygons_vcounts nind l)) (omapM (fun p => of_option PyValueError (parse_index p)) ps)
  | _ => Ok None
  end.

(* X.load(collada, localscope, node) for the six primitive elements *)
Definition load_primitive (sc : scope) (k : pkind) (inputs : list input)
           (vcount : option (option (list tok))) (ps : list (option (list tok))) : outcome pview :=
  match k, ps with
  | (KTriangles | KStrips | KFans | KLines | KPolylist), [] => Raise DaeIncomplete
  | _, _ =>
    obind (match k with KPolylist => load_vcounts k 1 vcount ps | _ => Ok None end) (fun vc0 =>
    obind (get_inputs sc inputs) (fun ins =>
    match ins with
    | [] => Raise PyValueError
    | _ =>
      let nind := S (max_off ins) in
      obind (load_flat k nind ps) (fun flat =>
      obind (match k with KPolygons => load_vcounts k nind vcount ps | _ => Ok vc0 end) (fun vc =>
      construct k ins flat vc))
    end))
  end.

(* ------------------------------------------------------------------ float sources *)

(* value classes: the harness gives every numeric token the class of float32(float(token));
   class 1 is NaN, class 0 is 0.0 *)
Definition nan_class : N := 1%N.
Definition nan0 (c : N) : N := if N.eqb c nan_class then 0%N else c.

Definition comps_eqb (a b : list (option aval)) : bool := list_eqb (opt_eqb aval_eqb) a b.
Definition nm (a : atom) : option aval := Some (AStr a).

(* numpy.delete(data.reshape(-1,3), -1, 1).reshape(-1) *)
Definition delete_last_col {A} (d : list A) : option (list A) :=
  match reshape 3 d with Some rows => Some (concat (map (firstn 2) rows)) | None => None end.

(* FloatSource.load after the text is parsed: data and the param names *)
Definition normalise_source (comps : list (option aval)) (data : list N)
  : outcome (list (option aval) * list N) :=
  let d := map nan0 data in
  match comps with
  | [] => Raise DaeIncomplete
  | _ =>
    if comps_eqb comps [nm a_U; nm a_V] then Ok ([nm a_S; nm a_T], d)
    else if comps_eqb comps [nm a_S; nm a_T; nm a_P] then
      match delete_last_col d with
      | Some d' => Ok ([nm a_S; nm a_T], d')
      | None => Raise PyValueError
      end
    else Ok (comps, d)
  end.

(* SPEC: of every triple keep the first two *)
Fixpoint drop_third {A} (l : list A) : list A :=
  match l with a :: b :: _ :: r => a :: b :: drop_third r | _ => [] end.
Definition spec_comps (c : list (option aval)) : list (option aval) :=
  if comps_eqb c [nm a_U; nm a_V] then [nm a_S; nm a_T]
  else if comps_eqb c [nm a_S; nm a_T; nm a_P] then [nm a_S; nm a_T] else c.
Definition spec_data (c : list (option aval)) (d : list N) : list N :=
  if comps_eqb c [nm a_S; nm a_T; nm a_P] then drop_third (map nan0 d) else map nan0 d.
