(* MODEL of the LOAD path in front of the primitive constructors, and the SPEC [read] it is
   compared with: Geometry.load reads every <source> of the mesh (FloatSource.load), then the
   <vertices> element, then hands the primitive's <input>s, resolved in that scope, to
   Primitive._getInputsFromList and the constructor (Model/PrimCtor.v).

   MODELLED CONVENTION (pycollada's, made explicit): of an <accessor> only the <param> children
   are read - their number is the source's component count and stride, their names matter only
   for the patterns U,V and S,T,P.  The attributes `stride`, `offset` and `count` of the accessor
   (and `count` of the float_array) are read by nobody: [x_stride], [x_offset], [x_count] are
   carried by [xsource] and ignored by [load_source].  No proofs here. *)
From Coq Require Import List Bool Arith ZArith NArith Lia.
From PC Require Import Base.Outcome Model.IndexTable Model.PrimCtor.
Import ListNotations.

Record xsource := XS {
  x_stp : bool;            (* params named exactly S, T, P *)
  x_data : list Z;         (* the float_array *)
  x_nparams : nat;         (* number of <param> children *)
  x_stride : nat; x_offset : nat; x_count : nat   (* accessor attributes: ignored *) }.

Definition load_source (x : xsource) : outcome source :=
  float_source_load (x_stp x) (x_data x) (x_nparams x).

(* children of <mesh> that can be referenced: a <source>, or the <vertices> element whose inputs
   (semantic, position of the referenced source) form a dict *)
Inductive xentry := XSrc (x : xsource) | XVerts (d : list (vsem * nat)).
Inductive xref := XRef (n : nat) | XBadRef.          (* "#id" of the n-th entry / not a "#..." string *)
Definition xinput := (nat * sem * xref)%type.

Section WithSourceReader.
  (* how one <source> becomes a Source: the loader's algorithm, or the SPEC's positional reading *)
  Variable rd : xsource -> outcome source.

  Definition read_entries (es : list xentry) : outcome (list (option source)) :=
    omapM (fun e => match e with
                    | XSrc x => match rd x with Ok s => Ok (Some s) | Raise e => Raise e end
                    | XVerts _ => Ok None
                    end) es.

  Definition target_of (es : list xentry) (loaded : list (option source)) (r : xref) : target :=
    match r with
    | XBadRef => TBadRef
    | XRef n =>
        match nth_error es n, nth n loaded None with
        | Some (XSrc _), Some s => TSrc s
        | Some (XVerts d), _ =>
            TVerts (flat_map (fun e => match nth (snd e) loaded None with
                                       | Some s => [(fst e, s)] | None => [] end) d)
        | _, _ => TMissing
        end
    end.

  Definition prim_of_document (kd : kind) (es : list xentry) (xins : list xinput) (mat : option N)
      (s : stream) : outcome prim :=
    match read_entries es with
    | Raise e => Raise e                           (* a bad source aborts the whole geometry *)
    | Ok loaded =>
        create kd (map (fun xi => RI (fst (fst xi)) (snd (fst xi)) (target_of es loaded (snd xi))) xins) mat s
    end.
End WithSourceReader.

(* the loader *)
Definition load_prim := prim_of_document load_source.

(* ---- SPEC: an independent, purely positional reading of a source: element r, component c is
   data[r * stride + c]; stride = number of params (3 for S,T,P, of which 2 components are kept) *)
Definition stride_of (x : xsource) : nat := if x_stp x then 3 else x_nparams x.
Definition ncomp_of (x : xsource) : nat := if x_stp x then 2 else x_nparams x.

Definition read_source (x : xsource) : outcome source :=
  let st := stride_of x in
  if (length (x_data x) mod st =? 0)%nat
  then Ok (Src (map (fun r => map (fun c => nth (r * st + c) (x_data x) 0%Z) (seq 0 (ncomp_of x)))
                    (seq 0 (length (x_data x) / st)))
               (ncomp_of x))
  else Raise DaeMalformed.

Definition read_prim := prim_of_document read_source.
