(* MODEL of what individual loaders do with the XML they are given: WHICH exception class each
   site raises (the code as it stands in /repo), for transforms, <material>, <light>, <camera> and
   float <source>.  Numeric text is read through three oracles that follow numpy / float():

     numpy.fromstring(text, sep=' ')   text None -> TypeError, a non-numeric token -> ValueError
     float(text)                       text None -> TypeError, anything but one numeric token -> ValueError
     [float(v) for v in text.split()]  text None -> AttributeError, a non-numeric token -> ValueError

   A missing child read through `.text` is an AttributeError, a missing attribute read through
   `.startswith` too; '#'-less references are DaeMalformed, unknown ids DaeBrokenRef.  The loaders
   catch some of these themselves (as written below); the rest reaches the per-object boundary
   ([guarded]), which converts the GENERATED [raw_load_errors] into DaeMalformed. *)
From Coq Require Import List Bool ZArith NArith.
From PC Require Import Base.Atoms Base.Xml Base.Outcome Base.Libs Gen.Params Model.Errors.
Import ListNotations.

Definition good_tok (t : tok) : bool := match t with TWord _ => false | _ => true end.

Definition parse_floats (t : option (list tok)) : outcome nat :=
  match t with
  | None => Raise PyTypeError
  | Some ts => if forallb good_tok ts then Ok (length ts) else Raise PyValueError
  end.

Definition parse_float (t : option (list tok)) : outcome unit :=
  match t with
  | None => Raise PyTypeError
  | Some [x] => if good_tok x then Ok tt else Raise PyValueError
  | Some _ => Raise PyValueError
  end.

Definition parse_color (t : option (list tok)) : outcome nat :=
  match t with
  | None => Raise PyAttributeError
  | Some ts => if forallb good_tok ts then Ok (length ts) else Raise PyValueError
  end.

(* try: ... except ValueError: raise DaeMalformedError *)
Definition value_error_is_malformed {A} (o : outcome A) : outcome A :=
  match o with Raise PyValueError => Raise DaeMalformed | other => other end.
(* try: ... except (TypeError, ValueError): raise DaeMalformedError *)
Definition type_value_error_is_malformed {A} (o : outcome A) : outcome A :=
  match o with Raise PyValueError | Raise PyTypeError => Raise DaeMalformed | other => other end.

Definition andthen {A B} (a : outcome A) (b : outcome B) : outcome B :=
  match a with Ok _ => b | Raise e => Raise e end.

Section Sites.
  Variable ns : atom.

  (* ---- transforms (scene.py *Transform.load, MatrixTransform.__init__) *)
  Definition expect_count (n want : nat) : outcome unit :=
    if Nat.eqb n want then Ok tt else Raise DaeMalformed.

  Definition load_transform (x : xml) : outcome unit :=
    let count := if N.eqb (xtag x) a_translate then Some 3
                 else if N.eqb (xtag x) a_rotate then Some 4
                 else if N.eqb (xtag x) a_scale then Some 3
                 else if N.eqb (xtag x) a_matrix then Some 16
                 else if N.eqb (xtag x) a_lookat then Some 9 else None in
    match count with
    | None => Ok tt
    | Some want => match parse_floats (xtext x) with
                   | Ok n => expect_count n want
                   | Raise e => Raise e
                   end
    end.

  (* ---- material -> effect (material.py Material.load) *)
  Definition load_material (effects : list atom) (x : xml) : outcome unit :=
    match find ns a_instance_effect x with
    | None => Raise DaeIncomplete
    | Some e =>
        match xattr a_url e with
        | None => Raise PyAttributeError                 (* None.startswith *)
        | Some (ARef true a) => if existsb (N.eqb a) effects then Ok tt else Raise DaeBrokenRef
        | Some _ => Raise DaeMalformed                    (* no leading '#' *)
        end
    end.

  (* ---- lights (light.py) *)
  Definition opt_float (n : option xml) : outcome unit :=
    match n with None => Ok tt | Some c => parse_float (xtext c) end.

  Definition light_color (c : option xml) : outcome unit :=
    match c with
    | None => Raise DaeIncomplete
    | Some cn => match value_error_is_malformed (parse_color (xtext cn)) with Ok _ => Ok tt | Raise e => Raise e end
    end.

  Definition load_light (x : xml) : outcome unit :=
    match find ns a_technique_common x with
    | None => Raise DaeIncomplete
    | Some tc =>
        match xkids tc with
        | [] => Raise DaeIncomplete
        | k :: _ =>
            if is_tag ns a_directional k then light_color (find_path ns [a_technique_common; a_directional; a_color] x)
            else if is_tag ns a_ambient k then light_color (find_path ns [a_technique_common; a_ambient; a_color] x)
            else if is_tag ns a_point k then
              match find_path ns [a_technique_common; a_point] x with
              | None => Raise PyAttributeError
              | Some p =>
                  andthen (light_color (find ns a_color p))
                      (value_error_is_malformed
                         (andthen (opt_float (find ns a_constant_attenuation p))
                         (andthen (opt_float (find ns a_linear_attenuation p))
                         (andthen (opt_float (find ns a_quadratic_attenuation p))
                              (opt_float (find ns a_zfar p))))))
              end
            else if is_tag ns a_spot k then
              match find_path ns [a_technique_common; a_spot] x with
              | None => Raise PyAttributeError
              | Some p =>
                  andthen (light_color (find ns a_color p))
                      (value_error_is_malformed
                         (andthen (opt_float (find ns a_constant_attenuation p))
                         (andthen (opt_float (find ns a_linear_attenuation p))
                         (andthen (opt_float (find ns a_quadratic_attenuation p))
                         (andthen (opt_float (find ns a_falloff_angle p))
                              (opt_float (find ns a_falloff_exponent p)))))))
              end
            else Raise DaeUnsupported
        end
    end.

  (* ---- cameras (camera.py) *)
  Definition req_float (n : option xml) : outcome unit :=
    match n with None => Raise PyAttributeError (* None.text *) | Some c => parse_float (xtext c) end.

  Definition present (n : option xml) : bool := match n with Some _ => true | None => false end.

  (* _checkValidParams after the "all three given -> drop aspect_ratio" hack *)
  Definition valid_combo (a b r : bool) : bool :=
    let r := if a && b && r then false else r in
    match a, b, r with
    | true, false, false | false, true, false | true, false, true | false, true, true | true, true, false => true
    | _, _, _ => false
    end.

  Definition load_camera_kind (p : xml) (fa fb : atom) : outcome unit :=
    let a := find ns fa p in
    let b := find ns fb p in
    let r := find ns a_aspect_ratio p in
    andthen (type_value_error_is_malformed
           (andthen (opt_float a) (andthen (opt_float b) (andthen (opt_float r)
           (andthen (req_float (find ns a_znear p)) (req_float (find ns a_zfar p)))))))
        (if valid_combo (present a) (present b) (present r) then Ok tt else Raise DaeMalformed).

  Definition load_camera (x : xml) : outcome unit :=
    match find_path ns [a_optics; a_technique_common] x with
    | None => Raise DaeIncomplete
    | Some tc =>
        match xkids tc with
        | [] => Raise DaeIncomplete
        | k :: _ =>
            if is_tag ns a_perspective k then
              match find_path ns [a_optics; a_technique_common; a_perspective] x with
              | None => Raise DaeIncomplete
              | Some p => load_camera_kind p a_xfov a_yfov
              end
            else if is_tag ns a_orthographic k then
              match find_path ns [a_optics; a_technique_common; a_orthographic] x with
              | None => Raise DaeIncomplete
              | Some p => load_camera_kind p a_xmag a_ymag
              end
            else Raise DaeUnsupported
        end
    end.

  (* ---- float sources (source.py Source.load / FloatSource.load / FloatSource.__init__) *)
  Definition float_array_count (t : option (list tok)) : outcome nat :=
    match t with
    | None | Some [] => Ok O
    | Some ts => if forallb good_tok ts then Ok (length ts) else Raise DaeMalformed   (* except ValueError *)
    end.

  Definition param_is (a : atom) (p : xml) : bool :=
    match xattr a_name p with Some (AStr b) => N.eqb a b | _ => false end.

  Definition load_float_source (x : xml) : outcome unit :=
    match find ns a_float_array x with
    | None => Raise DaeIncomplete
    | Some arr =>
        match float_array_count (xtext arr) with
        | Raise e => Raise e
        | Ok n =>
            let params := match find_path ns [a_technique_common; a_accessor] x with
                          | Some acc => findall ns a_param acc
                          | None => []
                          end in
            match params with
            | [] => Raise DaeIncomplete
            | [p1; p2; p3] =>
                if param_is a_S p1 && param_is a_T p2 && param_is a_P p3 then
                  (* data.shape = (-1, 3); drop the third column; components = (S, T) *)
                  if Nat.eqb (Nat.modulo n 3) 0 then Ok tt else Raise PyValueError
                else if Nat.eqb (Nat.modulo n 3) 0 then Ok tt else Raise DaeMalformed
            | _ => if Nat.eqb (Nat.modulo n (length params)) 0 then Ok tt else Raise DaeMalformed
            end
        end
    end.
End Sites.

(* ---- the per-object boundary each of these loaders runs in *)
Inductive skind := KTransform | KMaterial | KLight | KCamera | KFloatSource.
Inductive bound := BNodeChild | BLib (l : lib).

Definition boundary_of (k : skind) : bound :=
  match k with
  | KTransform => BNodeChild | KMaterial => BLib LMaterials | KLight => BLib LLights
  | KCamera => BLib LCameras | KFloatSource => BLib LGeometry
  end.

(* does that boundary have the `except DaeRawLoadErrors` clause?  (GENERATED table) *)
Definition has_raw_clause (b : bound) : bool :=
  match b with
  | BNodeChild => node_child_boundary
  | BLib l => existsb (lib_eqb l) raw_boundaries
  end.

Definition site_load (ns : atom) (effects : list atom) (k : skind) (x : xml) : outcome unit :=
  match k with
  | KTransform => load_transform x
  | KMaterial => load_material ns effects x
  | KLight => load_light ns x
  | KCamera => load_camera ns x
  | KFloatSource => load_float_source ns x
  end.

(* what reaches handleError (and, unmasked, the caller of Collada(...)) *)
Definition guarded (ns : atom) (effects : list atom) (k : skind) (x : xml) : outcome unit :=
  match site_load ns effects k x with
  | Ok v => Ok v
  | Raise e =>
      if is_dae_gen e then Raise e
      else if has_raw_clause (boundary_of k) && is_rawload e then Raise DaeMalformed
      else Raise e
  end.

(* ======================================================================================
   Sites that were covered by the fault oracle only (no per-site correspondence is run for the
   definitions below: they follow the Python text and the classes observed by the fault
   enumeration; the proofs show that every class they raise is converted by their boundary). *)

Section MoreSites.
  Variable ns : atom.

  (* ---- Effect._loadShadingParam (material.py).  The <float> branch builds its message with
     `'...' + id` where `id` is the BUILT-IN function, so a bad token ends in a TypeError raised
     inside the except clause; a missing text is float(None): TypeError as well.  A <texture>
     without the texture attribute is `'Missing sampler ' + None`: TypeError; a texture that
     names no sampler is handled by Effect.load (property dropped / implicit sampler). *)
  Definition load_shading_param (x : xml) : outcome unit :=
    match xkids x with
    | [] => Raise DaeIncomplete
    | v :: _ =>
        if is_tag ns a_color v then
          match value_error_is_malformed (parse_color (xtext v)) with Ok _ => Ok tt | Raise e => Raise e end
        else if is_tag ns a_float v then
          match parse_float (xtext v) with
          | Ok _ => Ok tt
          | Raise _ => Raise PyTypeError
          end
        else if is_tag ns a_texture v then
          match xattr a_texture v with None => Raise PyTypeError | Some _ => Ok tt end
        else if is_tag ns a_param v then Ok tt
        else Raise DaeUnsupported
    end.

  (* ---- Primitive._getInputs / _getInputsFromList and TriangleSet.load for <triangles>.
     The scope of a mesh: source ids, and the <vertices> id with the sources its inputs name
     (None = a <vertices> input whose source does not exist: `'#' + None.id`). *)
  Inductive sentry := SSource | SVertices (srcs : list (option atom)).
  Definition pscope := list (atom * sentry).
  Fixpoint sget (sc : pscope) (a : atom) : option sentry :=
    match sc with [] => None | (k, v) :: r => if N.eqb k a then Some v else sget r a end.

  (* int(i.get('offset')) for every input, in order: a missing attribute is int(None) - TypeError,
     raised out of the list comprehension; a non-integer is a ValueError, caught -> DaeMalformed *)
  Fixpoint parse_offsets (ins : list xml) : outcome (list nat) :=
    match ins with
    | [] => Ok []
    | i :: r =>
        match xattr a_offset i with
        | None => Raise PyTypeError
        | Some (AInt z) => match parse_offsets r with
                           | Ok l => Ok (Z.to_nat z :: l)
                           | Raise e => Raise e
                           end
        | Some _ => Raise DaeMalformed
        end
    end.

  (* the passes of _getInputsFromList over one input *)
  Definition check_input (sc : pscope) (i : xml) : outcome unit :=
    match xattr a_source i with
    | None => Raise PyTypeError                            (* None[1:] *)
    | Some (ARef true s) =>
        match sget sc s with
        | Some (SVertices srcs) =>
            (* replaced by one entry per <vertices> input: '#' + source.id *)
            if forallb (fun o => match o with Some _ => true | None => false end) srcs then Ok tt
            else Raise PyAttributeError
        | Some SSource =>
            match xattr a_semantic i with
            | Some (AStr m) =>
                if existsb (N.eqb m) [a_VERTEX; a_NORMAL; a_TEXCOORD; a_TEXTANGENT; a_TEXBINORMAL; a_COLOR; a_TANGENT; a_BINORMAL]
                then Ok tt else Raise DaeUnsupported       (* through handleError *)
            | _ => Raise DaeUnsupported
            end
        | None => Raise DaeBrokenRef
        end
    | Some _ => Raise DaeMalformed                         (* no leading '#', or too short *)
    end.

  Fixpoint check_inputs (sc : pscope) (ins : list xml) : outcome unit :=
    match ins with
    | [] => Ok tt
    | i :: r => andthen (check_input sc i) (check_inputs sc r)
    end.

  Definition index_count (t : option (list tok)) : outcome nat :=
    match t with
    | None | Some [] => Ok O
    | Some ts => if forallb good_tok ts then Ok (length ts) else Raise DaeMalformed   (* except BaseException *)
    end.

  Definition load_triangles (sc : pscope) (x : xml) : outcome unit :=
    match findall ns a_p x with
    | [] => Raise DaeIncomplete
    | p :: _ =>
        let ins := findall ns a_input x in
        match parse_offsets ins with
        | Raise e => Raise e
        | Ok offs =>
            andthen (check_inputs sc ins)
              (match offs with
               | [] => Raise PyValueError                   (* max() of an empty sequence *)
               | _ =>
                   match index_count (xtext p) with
                   | Raise e => Raise e
                   | Ok n =>
                       let width := 3 * S (fold_right Nat.max O offs) in
                       if Nat.eqb (Nat.modulo n width) 0 then Ok tt else Raise DaeMalformed   (* reshape, since e70bc4e *)
                   end
               end)
        end
    end.
End MoreSites.

(* their boundaries: shading parameters are loaded inside Effect.load, i.e. the library_effects
   loop; primitives inside Geometry.load, i.e. the library_geometries loop *)
Definition guard_in (b : bound) {A} (o : outcome A) : outcome A :=
  match o with
  | Ok v => Ok v
  | Raise e =>
      if is_dae_gen e then Raise e
      else if has_raw_clause b && is_rawload e then Raise DaeMalformed
      else Raise e
  end.

Definition guarded_shading_param (ns : atom) (x : xml) : outcome unit :=
  guard_in (BLib LEffects) (load_shading_param ns x).
Definition guarded_triangles (ns : atom) (sc : pscope) (x : xml) : outcome unit :=
  guard_in (BLib LGeometry) (load_triangles ns sc x).
