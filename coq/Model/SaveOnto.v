(* C02 / C06 - what save() does to an element that ALREADY exists (attribute level), for the
   classes whose save() is a handful of attribute / optional-child updates, and the element a
   strip/fan-loaded triangle set is re-created as.  Uses the codecs of Model/Emit.v.  No proofs here.

     Material.save      set id, name; instance_effect.set('url', '#' + effect.id)
     Node.save          set id, name when not None (children: Model/Sync.v)
     NodeNode / GeometryNode / LightNode / CameraNode / ControllerNode .save
                        xmlnode.set('url', '#' + target.id)
     Camera.save        re-creates the element: the result is emit_camera, whatever was there
     Light.save (point / spot): _correctValInNode for each optional parameter of the kind *)
From Coq Require Import List Bool ZArith NArith.
From PC Require Import Base.Outcome Base.Atoms Base.Xml Model.Emit Model.Strips.
Import ListNotations.

Definition set_xattr (name : atom) (v : aval) (x : xml) : xml :=
  let 'El u n t a tx k := x in El u n t (set_attr name v a) tx k.

(* the first child with the tag is replaced by f of it (what `node.find(tag).set(...)` touches) *)
Fixpoint update_first (t : atom) (f : xml -> xml) (kids : list xml) : list xml :=
  match kids with
  | [] => []
  | c :: r => if is_tag ns t c then f c :: r else c :: update_first t f r
  end.

Definition save_material_onto (old : xml) (m : material) : xml :=
  let 'El u n t a tx k := set_xattr a_name (m_name m) (set_xattr a_id (m_id m) old) in
  El u n t a tx (update_first a_instance_effect (set_xattr a_url (ARef true (m_effect m))) k).

(* the instance elements: only the url is written *)
Definition save_instance_onto (old : xml) (url : atom) : xml := set_xattr a_url (ARef true url) old.

(* Node.save, attribute part *)
Definition save_node_attrs_onto (old : xml) (id name : option aval) : xml :=
  let x1 := match id with Some v => set_xattr a_id v old | None => old end in
  match name with Some v => set_xattr a_name v x1 | None => x1 end.

(* Camera.save re-creates its element *)
Definition save_camera_onto (old : xml) (c : camera) : xml := emit_camera c.

(* Light.save, optional parameters: one _correctValInNode per name of the kind, in order; `after`
   is the list of the names that precede it (where a new child is placed) *)
Fixpoint assoc_val (n : atom) (ps : list (atom * toks)) : option toks :=
  match ps with [] => None | (k, v) :: r => if N.eqb k n then Some v else assoc_val n r end.
Fixpoint apply_vals (done names : list atom) (ps : list (atom * toks)) (kids : list xml) : list xml :=
  match names with
  | [] => kids
  | n :: r => apply_vals (done ++ [n]) r ps (correct_val n (assoc_val n ps) (Some done) kids)
  end.

(* a triangle set loaded from <tristrips>/<trifans>: its index is the expansion of the <p> streams
   (Model/Strips.load_expand, C11); TriangleSet._recreateXmlNode writes it as <triangles> with the
   set's material and inputs, the number of triangles, and ONE <p> holding the index row by row *)
Definition flatten_tris (ts : list (tri toks)) : toks :=
  flat_map (fun t => let '(a, b, c) := t in a ++ b ++ c) ts.
Definition recreate_prim (material : option aval) (inputs : list input) (ts : list (tri toks)) : prim :=
  {| p_kind := KTriangles; p_material := material; p_count := Z.of_nat (length ts); p_inputs := inputs;
     p_vcount := None; p_ps := [flatten_tris ts] |}.
