(* C12 - scene traversal.
   MODEL: [objects] follows Node.objects / NodeNode.objects / the four instance nodes /
   Scene.objects; the matrices they pass on are the GENERATED definitions of
   Gen/Transforms.v (node_objects_matrix, node_children_matrix, instance_node_matrix,
   scene_root_matrix, *_node_matrix, *_node_kind).  Library nodes are embedded at their
   instantiation points (the loader resolves instance_node to the node object; C07).
   Bound primitives, the material table and look-up, lights, cameras and the skin's geometry
   matrix are the GENERATED definitions of Gen/Bound.v, selected by the binding class.
   SPEC: [paths] (pre-order list of root-to-leaf instance paths), the product of the
   matrices down a path, R.v + t and R.n through [mapply], the last binding of a symbol. *)
From Coq Require Import List Bool ZArith NArith.
From PC Require Import Base.Py Base.Mat Gen.Transforms Gen.Bound.
Import ListNotations.

Section Traverse.
  Variable R : Type.
  Variable O : ops R.

  Notation matR := (mat R).
  Definition binds : Type := list (N * N).          (* (symbol, material id), document order *)

  Inductive snode : Type :=
  | SNode (own : matR) (children : list snode)      (* <node>: its matrix, its non-transform children *)
  | SInst (target : snode)                          (* <instance_node>: the node it refers to *)
  | SGeom (g : N) (b : binds)
  | SCtrl (c : N) (b : binds)
  | SLight (l : N)
  | SCam (c : N)
  | SExtra.                                         (* <extra>: never yields for the four kinds *)

  (* what a traversal yields: kind, instantiated object, matrix bound with, material bindings *)
  Definition bound : Type := (nat * N * matR * binds)%type.

  (* ---- MODEL *)
  Fixpoint objects (k : nat) (m : option matR) (n : snode) : list bound :=
    match n with
    | SNode own ch =>
        let down := node_children_matrix O m own in
        (fix go (l : list snode) : list bound :=
           match l with
           | [] => []
           | c :: r => objects k down c ++ go r
           end) ch
    | SInst t => objects k (instance_node_matrix m) t
    | SGeom g b => if Nat.eqb k geometry_node_kind then [(k, g, geometry_node_matrix O m, b)] else []
    | SCtrl c b => if Nat.eqb k controller_node_kind then [(k, c, controller_node_matrix O m, b)] else []
    | SCam c => if Nat.eqb k camera_node_kind then [(k, c, camera_node_matrix O m, [])] else []
    | SLight l => if Nat.eqb k light_node_kind then [(k, l, light_node_matrix O m, [])] else []
    | SExtra => []
    end.

  Definition scene_objects (k : nat) (nodes : list snode) : list bound :=
    flat_map (objects k scene_root_matrix) nodes.

  (* ---- SPEC *)
  Inductive leaf : Type := LGeom (g : N) (b : binds) | LCtrl (c : N) (b : binds) | LLight (l : N) | LCam (c : N).
  Definition leaf_kind (l : leaf) : nat :=
    match l with LGeom _ _ => 0 | LCtrl _ _ => 1 | LCam _ => 2 | LLight _ => 3 end.
  Definition leaf_target (l : leaf) : N := match l with LGeom g _ | LCtrl g _ | LLight g | LCam g => g end.
  Definition leaf_binds (l : leaf) : binds := match l with LGeom _ b | LCtrl _ b => b | _ => [] end.
  Definition path : Type := (list matR * leaf)%type.   (* node matrices from the root down, then the instance *)

  Fixpoint paths (n : snode) : list path :=
    match n with
    | SNode own ch =>
        map (fun p : path => (own :: fst p, snd p))
            ((fix go (l : list snode) : list path :=
                match l with
                | [] => []
                | c :: r => paths c ++ go r
                end) ch)
    | SInst t => paths t
    | SGeom g b => [([], LGeom g b)]
    | SCtrl c b => [([], LCtrl c b)]
    | SLight l => [([], LLight l)]
    | SCam c => [([], LCam c)]
    | SExtra => []
    end.
  Definition scene_paths (nodes : list snode) : list path := flat_map paths nodes.

  Definition path_matrix (p : path) : matR := mprod (o0 O) (o1 O) (oadd O) (omul O) (fst p).
  Definition bind_path (p : path) : bound :=
    (leaf_kind (snd p), leaf_target (snd p), path_matrix p, leaf_binds (snd p)).
  Definition spec_objects (k : nat) (nodes : list snode) : list bound :=
    map bind_path (filter (fun p => Nat.eqb (leaf_kind (snd p)) k) (scene_paths nodes)).

  (* ---- bound primitives, materials, lights, cameras, skins: the GENERATED definitions of Gen/Bound.v
     (re-emitted from triangleset.py, polylist.py, lineset.py, light.py, camera.py, controller.py and
     the instance nodes of scene.py on every run), selected by the class that does the binding.
     Primitive class: 0 BoundTriangleSet, 1 BoundPolylist (BoundPolygons inherits it), 2 BoundLineSet. *)
  Definition bound_vertex (pk : nat) (matrix : matR) (v : vec3 R) : vec3 R :=
    match pk with
    | 0%nat => triangleset_bound_vertex O matrix v
    | 1%nat => polylist_bound_vertex O matrix v
    | _ => lineset_bound_vertex O matrix v
    end.
  Definition bound_normal (pk : nat) (matrix : matR) (n : vec3 R) : vec3 R :=
    match pk with
    | 0%nat => triangleset_bound_normal O matrix n
    | 1%nat => polylist_bound_normal O matrix n
    | _ => lineset_bound_normal O matrix n
    end.

  (* the table GeometryNode.objects / ControllerNode.objects (ctrl) build, then the primitive's look-up *)
  Definition material_of (ctrl : bool) (pk : nat) (b : binds) (symbol : N) : option N :=
    let table := if ctrl then controller_node_material_table b else geometry_node_material_table b in
    match pk with
    | 0%nat => triangleset_material table symbol
    | 1%nat => polylist_material table symbol
    | _ => lineset_material table symbol
    end.
  (* SPEC: the last binding of that symbol on the instance, else None *)
  Definition last_binding (b : binds) (symbol : N) : option N :=
    match find (fun sm => N.eqb symbol (fst sm)) (rev b) with
    | Some sm => Some (snd sm)
    | None => None
    end.

  (* (position, direction, up) as each class defines them; None where the class has no such attribute.
     Light class: 0 BoundPointLight, 1 BoundDirectionalLight, 2 BoundSpotLight, 3 BoundAmbientLight *)
  Definition bound_light (kind : nat) (pos dir : vec3 R) (M : matR)
    : option (vec3 R) * option (vec3 R) * option (vec3 R) :=
    match kind with
    | 0%nat => (Some (point_light_position O M pos), None, None)
    | 1%nat => (None, Some (directional_light_direction O M dir), None)
    | 2%nat => (Some (spot_light_position O M), Some (spot_light_direction O M), Some (spot_light_up O M))
    | _ => (None, None, None)
    end.
  (* camera class: 0 BoundPerspectiveCamera, 1 BoundOrthographicCamera *)
  Definition bound_camera (ck : nat) (M : matR) : vec3 R * vec3 R * vec3 R :=
    match ck with
    | 0%nat => (perspective_camera_position O M, perspective_camera_direction O M, perspective_camera_up O M)
    | _ => (orthographic_camera_position O M, orthographic_camera_direction O M, orthographic_camera_up O M)
    end.
  (* the matrix a bound skin binds its geometry with *)
  Definition skin_matrix (M bind_shape : matR) : matR := skin_geometry_matrix O M bind_shape.
End Traverse.

Arguments SNode {R}. Arguments SInst {R}. Arguments SGeom {R}. Arguments SCtrl {R}.
Arguments SLight {R}. Arguments SCam {R}. Arguments SExtra {R}.
Arguments objects {R}. Arguments scene_objects {R}. Arguments paths {R}. Arguments scene_paths {R}.
Arguments path_matrix {R}. Arguments bind_path {R}. Arguments spec_objects {R}.
Arguments bound_vertex {R}. Arguments bound_normal {R}.
Arguments bound_light {R}. Arguments bound_camera {R}. Arguments skin_matrix {R}.
