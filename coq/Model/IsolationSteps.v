(* C20 - a concrete two-level state and concrete step functions.

   G (module level): the ElementTree namespace registry (uri -> prefix), the namespace of the
   module-level element factory E, class-level defaults (attribute -> value).
   D (one document): the ignore mask, the recorded errors (both from the C08 family's
   Model.Errors), the namespace the document's tagger closes over, the ids in its libraries.

   MODEL of the steps (collada/__init__.py, common.py, xmlutil.py, material.py as in /repo):
     ignoreErrors(args)    : mask := Errors.ignore_errors mask args
     handleError(e)        : Errors.handle - record e, report whether it is re-raised
     load's tagger         : self.tag := tagger(namespace)
     self.tag(text)        : '{ns}text' from the document's own namespace
     made-up ids           : the surface created for an effect that names an image directly is
                             '<image id>-surface' - derived from the document's own id
     E(tag)                : an element in the factory's namespace (reads G)
     written prefix        : what prefix the serializer uses for the document's namespace:
                             the registry's entry, else a generated one (reads G)
     class default         : e.g. Polylist._triangleset (reads G)
   Every step is a function  G -> D -> D * output : it cannot write G or another document.
   [lift] turns such a step function into a whole-state transition of Model/Isolation.v. *)
From Coq Require Import List Bool Arith NArith.
From PC Require Import Base.Outcome Base.Py Base.Libs Gen.Params Model.Errors Model.Isolation.
Import ListNotations.

Record cglobal := CG {
  g_nsmap : list (N * N);          (* xml.etree.ElementTree._namespace_map *)
  g_factory_ns : N;                (* collada.common.E's namespace *)
  g_defaults : list (N * N);       (* class-level defaults *)
  g_semantics : list N;            (* collada.source.InputList.semantics: one list for the whole process *)
  g_reclimit : nat;                (* sys.getrecursionlimit() *)
  g_nperr : bool                   (* numpy.geterr(): true = invalid/divide raise, false = warn/ignore *)
}.

Record cdocst := CD {
  dm_mask : mask;
  dm_errors : list exn;
  dm_ns : N;                       (* namespace of the document's tagger *)
  dm_ids : list N
}.

Inductive cop :=
| OIgnore (a : iarg)
| OHandle (e : exn)
| OSetTagger (ns : N)
| OTag (text : N)
| OMakeSurface (image_id : N)
| OElement (tag : N)
| OWrittenPrefix
| OClassDefault (attr : N)
| OAddInput (sem : N)              (* InputList().addInput(offset, sem, source) on a fresh InputList *)
| OLoadNested (depth : nat)        (* loading `depth` nested <node>s: two frames per level *)
| ODegenerate.                     (* a computation that divides by zero (face normal of a zero-area triangle) *)

Inductive cout :=
| UNone
| URaised (e : option exn)
| UQName (ns text : N)
| UId (i : N)
| UPrefix (p : option N)
| UDefault (v : option N)
| UAccepted (b : bool)
| UValue (nan : bool).

Definition nget := @dget N N N.eqb.

(* '<id>-surface': an injective renaming inside the document's own id space *)
Definition surface_id (image_id : N) : N := (2 * image_id + 1)%N.

Definition dstep (o : cop) (g : cglobal) (d : cdocst) : cdocst * cout :=
  match o with
  | OIgnore a => (CD (ignore_errors (dm_mask d) a) (dm_errors d) (dm_ns d) (dm_ids d), UNone)
  | OHandle e => let '(errs, ab) := handle (dm_mask d) (dm_errors d) e in
                 (CD (dm_mask d) errs (dm_ns d) (dm_ids d), URaised ab)
  | OSetTagger ns => (CD (dm_mask d) (dm_errors d) ns (dm_ids d), UNone)
  | OTag text => (d, UQName (dm_ns d) text)
  | OMakeSurface i => (CD (dm_mask d) (dm_errors d) (dm_ns d) (dm_ids d ++ [surface_id i]), UId (surface_id i))
  | OElement t => (d, UQName (g_factory_ns g) t)
  | OWrittenPrefix => (d, UPrefix (nget (g_nsmap g) (dm_ns d)))
  | OClassDefault a => (d, UDefault (nget (g_defaults g) a))
  | OAddInput sem => (d, UAccepted (existsb (N.eqb sem) (g_semantics g)))     (* else DaeUnsupportedError *)
  | OLoadNested depth => (d, URaised (if Nat.ltb (2 * depth) (g_reclimit g) then None else Some PyOther))
  | ODegenerate => (d, if g_nperr g then URaised (Some PyOther) else UValue true)
  end.

Section Lift.
  Variables G D O op : Type.
  Variable step : op -> G -> D -> D * O.
  Definition lift (o : op) (i : nat) (s : state G D) : state G D * O :=
    let '(d', out) := step o (fst s) (snd s i) in ((fst s, upd_doc (snd s) i d'), out).

  (* one document alone: its operations applied one after the other *)
  Fixpoint solo (g : G) (d : D) (os : list op) : D * list O :=
    match os with
    | [] => (d, [])
    | o :: r => let '(d1, out) := step o g d in let '(d2, outs) := solo g d1 r in (d2, out :: outs)
    end.
End Lift.
Arguments lift {G D O op} step o i s.
Arguments solo {G D O op} step g d os.

Definition cgstep := lift dstep.

(* what a document's own operation sequence does to its mask and its error list *)
Fixpoint own_ignores (os : list cop) : list iarg :=
  match os with [] => [] | OIgnore a :: r => a :: own_ignores r | _ :: r => own_ignores r end.
Fixpoint own_handled (os : list cop) : list exn :=
  match os with [] => [] | OHandle e :: r => e :: own_handled r | _ :: r => own_handled r end.
Fixpoint own_made (os : list cop) : list N :=
  match os with [] => [] | OMakeSurface i :: r => surface_id i :: own_made r | _ :: r => own_made r end.

(* a step that breaks the shape: made-up ids numbered from a module-level counter *)
Definition leaky_counter_step (o : cop) (i : nat) (s : state (cglobal * N) cdocst) : state (cglobal * N) cdocst * cout :=
  match o with
  | OMakeSurface im =>
      let n := snd (fst s) in
      let d := snd s i in
      let id := (1000 * im + n)%N in
      (((fst (fst s), (n + 1)%N), upd_doc (snd s) i (CD (dm_mask d) (dm_errors d) (dm_ns d) (dm_ids d ++ [id]))), UId id)
  | _ => let '(d', out) := dstep o (fst (fst s)) (snd s i) in ((fst s, upd_doc (snd s) i d'), out)
  end.

(* a step that breaks the shape: taking an input list registers a foreign semantic in the class-level
   list (seeded change C20-em3) *)
Definition leaky_semantics_step (o : cop) (i : nat) (s : state cglobal cdocst) : state cglobal cdocst * cout :=
  match o with
  | OTag sem =>      (* stands for getInputList() on a primitive carrying the foreign semantic sem *)
      let g := fst s in
      ((CG (g_nsmap g) (g_factory_ns g) (g_defaults g) (sem :: g_semantics g) (g_reclimit g) (g_nperr g), snd s), UNone)
  | _ => let '(d', out) := dstep o (fst s) (snd s i) in ((fst s, upd_doc (snd s) i d'), out)
  end.
