(* MODEL of collada.triangleset._extendFromStrip / _extendFromFan and of the per-<p> loop of
   TriangleSet.load (the code as it stands in /repo), and the declarative SPEC of C11 for
   strips and fans.  The slice bounds come from Gen/Strips.v, which is regenerated from the
   Python source on every build.

   A "row" is one vertex of the primitive: the tuple of the indices of all its inputs
   (index.reshape((-1, max_offset+1))[i]).  The functions are polymorphic in the row type:
   they can only move rows around. *)
From Coq Require Import List Bool ZArith Arith.
From PC Require Import Base.Outcome Base.Py Base.PySlice Base.NpProg Gen.Strips Gen.Triangulate.
Import ListNotations.
Local Open Scope nat_scope.

Definition tri (A : Type) := (A * A * A)%type.
Definition tri_map {A B} (f : A -> B) (t : tri A) : tri B :=
  let '(a, b, c) := t in (f a, f b, f c).

Fixpoint zip3 {A} (x y z : list A) : list (tri A) :=
  match x, y, z with
  | a :: x', b :: y', c :: z' => (a, b, c) :: zip3 x' y' z'
  | _, _, _ => []
  end.

(* numpy.array([X, Y, Z]).swapaxes(0, 1)  and  numpy.concatenate((X, Y, Z), 1)  of three
   blocks of rows: triangle i is (X[i], Y[i], Z[i]); blocks of different lengths are a
   ValueError *)
Definition stack3 {A} (x y z : list A) : outcome (list (tri A)) :=
  if Nat.eqb (length x) (length y) && Nat.eqb (length y) (length z)
  then Ok (zip3 x y z) else Raise PyValueError.

Definition slices3 {A} (g : slice3) (l : list A) : outcome (list (tri A)) :=
  let '(s1, s2, s3) := g in stack3 (pyslice1 s1 l) (pyslice1 s2 l) (pyslice1 s3 l).

(* _extendFromStrip: two blocks are appended to the index list *)
Definition extend_strip {A} (rows : list A) : outcome (list (list (tri A))) :=
  obind (slices3 strip_first rows) (fun c1 =>
  obind (slices3 strip_second rows) (fun c2 => Ok [c1; c2])).

(* _extendFromFan: one block *)
Definition extend_fan {A} (rows : list A) : outcome (list (list (tri A))) :=
  obind (np_repeat_scalar (pyslice1 fan_centre rows) (fan_count (Z.of_nat (length rows)))) (fun r =>
  obind (stack3 r (pyslice1 fan_b rows) (pyslice1 fan_c rows)) (fun c => Ok [c])).

Definition strip {A} (rows : list A) : outcome (list (tri A)) := omap (@concat _) (extend_strip rows).
Definition fan {A} (rows : list A) : outcome (list (tri A)) := omap (@concat _) (extend_fan rows).

(* ---- index.reshape((-1, k)) of a flat stream *)
Fixpoint chunk_fuel {A} (fuel k : nat) (l : list A) : list (list A) :=
  match fuel with
  | O => []
  | S f => match l with
           | [] => []
           | _ => firstn k l :: chunk_fuel f k (skipn k l)
           end
  end.
Definition chunk {A} (k : nat) (l : list A) : list (list A) := chunk_fuel (length l) k l.

Definition reshape {A} (k : nat) (l : list A) : outcome (list (list A)) :=
  if Nat.eqb k 0 then Raise PyValueError
  else if Nat.eqb (length l mod k) 0 then Ok (chunk k l) else Raise PyValueError.

(* ---- TriangleSet.load for <tristrips> / <trifans> (iteration order, reshape width, concatenation
   order and the tag -> function table are those of Gen/Triangulate.v): every <p> is reshaped to
   rows of load_cols(max_offset) indices, expanded on its own by _indexExtendFunctions[tag], the
   blocks are concatenated; any exception inside the loop becomes DaeMalformedError; no <p> at
   all is DaeIncompleteError *)
Inductive kind := KStrips | KFans.

Definition ext_of (kd : kind) : ext_fn :=
  match kd with KStrips => load_tristrips | KFans => load_trifans end.

Definition extend {A} (kd : kind) (rows : list A) : outcome (list (list (tri A))) :=
  match ext_of kd with
  | EStrip => extend_strip rows
  | EFan => extend_fan rows
  | ENone => Raise PyOther      (* the <triangles> path (first <p> only); not the subject of C11 *)
  end.

Fixpoint load_loop {A} (kd : kind) (k : nat) (ps : list (list A)) (indexlist : list (list (tri (list A))))
  : outcome (list (list (tri (list A)))) :=
  match ps with
  | [] => Ok indexlist
  | p :: r => obind (reshape k p) (fun rows =>
              obind (extend kd rows) (fun blocks => load_loop kd k r (indexlist ++ blocks)))
  end.

Definition load_expand {A} (kd : kind) (max_offset : nat) (ps : list (list A)) : outcome (list (tri (list A))) :=
  match ps with
  | [] => Raise DaeIncomplete
  | _ => match load_loop kd (Z.to_nat (load_cols (Z.of_nat max_offset)))
                         (if load_iter_reversed then rev ps else ps) [] with
         | Ok il => Ok (concat (if load_concat_reversed then rev il else il))
         | Raise _ => Raise DaeMalformed
         end
  end.

(* ------------------------------------------------------------------ SPEC *)

(* strip of n vertices, on the labels 0..n-1: triangle k = (k, k+1, k+2), with the first two
   corners swapped for odd k; even-numbered triangles first, then the odd-numbered ones (the
   property fixes the set and the winding; the order is the one the code produces) *)
Definition strip_tri (k : nat) : tri nat :=
  if Nat.even k then (k, k + 1, k + 2) else (k + 1, k, k + 2).
Definition strip_spec (n : nat) : list (tri nat) :=
  map strip_tri (filter Nat.even (seq 0 (n - 2))) ++ map strip_tri (filter Nat.odd (seq 0 (n - 2))).

(* fan of n vertices around its first vertex *)
Definition fan_spec (n : nat) : list (tri nat) := map (fun k => (0, k + 1, k + 2)) (seq 0 (n - 2)).

Definition expand_spec (kd : kind) (n : nat) : list (tri nat) :=
  match kd with KStrips => strip_spec n | KFans => fan_spec n end.

(* the rows addressed by label triangles *)
Definition at_rows {A} (d : A) (rows : list A) (ts : list (tri nat)) : list (tri A) :=
  map (tri_map (fun k => nth k rows d)) ts.
