(* C01 (optional part b) - exact definitions over Z of the two runtime operations behind the
   numeric oracle of Base/Num.v:

     fmt7    '%.7g' % x      : the exact binary value of x rounded half-even to seven
                               significant decimal digits (its VALUE: D * 10^q with
                               10^6 <= D < 10^7 or D = 0; notation and zero stripping do
                               not matter to the parser)
     parse32 float32(float(t)): the decimal rounded half-even to binary64, then half-even
                               to binary32 (the double rounding is what the runtime does)

   A finite binary number is (neg, m, e) = (-1)^neg * m * 2^e.  Domain: 0 or 1e-30 <= |x| < 1e9
   (no subnormals, no overflow).  No proofs here: the definitions are compared bit-exactly with
   the runtime on 20 000 values per run (Check/C01num.v), including the instance of
   H_num_stable on each of them. *)
From Coq Require Import ZArith Bool.
Open Scope Z_scope.

(* round-half-even of num/den (num >= 0, den > 0) *)
Definition div_half_even (num den : Z) : Z :=
  let q := num / den in
  let r := num mod den in
  match 2 * r ?= den with
  | Lt => q
  | Gt => q + 1
  | Eq => if Z.even q then q else q + 1
  end.

(* value m*2^e / 10^s as a fraction *)
Definition frac (m e s : Z) : Z * Z :=
  let n1 := if 0 <=? e then m * 2 ^ e else m in
  let d1 := if 0 <=? e then 1 else 2 ^ (- e) in
  if 0 <=? s then (n1, d1 * 10 ^ s) else (n1 * 10 ^ (- s), d1).

(* floor(log10 (m*2^e)) for m > 0: search upward from a safe under-estimate *)
Fixpoint find_k (fuel : nat) (m e k : Z) : Z :=
  match fuel with
  | O => k
  | S f =>
      let '(n, d) := frac m e (k + 1) in     (* x / 10^(k+1) < 1 ? *)
      if n <? d then k else find_k f m e (k + 1)
  end.

Definition log10_floor (m e : Z) : Z :=
  (* log2 x is in [lg, lg+1) with lg = log2 m + e;  log10 x = log2 x * 0.30103 *)
  let lg := Z.log2 m + e in
  let k0 := (lg * 30102) / 100000 - 2 in
  find_k 8 m e k0.

(* '%.7g': (D, q) with value D * 10^q *)
Definition fmt7 (m e : Z) : Z * Z :=
  if m =? 0 then (0, 0)
  else
    let k := log10_floor m e in
    let '(n, d) := frac m e (k - 6) in
    let D := div_half_even n d in
    if D =? 10000000 then (1000000, k - 5) else (D, k - 6).

(* num/den (both > 0) rounded half-even to p significant bits: (M, E), 2^(p-1) <= M < 2^p *)
Definition scaled (num den s : Z) : Z * Z :=
  if 0 <=? s then (num, den * 2 ^ s) else (num * 2 ^ (- s), den).

Definition round_bits (num den p : Z) : Z * Z :=
  let s0 := Z.log2 num - Z.log2 den - (p - 1) in
  (* the true exponent is s0 or s0 - 1 or s0 + 1 *)
  let pick s := let '(n, d) := scaled num den s in n / d in
  let s := if pick s0 <? 2 ^ (p - 1) then s0 - 1 else if 2 ^ p <=? pick s0 then s0 + 1 else s0 in
  let '(n, d) := scaled num den s in
  let M := div_half_even n d in
  if M =? 2 ^ p then (2 ^ (p - 1), s + 1) else (M, s).

(* float32(float("D e q")) for D > 0 *)
Definition parse32 (D q : Z) : Z * Z :=
  if D =? 0 then (0, 0)
  else
    let num := if 0 <=? q then D * 10 ^ q else D in
    let den := if 0 <=? q then 1 else 10 ^ (- q) in
    let '(M53, E53) := round_bits num den 53 in
    let num2 := if 0 <=? E53 then M53 * 2 ^ E53 else M53 in
    let den2 := if 0 <=? E53 then 1 else 2 ^ (- E53) in
    round_bits num2 den2 24.

Definition norm (m e : Z) : Z * Z := let '(D, q) := fmt7 m e in parse32 D q.
