(* MODEL of the error machinery of collada.Collada (the code as it stands in /repo after the
   fix: commits 4ee6b87, 2845a38, 4065aeb):

     handleError(error):   self.errors.append(error)
                           if not any(isinstance(error, m) for m in self.maskedErrors): raise
     ignoreErrors(args...):  if args == (None,): mask = []  else: mask += args
     every library loop:   for item in ...:
                               try:    v = Loader.load(self, {}, item)
                               except DaeError as ex:          self.handleError(ex)
                               except DaeRawLoadErrors as ex:  self.handleRawLoadError(what, ex)
                               else:   self.<lib>.append(v)
     Node.load child loop: the same try/except around every child, plus the non-DaeError
                           DaeInstanceNotLoadedError which nothing here catches.

   The class hierarchy ([dcls_base]) is GENERATED from collada/common.py (Gen/Params.v).
   SPEC definitions ([successes], [failures]) are at the end.  No proofs here. *)
From Coq Require Import List Bool.
From PC Require Import Base.Outcome Base.Libs Gen.Params.
Import ListNotations.

(* issubclass(c, m) inside the DaeError family: walk the generated direct-base map *)
Fixpoint subclass_fuel (n : nat) (c m : dcls) : bool :=
  dcls_eqb c m ||
  match n with
  | O => false
  | S n' => match dcls_base c with None => false | Some b => subclass_fuel n' b m end
  end.
Definition subclass (c m : dcls) : bool := subclass_fuel (length all_dcls) c m.

(* the class of a raised exception, if it belongs to the DaeError family *)
Definition class_of (e : exn) : option dcls :=
  match e with
  | DaeIncomplete => Some K_DaeIncompleteError | DaeBrokenRef => Some K_DaeBrokenRefError
  | DaeMalformed => Some K_DaeMalformedError | DaeUnsupported => Some K_DaeUnsupportedError
  | DaeSaveValidation => Some K_DaeSaveValidationError | DaeOther => Some K_DaeError
  | _ => None
  end.

(* isinstance(error, DaeError): decided through the generated hierarchy *)
Definition is_dae_gen (e : exn) : bool :=
  match class_of e with Some c => subclass c K_DaeError | None => false end.

(* what a user may put into the mask: a class of the family, a class of his own deriving from
   one of them (no library error is ever an instance of it), or an unrelated built-in class *)
Inductive mentry := MCls (k : dcls) | MUserSub (parent : dcls) | MBuiltin.
Definition mask := list mentry.

Definition entry_matches (e : exn) (m : mentry) : bool :=
  match m, class_of e with
  | MCls k, Some c => subclass c k
  | _, _ => false
  end.

(* any(isinstance(error, m) for m in maskedErrors) *)
Definition masked (mk : mask) (e : exn) : bool := existsb (entry_matches e) mk.

(* ignoreErrors *)
Inductive iarg := IClear | IAdd (ms : list mentry).
Definition ignore_errors (mk : mask) (a : iarg) : mask :=
  match a with IClear => [] | IAdd ms => mk ++ ms end.
Definition run_ignore (mk : mask) (ops : list iarg) : mask := fold_left ignore_errors ops mk.

(* handleError: record, then re-raise unless masked *)
Definition handle (mk : mask) (errs : list exn) (e : exn) : list exn * option exn :=
  (errs ++ [e], if masked mk e then None else Some e).

(* isinstance(e, c) for the built-in classes (the fragment of Python's hierarchy that matters:
   IndexError and KeyError derive from LookupError, everything from Exception) *)
Definition py_isinstance (e : exn) (c : pycls) : bool :=
  match c, e with
  | PC_Exception, OutOfFuel => false
  | PC_Exception, _ => true
  | PC_ValueError, PyValueError | PC_TypeError, PyTypeError | PC_AttributeError, PyAttributeError
  | PC_IndexError, PyIndexError | PC_KeyError, PyKeyError
  | PC_LookupError, PyIndexError | PC_LookupError, PyKeyError => true
  | _, _ => false
  end.

(* except DaeRawLoadErrors: the tuple is GENERATED from collada/common.py (Gen/Params.v) *)
Definition is_rawload (e : exn) : bool :=
  negb (is_dae e) && existsb (py_isinstance e) raw_load_errors.

(* the two except clauses of a load boundary: which exception is handed to handleError *)
Definition catch (e : exn) : option exn :=
  if is_dae_gen e then Some e else if is_rawload e then Some DaeMalformed else None.

Section LoadLib.
  Context {Item Val : Type}.
  Variable load_item : Item -> outcome Val.
  Variable mk : mask.

  (* one library loop.  Result: objects appended, errors recorded, exception that escaped *)
  Fixpoint load_lib (items : list Item) (vals : list Val) (errs : list exn)
    : list Val * list exn * option exn :=
    match items with
    | [] => (vals, errs, None)
    | it :: rest =>
        match load_item it with
        | Ok v => load_lib rest (vals ++ [v]) errs
        | Raise e =>
            match catch e with
            | None => (vals, errs, Some e)
            | Some e' =>
                let '(errs', ab) := handle mk errs e' in
                match ab with
                | Some x => (vals, errs', Some x)
                | None => load_lib rest vals errs'
                end
            end
        end
    end.

  (* SPEC side *)
  Definition successes (items : list Item) : list Val :=
    flat_map (fun it => match load_item it with Ok v => [v] | Raise _ => [] end) items.
  Definition failures (items : list Item) : list exn :=
    flat_map (fun it => match load_item it with
                        | Ok _ => []
                        | Raise e => match catch e with Some e' => [e'] | None => [e] end
                        end) items.
  Definition catchable_all (items : list Item) : Prop :=
    forall it e, In it items -> load_item it = Raise e -> catch e <> None.
End LoadLib.

(* The per-child loop of Node.load: a child loads, raises, or signals "instance_node target not
   loaded yet" (DaeInstanceNotLoadedError - not a DaeError, not a raw load error: it unwinds). *)
Inductive cres (Val : Type) := COk (v : Val) | CRaise (e : exn) | CDefer.
Arguments COk {Val} v.
Arguments CRaise {Val} e.
Arguments CDefer {Val}.

Inductive cstatus := SDone | SAbort (e : exn) | SDefer.

Section LoadChildren.
  Context {Child Val : Type}.
  Variable load_child : Child -> cres Val.
  Variable mk : mask.

  Fixpoint load_children (cs : list Child) (vals : list Val) (errs : list exn)
    : list Val * list exn * cstatus :=
    match cs with
    | [] => (vals, errs, SDone)
    | c :: rest =>
        match load_child c with
        | COk v => load_children rest (vals ++ [v]) errs
        | CDefer => (vals, errs, SDefer)
        | CRaise e =>
            match catch e with
            | None => (vals, errs, SAbort e)
            | Some e' =>
                let '(errs', ab) := handle mk errs e' in
                match ab with
                | Some x => (vals, errs', SAbort x)
                | None => load_children rest vals errs'
                end
            end
        end
    end.

  Definition child_successes (cs : list Child) : list Val :=
    flat_map (fun c => match load_child c with COk v => [v] | _ => [] end) cs.
  Definition child_failures (cs : list Child) : list exn :=
    flat_map (fun c => match load_child c with
                       | CRaise e => match catch e with Some e' => [e'] | None => [e] end
                       | _ => []
                       end) cs.
End LoadChildren.

(* Reading the bytes: expat is not modelled; [parse] stands for it (None = ParseError).  The code
   maps a ParseError to DaeMalformedError with a direct raise - before any mask is consulted. *)
Section Parse.
  Context {Bytes Xml Doc : Type}.
  Variable parse : Bytes -> option Xml.
  Variable load_xml : Xml -> outcome Doc.
  Definition load_bytes (b : Bytes) : outcome Doc :=
    match parse b with None => Raise DaeMalformed | Some x => load_xml x end.
End Parse.
