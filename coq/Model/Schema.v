(* C04 - an executable XML Schema validator for the fragment of Model/SchemaSyntax.v.

   Content models are matched with Brzozowski derivatives of the regular expression that a
   particle denotes (occurrence ranges are unfolded), so acceptance is exact for the regular
   language of the content model - no appeal to the UPA rule is needed.  Every child is assessed
   against the type its declaration in the content model gives it; children matched by the lax
   wildcard are assessed against their global declaration when there is one and skipped
   (children assessed laxly in turn) otherwise - libxml2's behaviour.  Recursion through the
   type table is by fuel = size of the tree; running out of fuel makes the document invalid.

   MODEL only: no proofs here (Proofs/SchemaIncl.v). *)
From Coq Require Import List Bool ZArith NArith.
From PC Require Import Base.Atoms Base.Xml Model.SchemaSyntax.
Import ListNotations.

(* ---------------------------------------------------------------- simple values *)

Inductive vtok := VInt (z : Z) | VNum | VWord (a : atom) | VRef (a : atom).

Definition vtok_of_tok (t : tok) : vtok :=
  match t with TInt z => VInt z | TNum _ => VNum | TWord a => VWord a end.

Definition vals_of_aval (v : aval) : list vtok :=
  match v with
  | AStr a => [VWord a]
  | ARef true a => [VRef a]
  | ARef false a => [VWord a]
  | AInt z => [VInt z]
  end.

Definition vals_of_text (t : option (list tok)) : list vtok :=
  match t with None => [] | Some l => map vtok_of_tok l end.

Definition zle_opt (lo : option Z) (z : Z) := match lo with None => true | Some l => Z.leb l z end.
Definition zge_opt (hi : option Z) (z : Z) := match hi with None => true | Some h => Z.leb z h end.

Section Lex.
  Variable lex : atom -> N.     (* lexical-class bit mask of every atom of the document *)
  Definition flag (a : atom) (b : N) : bool := N.testbit (lex a) b.

  Fixpoint atom_ok (st : stype) (v : vtok) : bool :=
    match st with
    | SAnyString => true
    | SLex b =>
        match v with
        | VWord a => flag a b
        | VInt _ => N.eqb b lx_NMTOKEN || N.eqb b lx_anyURI
        | VNum => N.eqb b lx_anyURI
        | VRef a => N.eqb b lx_anyURI && flag a lx_fragURI
        end
    | SInt lo hi => match v with VInt z => zle_opt lo z && zge_opt hi z | _ => false end
    | SFloat => match v with VInt _ => true | VNum => true | VWord a => flag a lx_double | VRef _ => false end
    | SBool => match v with VWord a => flag a lx_boolean | VInt z => Z.eqb z 0 || Z.eqb z 1 | _ => false end
    | SEnum vals => match v with VWord a => existsb (N.eqb a) vals | _ => false end
    | SFragment => match v with VRef _ => true | VWord a => flag a lx_hash | _ => false end
    | SList _ _ _ => false
    | SUnion ms => (fix ex (l : list stype) : bool :=
                      match l with [] => false | m :: r => atom_ok m v || ex r end) ms
    end.

  Definition len_ok (n lo : nat) (hi : option nat) : bool :=
    Nat.leb lo n && match hi with None => true | Some h => Nat.leb n h end.

  Fixpoint val_ok (st : stype) (vs : list vtok) : bool :=
    match st with
    | SAnyString => true
    | SList it lo hi => len_ok (length vs) lo hi && forallb (atom_ok it) vs
    | SUnion ms => (fix ex (l : list stype) : bool :=
                      match l with [] => false | m :: r => val_ok m vs || ex r end) ms
    | _ => match vs with [v] => atom_ok st v | _ => false end
    end.
End Lex.

(* ---------------------------------------------------------------- content models *)

Inductive re : Type :=
  | RFail | REps
  | RSym (name : atom) (ty : N)
  | RAny
  | RCat (a b : re) | RAlt (a b : re) | RStar (a : re).

Definition cat (a b : re) : re :=
  match a, b with
  | RFail, _ => RFail
  | _, RFail => RFail
  | REps, _ => b
  | _, REps => a
  | _, _ => RCat a b
  end.

Definition alt (a b : re) : re :=
  match a, b with
  | RFail, _ => b
  | _, RFail => a
  | _, _ => RAlt a b
  end.

Fixpoint rpow (r : re) (n : nat) : re := match n with O => REps | S k => cat r (rpow r k) end.

(* r{mn,mx} *)
Definition occ (r : re) (mn : nat) (mx : option nat) : re :=
  match mx with
  | None => cat (rpow r mn) (RStar r)
  | Some m => if Nat.ltb m mn then RFail else cat (rpow r mn) (rpow (alt REps r) (m - mn))
  end.

Fixpoint re_of (p : particle) : re :=
  match p with
  | PElem n t mn mx => occ (RSym n t) mn mx
  | PSeq ps mn mx =>
      occ ((fix go (l : list particle) : re :=
              match l with [] => REps | q :: r => cat (re_of q) (go r) end) ps) mn mx
  | PChoice ps mn mx =>
      occ ((fix go (l : list particle) : re :=
              match l with [] => RFail | q :: r => alt (re_of q) (go r) end) ps) mn mx
  | PAny mn mx => occ RAny mn mx
  end.

Fixpoint nullable (r : re) : bool :=
  match r with
  | RFail => false | REps => true | RSym _ _ => false | RAny => false
  | RCat a b => nullable a && nullable b
  | RAlt a b => nullable a || nullable b
  | RStar _ => true
  end.

(* derivative by one child; [m n] says whether the child is the element named n of the
   target namespace *)
Fixpoint deriv (m : atom -> bool) (r : re) : re :=
  match r with
  | RFail => RFail | REps => RFail
  | RSym n _ => if m n then REps else RFail
  | RAny => REps
  | RCat a b => alt (cat (deriv m a) b) (if nullable a then deriv m b else RFail)
  | RAlt a b => alt (deriv m a) (deriv m b)
  | RStar a => cat (deriv m a) (RStar a)
  end.

(* the declaration a child is assessed against: Some (Some t) = the element declaration of
   that name in the content model (unique type by the "element declarations consistent" rule,
   which the translator checks), Some None = the lax wildcard, None = nothing matches *)
Fixpoint kid_ty (m : atom -> bool) (r : re) : option (option N) :=
  match r with
  | RFail => None | REps => None
  | RSym n t => if m n then Some (Some t) else None
  | RAny => Some None
  | RCat a b | RAlt a b =>
      match kid_ty m a, kid_ty m b with
      | Some (Some t), _ => Some (Some t)
      | _, Some (Some t) => Some (Some t)
      | Some None, _ => Some None
      | _, x => x
      end
  | RStar a => kid_ty m a
  end.

Fixpoint assoc {A} (k : atom) (l : list (atom * A)) : option A :=
  match l with [] => None | (k', v) :: r => if N.eqb k' k then Some v else assoc k r end.

Fixpoint find_use (n : atom) (l : list attruse) : option attruse :=
  match l with [] => None | u :: r => if N.eqb (au_name u) n then Some u else find_use n r end.

(* every attribute present is declared and valid; every required attribute is present *)
Definition attrs_ok_l (lex : atom -> N) (uses : list attruse) (x : xml) : bool :=
  forallb (fun nv : atom * aval =>
             match find_use (fst nv) uses with
             | Some u => val_ok lex (au_type u) (vals_of_aval (snd nv))
             | None => false
             end) (xattrs x) &&
  forallb (fun u => negb (au_req u) || match attr (au_name u) (xattrs x) with Some _ => true | None => false end)
          uses.

Definition text_empty (x : xml) : bool :=
  match xtext x with None => true | Some [] => true | Some (_ :: _) => false end.

Section Validate.
  Variable S : schema.
  Variable lex : atom -> N.

  Definition sym_match (k : xml) (n : atom) : bool := N.eqb (xns k) (s_tns S) && N.eqb (xtag k) n.

  (* the global declaration of an element, if any *)
  Definition glob (x : xml) : option N :=
    if N.eqb (xns x) (s_tns S) then assoc (xtag x) (s_globals S) else None.

  Definition attrs_ok (ct : ctype) (x : xml) : bool := attrs_ok_l lex (ct_attrs ct) x.

  (* children against a content model; [v] assesses one child against its declaration *)
  Fixpoint run_kids (v : option N -> xml -> bool) (r : re) (kids : list xml) : bool :=
    match kids with
    | [] => nullable r
    | k :: rest =>
        match kid_ty (sym_match k) r with
        | None => false
        | Some tyo => v tyo k && run_kids v (deriv (sym_match k) r) rest
        end
    end.

  (* [tyo] = Some t: assess against type t; None: lax assessment *)
  Fixpoint vel (fuel : nat) (tyo : option N) (x : xml) : bool :=
    match fuel with
    | O => false
    | Datatypes.S f =>
        match (match tyo with Some t => Some t | None => glob x end) with
        | None => forallb (vel f None) (xkids x)
        | Some t =>
            match nth_error (s_types S) (N.to_nat t) with
            | None => false
            | Some ct =>
                match ct_content ct with
                | CCut => false
                | CAnyType => forallb (vel f None) (xkids x)
                | CEmpty => attrs_ok ct x && text_empty x && match xkids x with [] => true | _ => false end
                | CSimple st => attrs_ok ct x && match xkids x with [] => true | _ => false end &&
                                val_ok lex st (vals_of_text (xtext x))
                | CElems p => attrs_ok ct x && text_empty x && run_kids (vel f) (re_of p) (xkids x)
                end
            end
        end
    end.

  (* ---- xs:ID uniqueness: the id attributes of the elements of the target namespace whose
     name the schema declares *)
  Fixpoint ids_of (x : xml) : list aval :=
    let 'El _ n t a _ k := x in
    (if N.eqb n (s_tns S) && existsb (N.eqb t) (s_names S)
     then match attr a_id a with Some v => [v] | None => [] end else []) ++
    (fix go (l : list xml) : list aval := match l with [] => [] | c :: r => ids_of c ++ go r end) k.

  Fixpoint nodup_b (l : list aval) : bool :=
    match l with [] => true | v :: r => negb (existsb (aval_eqb v) r) && nodup_b r end.

  Definition ids_unique (x : xml) : bool := nodup_b (ids_of x).

  Definition struct_valid (x : xml) : bool :=
    N.eqb (xns x) (s_tns S) && N.eqb (xtag x) (s_root S) &&
    match assoc (s_root S) (s_globals S) with
    | Some t => vel (xml_size x) (Some t) x
    | None => false
    end.

  Definition validate (x : xml) : bool := struct_valid x && ids_unique x.
End Validate.

(* the per-document lexical table as the harness writes it *)
Definition lex_of (tbl : list (atom * N)) (a : atom) : N :=
  match assoc a tbl with Some m => m | None => 0%N end.
