(* C20 - documents are isolated from one another: a FOOTPRINT model.

   The process state is a global part G (module-level element factory, the ElementTree
   namespace registry, class dictionaries and class-level defaults, function defaults,
   module globals) and one state per document.  A step (i, o) is an operation (load, edit,
   save, failed load, ...) of document i.

   MODEL: [gstep o i (g, ds)] is an arbitrary transition of the whole state; the footprint
   discipline (Section hypotheses in Proofs/Isolation.v) says it leaves G and every other
   document alone and that what it does to document i and what it returns depend on G and
   on document i only.
   SPEC: [project i sched] - the steps of document i alone, in their order.

   PARTIAL by design: CPython's bytecode-level scheduling is not modelled; the theorem covers
   every interleaving of steps that satisfy the discipline, and the discipline is MEASURED on
   the implementation on every run (Check/C20.v): a deep hash of the module-level state around
   every step, identity-disjointness of the documents' object graphs, and the observations of
   every document compared with a solo run in a fresh process. *)
From Coq Require Import List Arith Bool.
Import ListNotations.

Section Schedules.
  Variables G D O op : Type.
  Definition docs := nat -> D.
  Definition state := (G * docs)%type.
  Variable gstep : op -> nat -> state -> state * O.

  (* a schedule: which document does which operation, in global order *)
  Definition sched := list (nat * op).

  (* final state and the outputs, each tagged with its document *)
  Fixpoint run (s : state) (sc : sched) : state * list (nat * O) :=
    match sc with
    | [] => (s, [])
    | (i, o) :: r => let '(s1, out) := gstep o i s in
                     let '(s2, outs) := run s1 r in (s2, (i, out) :: outs)
    end.

  Definition project (i : nat) (sc : sched) : sched := filter (fun x => Nat.eqb (fst x) i) sc.

  Definition outputs_of (i : nat) (outs : list (nat * O)) : list O :=
    map snd (filter (fun x => Nat.eqb (fst x) i) outs).

  (* sc is an interleaving of the per-document sequences seqs *)
  Definition interleaving (seqs : nat -> list op) (sc : sched) : Prop :=
    forall i, map snd (project i sc) = seqs i.
End Schedules.

Arguments run {G D O op} gstep s sc.
Arguments project {op} i sc.
Arguments outputs_of {O} i outs.
Arguments interleaving {op} seqs sc.

(* ---- a concrete instance for the non-vacuity example: G is the namespace registry (a
   number), a document is (namespace, ids, recorded errors); operations load / edit / save /
   failing load.  Every step reads G and its own document only. *)
Definition tdoc := (nat * list nat * list nat)%type.
Inductive top := TLoad (ns : nat) (ids : list nat) | TEdit (id : nat) | TSave | TFail (code : nat).

Definition tstep_doc (g : nat) (o : top) (d : tdoc) : tdoc * list nat :=
  let '(ns, ids, errs) := d in
  match o with
  | TLoad ns' ids' => ((ns', ids', []), [ns'])
  | TEdit id => ((ns, id :: ids, errs), [])
  | TSave => (d, (if Nat.eqb ns g then 0 else ns) :: ids)     (* the written prefix depends on G and the own namespace *)
  | TFail c => ((ns, ids, c :: errs), [c])
  end.

Definition upd_doc {D} (ds : nat -> D) (i : nat) (d : D) : nat -> D :=
  fun j => if Nat.eqb j i then d else ds j.

Definition tgstep (o : top) (i : nat) (s : nat * (nat -> tdoc)) : (nat * (nat -> tdoc)) * list nat :=
  let '(g, ds) := s in
  let '(d', out) := tstep_doc g o (ds i) in ((g, upd_doc ds i d'), out).

(* a step that breaks the discipline: loading registers the document's namespace globally *)
Definition tgstep_leaky (o : top) (i : nat) (s : nat * (nat -> tdoc)) : (nat * (nat -> tdoc)) * list nat :=
  let '(g, ds) := s in
  let '(d', out) := tstep_doc g o (ds i) in
  ((match o with TLoad ns _ => ns | _ => g end, upd_doc ds i d'), out).

Definition tstate0 : nat * (nat -> tdoc) := (141, fun _ => (0, [], [])).
