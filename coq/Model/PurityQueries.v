(* C17 - concrete models of the read-only queries whose hidden writes are known, and a
   state-based version of the history machinery of Model/Purity.v (a state with an observable
   projection instead of a heap of numbered locations).

   MODEL of the document parts the queries touch (collada/polylist.py, material.py,
   primitive.py, util.py, scene.py as they stand in /repo):
     - a polylist: vcounts and index rows; Polylist.triangleset() returns the cached
       TriangleSet if `_triangleset` is set, otherwise computes it - the computation is
       Model.Triangulate.triangleset (the C11 family's model of the numpy statements) - stores
       it in `_triangleset` and returns it; if the computation raises, nothing is stored;
     - an image: CImage.getData returns `_data` if set, otherwise asks the document's file
       loader (a function of the path, here the file content recorded in the state), stores
       and returns it;
     - Primitive.getInputList(): the (offset, semantic, source, set) tuples of prim.sources,
       semantic by semantic in dict order, input by input in list order - a fresh InputList;
     - a library: collada.util.IndexedList (Model.IndexedList, the C14 family's model) with
       L[key] (dict first, then list position for non-strings), L.get(key), key in L;
     - the scene: Scene.objects(kind) = Model.Traverse.scene_objects (the C12 family's model).
   The hidden fields are exactly `c_tri` and `c_img`; [cobs] is everything else.
   SPEC: histories with the queries erased ([saves_only_s]). *)
From Coq Require Import List Bool ZArith NArith.
From PC Require Import Base.Outcome Base.Py Base.Mat Gen.Transforms Model.Strips Model.Triangulate
  Model.IndexedList Model.Traverse.
Import ListNotations.

(* ---- state-based histories *)
Section StateHistories.
  Variables St Obs Query Res Out : Type.
  Variable exec : Query -> St -> St * Res.
  Variable save : St -> St * Out.

  Inductive sop := SQ (q : Query) | SSave.
  Definition is_ssave (o : sop) : bool := match o with SSave => true | SQ _ => false end.

  (* final state and what every save wrote, in order *)
  Fixpoint srun (s : St) (ops : list sop) : St * list Out :=
    match ops with
    | [] => (s, [])
    | SQ q :: r => srun (fst (exec q s)) r
    | SSave :: r => let '(s1, v) := save s in let '(s2, out) := srun s1 r in (s2, v :: out)
    end.

  Definition saves_only_s (ops : list sop) : list sop := filter is_ssave ops.
End StateHistories.
Arguments SQ {Query} q.
Arguments SSave {Query}.

Section Concrete.
  Variable R : Type.
  Variable O : ops R.

  Definition row := list N.                         (* one index row: an index per input offset *)
  Definition input := (N * N * N * option N)%type.  (* offset, semantic, source, set *)

  Record cdoc := CDoc {
    d_vcounts : list nat;                     (* Polylist.vcounts *)
    d_rows : list row;                        (* Polylist.index, row by row *)
    d_sources : list (N * list input);        (* prim.sources: semantic -> inputs, dict order *)
    d_lib : il;                               (* a library list with its id index *)
    d_scene : list (snode R);                 (* Scene.nodes *)
    d_file : N;                               (* what the file loader returns for the image's path *)
    d_xml : list N;                           (* the XML the last save produced *)
    c_tri : option (list (tri row));          (* Polylist._triangleset *)
    c_img : option N                          (* CImage._data *)
  }.

  (* everything but the two caches *)
  Definition cobs (s : cdoc) :=
    (d_vcounts s, d_rows s, d_sources s, d_lib s, d_scene s, d_file s, d_xml s).

  Inductive lookup := LItem (k : key) | LGet (a : N) | LIn (a : N).

  Inductive cquery :=
  | QTriangleset
  | QImageData
  | QInputList
  | QLookup (l : lookup)
  | QSceneObjects (kind : nat).

  Inductive cres :=
  | RTri (r : outcome (list (tri row)))
  | RData (d : N)
  | RInputs (l : list input)
  | RLookup (r : outcome (option N))
  | RBound (l : list (bound R)).

  (* IndexedList.__getitem__: the dict first; a string that is not a key raises; anything else is
     a list position.  get: the dict or None.  __contains__ (by id): the dict. *)
  Definition il_lookup (s : il) (l : lookup) : outcome (option N) :=
    match l with
    | LItem (KId a) => match iget (index s) a with Some u => Ok (Some u) | None => Raise PyKeyError end
    | LItem (KInt z) => match norm_index (length (items s)) z with
                        | Some n => match nth_error (items s) n with
                                    | Some o => Ok (Some (ouid o)) | None => Raise PyIndexError end
                        | None => Raise PyIndexError
                        end
    | LItem (KObj _) => Raise PyTypeError
    | LGet a => Ok (iget (index s) a)
    | LIn a => Ok (match iget (index s) a with Some _ => Some 1%N | None => None end)
    end.

  Definition set_tri (s : cdoc) (t : option (list (tri row))) : cdoc :=
    CDoc (d_vcounts s) (d_rows s) (d_sources s) (d_lib s) (d_scene s) (d_file s) (d_xml s) t (c_img s).
  Definition set_img (s : cdoc) (d : option N) : cdoc :=
    CDoc (d_vcounts s) (d_rows s) (d_sources s) (d_lib s) (d_scene s) (d_file s) (d_xml s) (c_tri s) d.
  Definition set_xml (s : cdoc) (x : list N) : cdoc :=
    CDoc (d_vcounts s) (d_rows s) (d_sources s) (d_lib s) (d_scene s) (d_file s) x (c_tri s) (c_img s).

  Definition cexec (q : cquery) (s : cdoc) : cdoc * cres :=
    match q with
    | QTriangleset =>
        match c_tri s with
        | Some t => (s, RTri (Ok t))
        | None => match triangleset (d_vcounts s) (d_rows s) with
                  | Ok t => (set_tri s (Some t), RTri (Ok t))
                  | Raise e => (s, RTri (Raise e))
                  end
        end
    | QImageData =>
        match c_img s with
        | Some d => (s, RData d)
        | None => (set_img s (Some (d_file s)), RData (d_file s))
        end
    | QInputList => (s, RInputs (flat_map snd (d_sources s)))
    | QLookup l => (s, RLookup (il_lookup (d_lib s) l))
    | QSceneObjects k => (s, RBound (scene_objects O k (d_scene s)))
    end.

  (* save: the XML is rewritten from the model (vcounts, rows flattened, library ids); the caches
     are neither read nor written *)
  Definition xml_of (s : cdoc) : list N :=
    map N.of_nat (d_vcounts s) ++ concat (d_rows s) ++ map oid (items (d_lib s)).
  Definition csave (s : cdoc) : cdoc * list N := (set_xml s (xml_of s), xml_of s).

  (* declared hidden write set of a query, as the two cache fields *)
  Inductive cfield := FTriCache | FImgCache.
  Definition cdeclared (q : cquery) : list cfield :=
    match q with QTriangleset => [FTriCache] | QImageData => [FImgCache] | _ => [] end.

  (* cache coherence: a filled cache holds what the observable part determines *)
  Definition ccoherent (s : cdoc) : Prop :=
    (forall t, c_tri s = Some t -> triangleset (d_vcounts s) (d_rows s) = Ok t) /\
    (forall d, c_img s = Some d -> d = d_file s).

  (* a freshly loaded or constructed document: nothing cached *)
  Definition cfresh (s : cdoc) : Prop := c_tri s = None /\ c_img s = None.
End Concrete.

Arguments cexec {R}. Arguments csave {R}. Arguments cobs {R}. Arguments ccoherent {R}. Arguments cfresh {R}.
Arguments c_tri {R}. Arguments c_img {R}.
