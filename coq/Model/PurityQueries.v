(* C17 - concrete models of the read-only queries whose hidden writes are known, and a
   state-based version of the history machinery of Model/Purity.v (a state with an observable
   projection instead of a heap of numbered locations).

   MODEL of the document parts the queries touch (collada/polylist.py, material.py,
   primitive.py, util.py, scene.py as they stand in /repo):
     - a polylist: vcounts and index rows; Polylist.triangleset() returns the cached
       TriangleSet if `_triangleset` is set, otherwise computes it - the computation is
       Model.Triangulate.triangleset (the C11 family's model of the numpy statements) - stores
       it in `_triangleset` and returns it; if the computation raises, nothing is stored;
     - an image: CImage.getData returns `_data` if set, otherwise asks the document's file
       loader (a function of the path, here the file content recorded in the state), stores
       and returns it;
     - Primitive.getInputList(): the (offset, semantic, source, set) tuples of prim.sources,
       semantic by semantic in dict order, input by input in list order - a fresh InputList;
     - a library: collada.util.IndexedList (Model.IndexedList, the C14 family's model) with
       L[key] (dict first, then list position for non-strings), L.get(key), key in L;
     - the scene: Scene.objects(kind) = Model.Traverse.scene_objects (the C12 family's model).
     - a primitive with its sources (the C10 family's Model.PrimCtor.prim): binding
       (Primitive.bind / BoundGeometry.primitives) is Model.PrimIter.bind - a pure function that
       produces NEW transformed vertex/normal arrays; the model gives them fresh location ids in
       a store of allocated arrays ([f_store], [f_next]) so that ownership can be stated;
       bound.shapes()/triangles()/polygons()/lines() = PrimIter.shapes of the bound primitive,
       prim[i] = PrimIter.getitem_z, iteration = PrimIter.iter of the unbound primitive;
     - Polygon.triangles() = Model.Triangulate.poly_triangles on the polygon's rows;
     - Node.objects(kind, matrix) = Model.Traverse.objects on one node with a matrix;
     - str()/repr(): a function of the sizes they print.
   The hidden fields are `c_tri`, `c_img` and the store of allocated arrays; [cobs] is everything else.
   SPEC: histories with the queries erased ([saves_only_s]). *)
From Coq Require Import List Bool ZArith NArith.
From PC Require Import Base.Outcome Base.Py Base.Mat Gen.Transforms Model.Strips Model.Triangulate
  Model.IndexedList Model.Traverse.
From PC Require Model.PrimCtor Model.PrimIter.
Import ListNotations.

(* ---- state-based histories *)
Section StateHistories.
  Variables St Obs Query Res Out : Type.
  Variable exec : Query -> St -> St * Res.
  Variable save : St -> St * Out.

  Inductive sop := SQ (q : Query) | SSave.
  Definition is_ssave (o : sop) : bool := match o with SSave => true | SQ _ => false end.

  (* final state and what every save wrote, in order *)
  Fixpoint srun (s : St) (ops : list sop) : St * list Out :=
    match ops with
    | [] => (s, [])
    | SQ q :: r => srun (fst (exec q s)) r
    | SSave :: r => let '(s1, v) := save s in let '(s2, out) := srun s1 r in (s2, v :: out)
    end.

  Definition saves_only_s (ops : list sop) : list sop := filter is_ssave ops.
End StateHistories.
Arguments SQ {Query} q.
Arguments SSave {Query}.

Section Concrete.
  Variable R : Type.
  Variable O : ops R.

  Definition row := list N.                         (* one index row: an index per input offset *)
  Definition input := (N * N * N * option N)%type.  (* offset, semantic, source, set *)

  Definition zrows := list (list Z).

  Record cdoc := CDoc {
    d_vcounts : list nat;                     (* Polylist.vcounts *)
    d_rows : list row;                        (* Polylist.index, row by row *)
    d_sources : list (N * list input);        (* prim.sources: semantic -> inputs, dict order *)
    d_lib : il;                               (* a library list with its id index *)
    d_scene : list (snode R);                 (* Scene.nodes *)
    d_file : N;                               (* what the file loader returns for the image's path *)
    d_xml : list N;                           (* the XML the last save produced *)
    d_prim : PrimCtor.prim;                   (* a primitive with the source arrays it indexes *)
    c_tri : option (list (tri row));          (* Polylist._triangleset *)
    c_img : option N;                         (* CImage._data *)
    f_store : list (N * zrows);               (* arrays allocated by binding: location id -> content *)
    f_next : N                                (* next free location id *)
  }.

  (* everything but the caches and the allocated arrays *)
  Definition cobs (s : cdoc) :=
    (d_vcounts s, d_rows s, d_sources s, d_lib s, d_scene s, d_file s, d_xml s, d_prim s).

  Inductive lookup := LItem (k : key) | LGet (a : N) | LIn (a : N).

  Inductive cquery :=
  | QTriangleset
  | QImageData
  | QInputList
  | QLookup (l : lookup)
  | QSceneObjects (kind : nat)
  | QBind (m : zrows) (mm : list (N * N))            (* prim.bind(matrix, materials) *)
  | QShapes (m : zrows) (mm : list (N * N))          (* bound.shapes() / triangles() / polygons() / lines() *)
  | QUnboundItem (z : Z)                             (* prim[i] *)
  | QUnboundIter                                     (* for x in prim *)
  | QPolygonTriangles (i : nat)                      (* polylist[i].triangles() *)
  | QNodeObjects (kind : nat) (m : option (mat R)) (i : nat)   (* scene.nodes[i].objects(kind, m) *)
  | QPrint.                                          (* str()/repr() *)

  Inductive cres :=
  | RTri (r : outcome (list (tri row)))
  | RData (d : N)
  | RInputs (l : list input)
  | RLookup (r : outcome (option N))
  | RBound (l : list (bound R))
  | RPrim (p : PrimIter.iprim)
  | RItems (r : outcome (list PrimIter.item))
  | RItem (r : outcome PrimIter.item)
  | RStr (a b c : nat).

  (* IndexedList.__getitem__: the dict first; a string that is not a key raises; anything else is
     a list position.  get: the dict or None.  __contains__ (by id): the dict. *)
  Definition il_lookup (s : il) (l : lookup) : outcome (option N) :=
    match l with
    | LItem (KId a) => match iget (index s) a with Some u => Ok (Some u) | None => Raise PyKeyError end
    | LItem (KInt z) => match norm_index (length (items s)) z with
                        | Some n => match nth_error (items s) n with
                                    | Some o => Ok (Some (ouid o)) | None => Raise PyIndexError end
                        | None => Raise PyIndexError
                        end
    | LItem (KObj _) => Raise PyTypeError
    | LGet a => Ok (iget (index s) a)
    | LIn a => Ok (match iget (index s) a with Some _ => Some 1%N | None => None end)
    end.

  Definition set_tri (s : cdoc) (t : option (list (tri row))) : cdoc :=
    CDoc (d_vcounts s) (d_rows s) (d_sources s) (d_lib s) (d_scene s) (d_file s) (d_xml s) (d_prim s) t (c_img s)
         (f_store s) (f_next s).
  Definition set_img (s : cdoc) (d : option N) : cdoc :=
    CDoc (d_vcounts s) (d_rows s) (d_sources s) (d_lib s) (d_scene s) (d_file s) (d_xml s) (d_prim s) (c_tri s) d
         (f_store s) (f_next s).
  Definition set_xml (s : cdoc) (x : list N) : cdoc :=
    CDoc (d_vcounts s) (d_rows s) (d_sources s) (d_lib s) (d_scene s) (d_file s) x (d_prim s) (c_tri s) (c_img s)
         (f_store s) (f_next s).
  Definition set_store (s : cdoc) (st : list (N * zrows)) (nx : N) : cdoc :=
    CDoc (d_vcounts s) (d_rows s) (d_sources s) (d_lib s) (d_scene s) (d_file s) (d_xml s) (d_prim s) (c_tri s) (c_img s)
         st nx.

  Definition rows_of (v : option (zrows * list N)) : zrows := match v with Some (r, _) => r | None => [] end.

  (* binding allocates the transformed vertex and normal arrays at two fresh locations *)
  Definition bind_locs (s : cdoc) : list N := [f_next s; (f_next s + 1)%N].
  Definition alloc_bound (s : cdoc) (bp : PrimIter.iprim) : cdoc :=
    set_store s ((f_next s, rows_of (PrimIter.ip_vertex bp)) ::
                 ((f_next s + 1)%N, rows_of (PrimIter.ip_normal bp)) :: f_store s) (f_next s + 2)%N.

  (* the user writes into an allocated array *)
  Definition cwrite (l : N) (v : zrows) (s : cdoc) : cdoc :=
    set_store s (map (fun kv => if N.eqb (fst kv) l then (l, v) else kv) (f_store s)) (f_next s).

  Definition cexec (q : cquery) (s : cdoc) : cdoc * cres :=
    match q with
    | QTriangleset =>
        match c_tri s with
        | Some t => (s, RTri (Ok t))
        | None => match triangleset (d_vcounts s) (d_rows s) with
                  | Ok t => (set_tri s (Some t), RTri (Ok t))
                  | Raise e => (s, RTri (Raise e))
                  end
        end
    | QImageData =>
        match c_img s with
        | Some d => (s, RData d)
        | None => (set_img s (Some (d_file s)), RData (d_file s))
        end
    | QInputList => (s, RInputs (flat_map snd (d_sources s)))
    | QLookup l => (s, RLookup (il_lookup (d_lib s) l))
    | QSceneObjects k => (s, RBound (scene_objects O k (d_scene s)))
    | QBind m mm => let bp := PrimIter.bind (d_prim s) m mm in (alloc_bound s bp, RPrim bp)
    | QShapes m mm => let bp := PrimIter.bind (d_prim s) m mm in (alloc_bound s bp, RItems (PrimIter.shapes bp))
    | QUnboundItem z => (s, RItem (PrimIter.getitem_z (PrimIter.unbound (d_prim s)) z))
    | QUnboundIter => (s, RItems (PrimIter.iter (PrimIter.unbound (d_prim s))))
    | QPolygonTriangles i => (s, RTri (poly_triangles (nth i (polygon_rows (d_vcounts s) (d_rows s)) [])))
    | QNodeObjects k m i => (s, RBound (match nth_error (d_scene s) i with
                                        | Some n => objects O k m n | None => [] end))
    | QPrint => (s, RStr (length (items (d_lib s))) (length (d_vcounts s)) (PrimIter.ilen (PrimIter.unbound (d_prim s))))
    end.

  (* save: the XML is rewritten from the model (vcounts, rows flattened, library ids); the caches
     and the allocated arrays are neither read nor written *)
  Definition xml_of (s : cdoc) : list N :=
    map N.of_nat (d_vcounts s) ++ concat (d_rows s) ++ map oid (items (d_lib s)).
  Definition csave (s : cdoc) : cdoc * list N := (set_xml s (xml_of s), xml_of s).

  (* declared hidden write set of a query: the two cache fields and freshly allocated arrays *)
  Inductive cfield := FTriCache | FImgCache | FFresh.
  Definition cdeclared (q : cquery) : list cfield :=
    match q with
    | QTriangleset => [FTriCache] | QImageData => [FImgCache]
    | QBind _ _ | QShapes _ _ => [FFresh]
    | _ => []
    end.

  (* allocated locations are below the allocator *)
  Definition cwf (s : cdoc) : Prop := forall k v, In (k, v) (f_store s) -> (k < f_next s)%N.

  (* cache coherence: a filled cache holds what the observable part determines *)
  Definition ccoherent (s : cdoc) : Prop :=
    (forall t, c_tri s = Some t -> triangleset (d_vcounts s) (d_rows s) = Ok t) /\
    (forall d, c_img s = Some d -> d = d_file s).

  (* a freshly loaded or constructed document: nothing cached *)
  Definition cfresh (s : cdoc) : Prop := c_tri s = None /\ c_img s = None /\ f_store s = [].
End Concrete.

Arguments cexec {R}. Arguments csave {R}. Arguments cobs {R}. Arguments ccoherent {R}. Arguments cfresh {R}.
Arguments cdeclared {R}. Arguments QTriangleset {R}. Arguments QImageData {R}. Arguments QInputList {R}.
Arguments QLookup {R}. Arguments QSceneObjects {R}. Arguments QBind {R}. Arguments QShapes {R}.
Arguments QUnboundItem {R}. Arguments QUnboundIter {R}. Arguments QPolygonTriangles {R}.
Arguments QNodeObjects {R}. Arguments QPrint {R}.
Arguments c_tri {R}. Arguments c_img {R}. Arguments f_store {R}. Arguments f_next {R}. Arguments cwrite {R}.
Arguments bind_locs {R}. Arguments cwf {R}. Arguments d_prim {R}.
