(* C01 - the abstract round-trip algebra.

   A codec is what a class of pycollada objects does on write and on load:
     cwrite : M -> B          constructor / save() + serialisation of the object's fragment
     cload  : B -> option M   the loader (None = it raised)
     cnorm  : M -> M          what one write-then-load does to a model (numbers through
                              parse32 o fmt7, everything else unchanged)
   [law c] says  cload (cwrite m) = Some (cnorm m)  and  cnorm is idempotent.
   The float-source data codec and the index-stream codec are DEFINED here from the numeric
   oracle (Base/Num.v) and their laws are proved; the other classes enter the document
   theorem as hypotheses (see Properties/C01.v), discharged elsewhere (C05: the loaded model
   says what the file says; C06: the written file says what the model says).
   Laws are closed under pairing, lists and options, so any document shape assembled from
   class fragments inherits them.  No proofs here. *)
From Coq Require Import List ZArith.
From PC Require Import Base.Num.
Import ListNotations.

Record codec (M B : Type) := Codec {
  cwrite : M -> B;
  cload : B -> option M;
  cnorm : M -> M
}.
Arguments Codec {M B}.
Arguments cwrite {M B}.
Arguments cload {M B}.
Arguments cnorm {M B}.

Definition law {M B} (c : codec M B) : Prop :=
  (forall m, cload c (cwrite c m) = Some (cnorm c m)) /\
  (forall m, cnorm c (cnorm c m) = cnorm c m).

(* generations: m0 built by constructors; bytes g1 = write m0; m1 = load g1; g2 = write m1; ... *)
Definition gen_bytes {M B} (c : codec M B) (m : M) : B := cwrite c m.
Definition reload {M B} (c : codec M B) (m : M) : option M := cload c (cwrite c m).

(* ---- combinators *)
Definition opt_bind {A B} (o : option A) (f : A -> option B) : option B :=
  match o with Some a => f a | None => None end.

Definition pair_codec {M1 B1 M2 B2} (c1 : codec M1 B1) (c2 : codec M2 B2) : codec (M1 * M2) (B1 * B2) :=
  Codec (fun m => (cwrite c1 (fst m), cwrite c2 (snd m)))
        (fun b => opt_bind (cload c1 (fst b)) (fun a => opt_bind (cload c2 (snd b)) (fun x => Some (a, x))))
        (fun m => (cnorm c1 (fst m), cnorm c2 (snd m))).

Fixpoint load_all {M B} (ld : B -> option M) (bs : list B) : option (list M) :=
  match bs with
  | [] => Some []
  | b :: r => opt_bind (ld b) (fun m => opt_bind (load_all ld r) (fun ms => Some (m :: ms)))
  end.

(* a library: its objects in order *)
Definition list_codec {M B} (c : codec M B) : codec (list M) (list B) :=
  Codec (map (cwrite c)) (load_all (cload c)) (map (cnorm c)).

Definition option_codec {M B} (c : codec M B) : codec (option M) (option B) :=
  Codec (option_map (cwrite c))
        (fun b => match b with None => Some None | Some x => option_map Some (cload c x) end)
        (option_map (cnorm c)).

(* data that is written and read back verbatim (ids, names, urls, enumerations) *)
Definition exact_codec (M : Type) : codec M M := Codec (fun m => m) (fun b => Some b) (fun m => m).

(* ---- the numeric codecs *)
Section Numeric.
  Variable X T : Type.
  Variable fmt7 : X -> T.
  Variable parse32 : T -> X.

  (* FloatSource.save: ' '.join('%.7g' % x);  FloatSource.load: numpy.fromstring(float32) *)
  Definition emit_floats (d : list X) : list T := map fmt7 d.
  Definition parse_floats (t : list T) : list X := map parse32 t.
  Definition float_codec : codec (list X) (list T) :=
    Codec emit_floats (fun t => Some (parse_floats t)) (map (norm X T fmt7 parse32)).

  (* index streams: str(int) / int32 parse; exact on the int32 range (H_int) *)
  Variable fmt_int : Z -> T.
  Variable parse_int : T -> option Z.
  Definition emit_index (l : list Z) : list T := map fmt_int l.
  Definition parse_index (t : list T) : option (list Z) := load_all parse_int t.
  Definition index_codec : codec (list Z) (list T) :=
    Codec emit_index parse_index (fun l => l).
End Numeric.

(* ---- laws restricted to well-formed models (classes whose writer is only defined on / only
   faithful for a subset: canonical parameter order, top-level scene children are nodes ...) *)
Definition lawP {M B} (P : M -> Prop) (c : codec M B) : Prop :=
  (forall m, P m -> cload c (cwrite c m) = Some (cnorm c m) /\ P (cnorm c m)) /\
  (forall m, P m -> cnorm c (cnorm c m) = cnorm c m).
