(* MODEL of the constructors of the four primitive kinds as reached through the public
   API (Geometry.createTriangleSet / createLineSet / createPolylist / createPolygons and
   the loaders): Primitive._getInputsFromList, the reshape of the index stream,
   collada.util.checkSource and the per-semantic checks, following the code as it stands
   in /repo, including which exception escapes and in which order the checks run.

   A source is its data rows (integer-valued floats, exact) and its number of
   components.  checkSource compares the component *tuple*, but first overwrites it with
   the expected one whenever the lengths agree, so only the length matters.  No proofs. *)
From Coq Require Import List Bool Arith ZArith NArith Lia.
From PC Require Import Base.Outcome Model.IndexTable.
Import ListNotations.

Inductive sem := VERTEX | NORMAL | TEXCOORD | TEXBINORMAL | TEXTANGENT | COLOR | TANGENT | BINORMAL.

Definition sem_eqb (a b : sem) : bool :=
  match a, b with
  | VERTEX, VERTEX | NORMAL, NORMAL | TEXCOORD, TEXCOORD | TEXBINORMAL, TEXBINORMAL
  | TEXTANGENT, TEXTANGENT | COLOR, COLOR | TANGENT, TANGENT | BINORMAL, BINORMAL => true
  | _, _ => false
  end.

Record source := Src { s_rows : list (list Z); s_ncomp : nat }.
Definition s_len (s : source) : nat := length (s_rows s).

(* semantics inside a <vertices> element *)
Inductive vsem := VPosition | VSem (s : sem).

(* what the "#id" of an input resolves to in the local scope *)
Inductive target :=
  | TSrc (s : source)                       (* a Source *)
  | TVerts (d : list (vsem * source))       (* a <vertices> element: dict semantic -> Source *)
  | TMissing                                (* id not in scope *)
  | TBadRef.                                (* shorter than 2 characters or no leading '#' *)

Record rawinput := RI { r_off : nat; r_sem : sem; r_tgt : target }.
Record input := Inp { i_off : nat; i_sem : sem; i_src : source }.

(* ---- FloatSource.__init__: `data.size % len(components) != 0` -> DaeMalformedError, then
   data.reshape((-1, len(components))) *)
Definition float_source (data : list Z) (ncomp : nat) : outcome source :=
  match ncomp with
  | 0 => Raise PyOther                                   (* ZeroDivisionError *)
  | _ => if (length data mod ncomp =? 0)%nat
         then Ok (Src (chunk ncomp (length data / ncomp) data) ncomp)
         else Raise DaeMalformed
  end.

(* FloatSource.load: an accessor whose params are named exactly S, T, P is a 3-d texture
   coordinate; `data.shape = (-1, 3)` (ValueError, turned into DaeMalformedError by
   Geometry.load, unless the length is a multiple of 3), the third value of every triple is
   dropped and the source has the two components S, T.  U, V is renamed S, T; any other
   naming (including unnamed params) leaves one component per <param>. *)
Fixpoint drop_third (l : list Z) : list Z :=
  match l with
  | a :: b :: _ :: r => a :: b :: drop_third r
  | _ => []
  end.

Definition float_source_load (stp : bool) (data : list Z) (nparams : nat) : outcome source :=
  if stp then
    if (length data mod 3 =? 0)%nat then float_source (drop_third data) 2 else Raise DaeMalformed
  else float_source data nparams.

(* ---- Primitive._getInputsFromList *)

(* pass 1: a VERTEX input that points at a <vertices> dict queues one input per dict item *)
Definition expand (ri : rawinput) : list rawinput :=
  match r_sem ri, r_tgt ri with
  | VERTEX, TVerts d =>
      map (fun e => RI (r_off ri)
                       (match fst e with VPosition => VERTEX | VSem x => x end)
                       (TSrc (snd e))) d
  | _, _ => []
  end.

Definition is_dict (ri : rawinput) : bool :=
  match r_tgt ri with TVerts _ => true | _ => false end.

(* passes 2 and 3: drop every input whose target is a dict, append the queued ones *)
Definition dereference (l : list rawinput) : list rawinput :=
  filter (fun ri => negb (is_dict ri)) l ++ flat_map expand l.

(* pass 4: resolve in order; the first bad input raises *)
Fixpoint resolve (l : list rawinput) : outcome (list input) :=
  match l with
  | [] => Ok []
  | ri :: r =>
      match r_tgt ri with
      | TBadRef => Raise DaeMalformed
      | TMissing => Raise DaeBrokenRef
      | TVerts _ => Raise PyOther              (* cannot happen after [dereference] *)
      | TSrc s => match resolve r with
                  | Raise e => Raise e
                  | Ok r' => Ok (Inp (r_off ri) (r_sem ri) s :: r')
                  end
      end
  end.

Definition get_inputs (l : list rawinput) : outcome (list input) := resolve (dereference l).

(* the per-semantic bucket, in order of appearance *)
Definition bucket (s : sem) (ins : list input) : list input :=
  filter (fun i => sem_eqb (i_sem i) s) ins.

(* ---- collada.util.checkSource *)
Definition check_source (s : source) (ncomp : nat) (maxindex : N) : outcome unit :=
  if (N.of_nat (s_len s) <=? maxindex)%N then Raise DaeMalformed
  else if Nat.eqb (s_ncomp s) ncomp then Ok tt
  else Raise DaeMalformed.

(* an exposed (data array, index array) pair *)
Record view := View { v_src : source; v_idx : list N }.

Definition mk_view (t : table) (ncomp : nat) (i : input) : outcome view :=
  let idx := col (i_off i) t in
  match check_source (i_src i) ncomp (maxN idx) with
  | Raise e => Raise e
  | Ok _ => Ok (View (i_src i) idx)
  end.

Inductive kind := KTri | KLine | KPolylist | KPolygons.
Definition kind_k (k : kind) : nat :=
  match k with KTri => 3 | KLine => 2 | KPolylist | KPolygons => 1 end.
Definition is_poly (k : kind) : bool :=
  match k with KPolylist | KPolygons => true | _ => false end.

Record prim := Prim {
  p_kind : kind;
  p_nind : nat;                 (* nindices *)
  p_nrows : nat;                (* len(index): triangles / lines / corners *)
  p_vertex : option view;       (* vertex, vertex_index; None for an empty primitive *)
  p_normal : option view;
  p_texcoord : list view;       (* texcoordset / texcoord_indexset *)
  p_textangent : list view;     (* triangles only *)
  p_texbinormal : list view;    (* triangles only *)
  p_vcounts : list nat;         (* polylist / polygons *)
  p_material : option N }.

Definition first_view (t : table) (ncomp : nat) (b : list input) : outcome (option view) :=
  match b with
  | [] => Ok None
  | i :: _ => match mk_view t ncomp i with Raise e => Raise e | Ok v => Ok (Some v) end
  end.

(* the part shared by all constructors once the table exists *)
Definition fill (kd : kind) (nind : nat) (vcounts : list nat) (mat : option N)
    (ins : list input) (t : table) : outcome prim :=
  let rows := nrows (kind_k kd) t in
  match rows with
  | 0 => Ok (Prim kd nind 0 None None [] [] [] vcounts mat)
  | S _ =>
    match bucket VERTEX ins with
    | [] => Raise PyIndexError                        (* sources['VERTEX'][0] *)
    | vi :: _ =>
      match mk_view t 3 vi with Raise e => Raise e | Ok vv =>
      match first_view t 3 (bucket NORMAL ins) with Raise e => Raise e | Ok nv =>
      match omapM (mk_view t 2) (bucket TEXCOORD ins) with Raise e => Raise e | Ok tcs =>
      match kd with
      | KTri =>
        match omapM (mk_view t 3) (bucket TEXTANGENT ins) with Raise e => Raise e | Ok tts =>
        match omapM (mk_view t 3) (bucket TEXBINORMAL ins) with Raise e => Raise e | Ok tbs =>
        Ok (Prim kd nind rows (Some vv) nv tcs tts tbs vcounts mat)
        end end
      | KPolylist | KPolygons =>
        (* checked (triangleset() hands them to TriangleSet) but not exposed *)
        match omapM (mk_view t 3) (bucket TEXTANGENT ins) with Raise e => Raise e | Ok _ =>
        match omapM (mk_view t 3) (bucket TEXBINORMAL ins) with Raise e => Raise e | Ok _ =>
        Ok (Prim kd nind rows (Some vv) nv tcs [] [] vcounts mat)
        end end
      | KLine => Ok (Prim kd nind rows (Some vv) nv tcs [] [] vcounts mat)
      end end end end
    end
  end.

(* max_offset over all inputs; max() of nothing is a ValueError *)
Definition nind_of_inputs (ins : list input) : outcome nat :=
  match ins with [] => Raise PyValueError | _ => Ok (nind_of (map i_off ins)) end.

(* the constructors turn the reshape's ValueError into DaeMalformedError *)
Definition reshape_dae (k nind : nat) (flat : list N) : outcome table :=
  match reshape k nind flat with Ok t => Ok t | Raise _ => Raise DaeMalformed end.

Definition sum (l : list nat) : nat := fold_right Nat.add 0 l.

(* TriangleSet.__init__ *)
Definition triangleset (ins : list input) (mat : option N) (flat : list N) : outcome prim :=
  match nind_of_inputs ins with Raise e => Raise e | Ok nind =>
  match reshape_dae 3 nind flat with Raise e => Raise e | Ok t =>
  fill KTri nind [] mat ins t end end.

(* LineSet.__init__: `if not sources.get('VERTEX')` comes first *)
Definition lineset (ins : list input) (mat : option N) (flat : list N) : outcome prim :=
  match bucket VERTEX ins with
  | [] => Raise DaeIncomplete
  | _ =>
    match nind_of_inputs ins with Raise e => Raise e | Ok nind =>
    match reshape_dae 2 nind flat with Raise e => Raise e | Ok t =>
    fill KLine nind [] mat ins t end end
  end.

(* Polylist.__init__ *)
Definition polylist_as (kd : kind) (ins : list input) (mat : option N) (flat : list N)
    (vcounts : list nat) : outcome prim :=
  match nind_of_inputs ins with Raise e => Raise e | Ok nind =>
  match reshape_dae 1 nind flat with Raise e => Raise e | Ok t =>
  if negb (Nat.eqb (sum vcounts) (length t)) then Raise DaeMalformed
  else fill kd nind vcounts mat ins t end end.

Definition polylist := polylist_as KPolylist.

(* Polygons.__init__: vcounts[i] = len(poly) / nindices (truncated), indices = concatenation *)
Definition polygons (ins : list input) (mat : option N) (polys : list (list N)) : outcome prim :=
  match nind_of_inputs ins with Raise e => Raise e | Ok nind =>
  polylist_as KPolygons ins mat (concat polys) (map (fun p => length p / nind) polys) end.

(* one entry point for the correspondence and the theorems *)
Inductive stream := SFlat (flat : list N) | SPolylist (flat : list N) (vcounts : list nat)
                  | SPolygons (polys : list (list N)).

Definition construct (kd : kind) (ins : list input) (mat : option N) (s : stream) : outcome prim :=
  match kd, s with
  | KTri, SFlat f => triangleset ins mat f
  | KLine, SFlat f => lineset ins mat f
  | KPolylist, SPolylist f vc => polylist ins mat f vc
  | KPolygons, SPolygons ps => polygons ins mat ps
  | _, _ => Raise PyTypeError
  end.

Definition create (kd : kind) (raw : list rawinput) (mat : option N) (s : stream) : outcome prim :=
  match get_inputs raw with Raise e => Raise e | Ok ins => construct kd ins mat s end.

(* ------------------------------------------------------------------------- *)
(* SPEC side of C09 *)

(* every exposed (array, index) pair of a primitive, with the component count the
   documentation promises for it *)
Definition exposed (p : prim) : list (view * nat) :=
  (match p_vertex p with Some v => [(v, 3)] | None => [] end) ++
  (match p_normal p with Some v => [(v, 3)] | None => [] end) ++
  map (fun v => (v, 2)) (p_texcoord p) ++
  map (fun v => (v, 3)) (p_textangent p) ++
  map (fun v => (v, 3)) (p_texbinormal p).

(* the inputs a primitive of that kind exposes, by layout alone *)
Definition exposed_inputs (kd : kind) (ins : list input) : list (input * nat) :=
  map (fun i => (i, 3)) (firstn 1 (bucket VERTEX ins)) ++
  map (fun i => (i, 3)) (firstn 1 (bucket NORMAL ins)) ++
  map (fun i => (i, 2)) (bucket TEXCOORD ins) ++
  match kd with
  | KTri => map (fun i => (i, 3)) (bucket TEXTANGENT ins) ++
            map (fun i => (i, 3)) (bucket TEXBINORMAL ins)
  | _ => []
  end.

(* source[index] : fancy indexing into the data rows; IndexError when out of bounds *)
Definition gather (rows : list (list Z)) (idx : list N) : outcome (list (list Z)) :=
  omapM (fun ix => if (ix <? N.of_nat (length rows))%N
                   then of_option PyIndexError (nth_error rows (N.to_nat ix))
                   else Raise PyIndexError) idx.

Definition in_range (v : view) : Prop :=
  Forall (fun ix => (ix < N.of_nat (s_len (v_src v)))%N) (v_idx v).
